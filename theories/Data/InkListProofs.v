(* Data/InkListProofs.v — lemmas about the InkList model: the association-list maps,
   the iteration-order oracle, and for every order-sensitive site either an
   order-independence lemma (`…_order_independent`) or a refutation with a witness
   (`…_order_refuted`, defect D18).  Reused by C03 and C07. *)
From Coq Require Import Lia Permutation Sorted.
From Ink.Data Require Import Types InkList PathProofs.
From Ink.Spec Require Import KeyOrder.
Local Open Scope Z_scope.

(* ---------- maps as duplicate-free association lists ---------- *)
Definition keys (m : items) : list listitem := map fst m.
Definition keys_nodup (m : items) : Prop := NoDup (keys m).

Lemma items_get_in : forall k v m, items_get k m = Some v -> In (k, v) m.
Proof.
  induction m as [|[k' v'] r IH]; cbn; intros H; [discriminate|].
  destruct (item_eqb k k') eqn:E.
  - apply item_eqb_eq in E. injection H as ->. subst. left; reflexivity.
  - right. apply IH. exact H.
Qed.

Lemma items_get_none : forall k m, items_get k m = None <-> ~ In k (keys m).
Proof.
  induction m as [|[k' v'] r IH]; cbn; [tauto|].
  destruct (item_eqb k k') eqn:E.
  - apply item_eqb_eq in E. subst. split; [discriminate|intros H; exfalso; apply H; left; reflexivity].
  - apply item_eqb_neq in E. rewrite IH. split; [intros H [H'|H']; [congruence|tauto]|tauto].
Qed.

Lemma in_items_get : forall k v m, keys_nodup m -> In (k, v) m -> items_get k m = Some v.
Proof.
  induction m as [|[k' v'] r IH]; cbn; intros Hnd Hin; [contradiction|].
  inversion Hnd as [|? ? Hnotin Hnd']; subst.
  destruct Hin as [Heq|Hin].
  - injection Heq as -> ->. rewrite item_eqb_refl. reflexivity.
  - destruct (item_eqb k k') eqn:E.
    + apply item_eqb_eq in E. subst. exfalso. apply Hnotin. apply (in_map fst) in Hin. exact Hin.
    + apply IH; assumption.
Qed.

Lemma items_get_perm : forall m m' k, keys_nodup m -> Permutation m m' -> items_get k m = items_get k m'.
Proof.
  intros m m' k Hnd Hp.
  assert (Hnd' : keys_nodup m').
  { unfold keys_nodup, keys. eapply Permutation_NoDup; [apply Permutation_map; exact Hp|exact Hnd]. }
  destruct (items_get k m) as [v|] eqn:E.
  - symmetry. apply in_items_get; [exact Hnd'|]. eapply Permutation_in; [exact Hp|]. apply items_get_in; exact E.
  - symmetry. apply items_get_none. intros Hin. apply items_get_none in E. apply E.
    eapply Permutation_in; [apply Permutation_map; apply Permutation_sym; exact Hp|exact Hin].
Qed.

Lemma items_mem_get : forall k m, items_mem k m = match items_get k m with Some _ => true | None => false end.
Proof. reflexivity. Qed.

(* insert *)
Lemma items_get_insert : forall k k' v m,
  items_get k (items_insert k' v m) = if item_eqb k k' then Some v else items_get k m.
Proof.
  induction m as [|[k2 v2] r IH]; cbn.
  - destruct (item_eqb k k'); reflexivity.
  - destruct (item_eqb k' k2) eqn:E; cbn.
    + apply item_eqb_eq in E. subst k2. destruct (item_eqb k k'); reflexivity.
    + destruct (item_eqb k k2) eqn:E2.
      * apply item_eqb_eq in E2. subst k2.
        destruct (item_eqb k k') eqn:E3; [apply item_eqb_eq in E3; subst; rewrite item_eqb_refl in E; discriminate|reflexivity].
      * exact IH.
Qed.

Lemma keys_insert : forall k v m,
  keys (items_insert k v m) = if items_mem k m then keys m else keys m ++ [k].
Proof.
  unfold keys, items_mem. induction m as [|[k2 v2] r IH]; cbn; [reflexivity|].
  destruct (item_eqb k k2) eqn:E; cbn; [reflexivity|].
  rewrite IH. destruct (items_get k r); reflexivity.
Qed.

Lemma nodup_insert : forall k v m, keys_nodup m -> keys_nodup (items_insert k v m).
Proof.
  intros k v m H. unfold keys_nodup. rewrite keys_insert. unfold items_mem.
  destruct (items_get k m) eqn:E; [exact H|].
  apply items_get_none in E.
  apply NoDup_rev in H. apply (NoDup_cons k) in H; [|rewrite <- in_rev; exact E].
  apply NoDup_rev in H. cbn in H. rewrite rev_involutive in H. exact H.
Qed.

Lemma nodup_insert_all : forall src dst, keys_nodup dst -> keys_nodup (items_insert_all src dst).
Proof.
  unfold items_insert_all. induction src as [|[k v] r IH]; cbn; intros dst H; [exact H|].
  apply IH. apply nodup_insert. exact H.
Qed.

Lemma items_get_insert_all : forall src dst k, keys_nodup src ->
  items_get k (items_insert_all src dst) =
  match items_get k src with Some v => Some v | None => items_get k dst end.
Proof.
  unfold items_insert_all. induction src as [|[k' v'] r IH]; cbn; intros dst k Hnd; [reflexivity|].
  inversion Hnd as [|? ? Hnotin Hnd']; subst.
  rewrite IH by exact Hnd'. rewrite items_get_insert.
  destruct (item_eqb k k') eqn:E.
  - apply item_eqb_eq in E. subst k'.
    assert (items_get k r = None) as -> by (apply items_get_none; exact Hnotin). reflexivity.
  - reflexivity.
Qed.

(* remove *)
Lemma items_get_remove : forall k k' m, keys_nodup m ->
  items_get k (items_remove k' m) = if item_eqb k k' then None else items_get k m.
Proof.
  induction m as [|[k2 v2] r IH]; cbn; intros Hnd.
  - destruct (item_eqb k k'); reflexivity.
  - inversion Hnd as [|? ? Hnotin Hnd']; subst.
    destruct (item_eqb k' k2) eqn:E.
    + apply item_eqb_eq in E. subst k2.
      destruct (item_eqb k k') eqn:E2; [|reflexivity].
      apply item_eqb_eq in E2. subst k'. apply items_get_none. exact Hnotin.
    + cbn. destruct (item_eqb k k2) eqn:E2.
      * apply item_eqb_eq in E2. subst k2.
        destruct (item_eqb k k') eqn:E3; [apply item_eqb_eq in E3; subst; rewrite item_eqb_refl in E; discriminate|reflexivity].
      * apply IH. exact Hnd'.
Qed.

Lemma keys_remove_incl : forall k m x, In x (keys (items_remove k m)) -> In x (keys m).
Proof.
  induction m as [|[k2 v2] r IH]; cbn; intros x H; [exact H|].
  destruct (item_eqb k k2); cbn in *; [right; exact H|]. destruct H as [H|H]; [left; exact H|right; apply IH; exact H].
Qed.

Lemma nodup_remove : forall k m, keys_nodup m -> keys_nodup (items_remove k m).
Proof.
  induction m as [|[k2 v2] r IH]; cbn; intros H; [exact H|].
  inversion H as [|? ? Hnotin Hnd']; subst.
  destruct (item_eqb k k2); [exact Hnd'|]. cbn. constructor; [|apply IH; exact Hnd'].
  intros Hin. apply Hnotin. eapply keys_remove_incl. exact Hin.
Qed.

(* filter on keys *)
Lemma items_get_filter : forall (f : listitem -> bool) k m,
  items_get k (filter (fun kv => f (fst kv)) m) = if f k then items_get k m else None.
Proof.
  induction m as [|[k2 v2] r IH]; cbn; [destruct (f k); reflexivity|].
  destruct (f k2) eqn:F; cbn.
  - destruct (item_eqb k k2) eqn:E; [apply item_eqb_eq in E; subst; rewrite F; reflexivity|exact IH].
  - destruct (item_eqb k k2) eqn:E; [apply item_eqb_eq in E; subst; rewrite F; rewrite IH, F; reflexivity|exact IH].
Qed.

Lemma nodup_filter : forall (f : listitem * Z -> bool) m, keys_nodup m -> keys_nodup (filter f m).
Proof.
  induction m as [|[k2 v2] r IH]; cbn; intros H; [exact H|].
  inversion H as [|? ? Hnotin Hnd']; subst.
  destruct (f (k2, v2)); [|apply IH; exact Hnd'].
  cbn. constructor; [|apply IH; exact Hnd'].
  intros Hin. apply Hnotin. unfold keys in *. apply in_map_iff in Hin as [x [Hx Hin]].
  apply filter_In in Hin as [Hin _]. apply in_map_iff. exists x; split; assumption.
Qed.

(* ---------- the iteration-order oracle ---------- *)
Definition ord_rev : order_oracle := mkOrd (@rev _) (@rev _).

Lemma ord_id_ok : ord_ok ord_id.
Proof. split; intros; apply Permutation_refl. Qed.
Lemma ord_rev_ok : ord_ok ord_rev.
Proof. split; intros; apply Permutation_sym, Permutation_rev. Qed.

Lemma ord_items_nil : forall oo l, ord_ok oo -> (ord_items oo l = [] <-> l = []).
Proof.
  intros oo l [H _]. specialize (H l). split; intros E.
  - rewrite E in H. apply Permutation_nil in H. exact H.
  - subst. apply Permutation_sym, Permutation_nil in H. exact H.
Qed.

Lemma ord_items_in : forall oo l x, ord_ok oo -> (In x (ord_items oo l) <-> In x l).
Proof.
  intros oo l x [H _]. split; apply Permutation_in; [apply H|apply Permutation_sym, H].
Qed.

(* ---------- get_max_item / get_min_item ---------- *)
Definition is_max (m : items) (kv : listitem * Z) : Prop :=
  In kv m /\ forall x, In x m -> snd x <= snd kv.
Definition is_min (m : items) (kv : listitem * Z) : Prop :=
  In kv m /\ forall x, In x m -> snd kv <= snd x.

Lemma max_fold_spec : forall l acc,
  match fold_left max_step l acc with
  | None => acc = None /\ l = []
  | Some kv => (In kv l \/ acc = Some kv) /\ (forall x, In x l -> snd x <= snd kv)
               /\ (forall a, acc = Some a -> snd a <= snd kv)
  end.
Proof.
  induction l as [|x r IH]; intros acc; cbn [fold_left].
  - destruct acc as [kv|]; [|split; reflexivity].
    split; [right; reflexivity|]. split; [intros ? []|]. intros a E. injection E as ->. lia.
  - specialize (IH (max_step acc x)).
    destruct (fold_left max_step r (max_step acc x)) as [kv|].
    + destruct IH as [Hin [Hall Hacc]].
      assert (Hx : snd x <= snd kv /\ forall a, acc = Some a -> snd a <= snd kv).
      { unfold max_step in Hacc. destruct acc as [[ka ma]|].
        - destruct (ma <? snd x) eqn:E.
          + specialize (Hacc _ eq_refl). apply Z.ltb_lt in E. split; [exact Hacc|].
            intros a Ea. injection Ea as <-. cbn. lia.
          + specialize (Hacc _ eq_refl). cbn in Hacc. apply Z.ltb_ge in E. split; [lia|].
            intros a Ea. injection Ea as <-. exact Hacc.
        - specialize (Hacc _ eq_refl). split; [exact Hacc|intros a Ea; discriminate]. }
      destruct Hx as [Hx Hacc'].
      split; [|split; [intros y [<-|Hy]; [exact Hx|apply Hall; exact Hy]|exact Hacc']].
      destruct Hin as [Hin|Hin]; [left; right; exact Hin|].
      unfold max_step in Hin. destruct acc as [[ka ma]|].
      * destruct (ma <? snd x); [injection Hin as <-; left; left; reflexivity|right; exact Hin].
      * injection Hin as <-. left; left; reflexivity.
    + destruct IH as [Hacc _]. unfold max_step in Hacc. destruct acc as [[ka ma]|]; [|discriminate].
      destruct (ma <? snd x); discriminate.
Qed.

Lemma min_fold_spec : forall l acc,
  match fold_left min_step l acc with
  | None => acc = None /\ l = []
  | Some kv => (In kv l \/ acc = Some kv) /\ (forall x, In x l -> snd kv <= snd x)
               /\ (forall a, acc = Some a -> snd kv <= snd a)
  end.
Proof.
  induction l as [|x r IH]; intros acc; cbn [fold_left].
  - destruct acc as [kv|]; [|split; reflexivity].
    split; [right; reflexivity|]. split; [intros ? []|]. intros a E. injection E as ->. lia.
  - specialize (IH (min_step acc x)).
    destruct (fold_left min_step r (min_step acc x)) as [kv|].
    + destruct IH as [Hin [Hall Hacc]].
      assert (Hx : snd kv <= snd x /\ forall a, acc = Some a -> snd kv <= snd a).
      { unfold min_step in Hacc. destruct acc as [[ka ma]|].
        - destruct (snd x <? ma) eqn:E.
          + specialize (Hacc _ eq_refl). apply Z.ltb_lt in E. split; [exact Hacc|].
            intros a Ea. injection Ea as <-. cbn. lia.
          + specialize (Hacc _ eq_refl). cbn in Hacc. apply Z.ltb_ge in E. split; [lia|].
            intros a Ea. injection Ea as <-. exact Hacc.
        - specialize (Hacc _ eq_refl). split; [exact Hacc|intros a Ea; discriminate]. }
      destruct Hx as [Hx Hacc'].
      split; [|split; [intros y [<-|Hy]; [exact Hx|apply Hall; exact Hy]|exact Hacc']].
      destruct Hin as [Hin|Hin]; [left; right; exact Hin|].
      unfold min_step in Hin. destruct acc as [[ka ma]|].
      * destruct (snd x <? ma); [injection Hin as <-; left; left; reflexivity|right; exact Hin].
      * injection Hin as <-. left; left; reflexivity.
    + destruct IH as [Hacc _]. unfold min_step in Hacc. destruct acc as [[ka ma]|]; [|discriminate].
      destruct (snd x <? ma); discriminate.
Qed.

(* ---------- stable sort: the result does not depend on the input order when no two
   elements compare equal ---------- *)
Section SortUnique.
Variables (A P : Type) (proj : A -> P) (pc : P -> P -> comparison).
Hypothesis Hpc : strict_cmp pc.
Let cmp (a b : A) : comparison := pc (proj a) (proj b).
Let le (a b : A) : Prop := cmp a b <> Gt.

Lemma insert_by_perm : forall x l, Permutation (insert_by cmp x l) (x :: l).
Proof.
  induction l as [|y r IH]; cbn; [apply Permutation_refl|].
  destruct (cmp x y); try apply Permutation_refl.
  eapply perm_trans; [apply perm_skip, IH|apply perm_swap].
Qed.

Lemma sort_by_perm : forall l, Permutation (sort_by cmp l) l.
Proof.
  induction l as [|x r IH]; cbn; [apply Permutation_refl|].
  eapply perm_trans; [apply insert_by_perm|apply perm_skip, IH].
Qed.

Lemma le_trans : forall a b c, le a b -> le b c -> le a c.
Proof.
  unfold le, cmp. intros a b c H1 H2.
  destruct (pc (proj a) (proj b)) eqn:E1; [|clear H1|congruence].
  - apply (sc_eq _ Hpc) in E1. rewrite E1. exact H2.
  - destruct (pc (proj b) (proj c)) eqn:E2; [|clear H2|congruence].
    + apply (sc_eq _ Hpc) in E2. rewrite <- E2, E1. discriminate.
    + rewrite (sc_trans _ Hpc _ _ _ E1 E2). discriminate.
Qed.

Lemma insert_by_sorted : forall x l, StronglySorted le l -> StronglySorted le (insert_by cmp x l).
Proof.
  induction l as [|y r IH]; cbn; intros H; [repeat constructor|].
  pose proof H as H0. apply StronglySorted_inv in H as [Hr Hall].
  destruct (cmp x y) eqn:E.
  - constructor; [exact H0|]. constructor; [unfold le; congruence|].
    rewrite Forall_forall in *. intros z Hz. eapply le_trans; [|apply Hall; exact Hz]. unfold le; congruence.
  - constructor; [exact H0|]. constructor; [unfold le; congruence|].
    rewrite Forall_forall in *. intros z Hz. eapply le_trans; [|apply Hall; exact Hz]. unfold le; congruence.
  - constructor; [apply IH; exact Hr|]. rewrite Forall_forall in *. intros z Hz.
    apply (Permutation_in _ (insert_by_perm x r)) in Hz. destruct Hz as [<-|Hz]; [|apply Hall; exact Hz].
    unfold le, cmp in *. rewrite (sc_antisym _ Hpc). unfold cmp in E. rewrite E. discriminate.
Qed.

Lemma sort_by_sorted : forall l, StronglySorted le (sort_by cmp l).
Proof. induction l as [|x r IH]; cbn; [constructor|apply insert_by_sorted, IH]. Qed.

Lemma sorted_perm_unique : forall l l', StronglySorted le l -> StronglySorted le l' ->
  Permutation l l' -> NoDup (map proj l) -> l = l'.
Proof.
  induction l as [|a r IH]; intros l' Hs Hs' Hp Hnd.
  - apply Permutation_nil in Hp. subst. reflexivity.
  - destruct l' as [|a' r']; [apply Permutation_sym, Permutation_nil in Hp; discriminate|].
    apply StronglySorted_inv in Hs as [Hr Hall]. apply StronglySorted_inv in Hs' as [Hr' Hall'].
    rewrite Forall_forall in Hall, Hall'.
    assert (Haa : a = a').
    { assert (In a (a' :: r')) as H1 by (eapply Permutation_in; [exact Hp|left; reflexivity]).
      assert (In a' (a :: r)) as H2 by (eapply Permutation_in; [apply Permutation_sym; exact Hp|left; reflexivity]).
      destruct H1 as [H1|H1]; [symmetry; exact H1|]. destruct H2 as [H2|H2]; [exact H2|].
      specialize (Hall _ H2). specialize (Hall' _ H1). unfold le, cmp in Hall, Hall'.
      rewrite (sc_antisym _ Hpc) in Hall'.
      destruct (pc (proj a) (proj a')) eqn:E; cbn in Hall'; try congruence.
      apply (sc_eq _ Hpc) in E. cbn in Hnd. inversion Hnd as [|? ? Hnotin _]; subst.
      exfalso. apply Hnotin. rewrite E. apply in_map. exact H2. }
    subst a'. f_equal. apply IH; try assumption.
    + eapply Permutation_cons_inv. exact Hp.
    + cbn in Hnd. inversion Hnd; assumption.
Qed.

Theorem sort_by_order_independent : forall l l', Permutation l l' -> NoDup (map proj l) ->
  sort_by cmp l = sort_by cmp l'.
Proof.
  intros l l' Hp Hnd. apply sorted_perm_unique; try apply sort_by_sorted.
  - eapply perm_trans; [apply sort_by_perm|]. eapply perm_trans; [exact Hp|apply Permutation_sym, sort_by_perm].
  - eapply Permutation_NoDup; [apply Permutation_map, Permutation_sym, sort_by_perm|exact Hnd].
Qed.
End SortUnique.

Lemma Z_compare_strict : strict_cmp Z.compare.
Proof.
  constructor; [apply Z.compare_refl|apply Z.compare_eq|intros; apply Z.compare_antisym|].
  intros a b c H1 H2. rewrite Z.compare_lt_iff in *. eapply Z.lt_trans; eassumption.
Qed.


(* ---------- the total order `cmp_entries` (value, origin name, item name) ---------- *)
Definition entry_proj (kv : listitem * Z) : Z * (option text * text) :=
  (snd kv, (it_origin (fst kv), it_name (fst kv))).
Definition entry_pc := lex_cmp Z.compare (lex_cmp opt_text_cmp text_cmp).

Lemma entry_pc_strict : strict_cmp entry_pc.
Proof.
  apply lex_cmp_strict; [apply Z_compare_strict|].
  apply lex_cmp_strict; [apply opt_text_cmp_strict|apply text_cmp_strict].
Qed.

Lemma entry_cmp_lex : forall a b, entry_cmp a b = entry_pc (entry_proj a) (entry_proj b).
Proof. reflexivity. Qed.

Lemma entry_proj_inj : forall a b, entry_proj a = entry_proj b -> a = b.
Proof. intros [[oa na] va] [[ob nb] vb] H. cbn in H. injection H as -> -> ->. reflexivity. Qed.

Lemma entry_cmp_eq : forall a b, entry_cmp a b = Eq -> a = b.
Proof. intros a b H. rewrite entry_cmp_lex in H. apply (sc_eq _ entry_pc_strict) in H. apply entry_proj_inj, H. Qed.

Lemma entry_cmp_antisym : forall a b, entry_cmp b a = CompOpp (entry_cmp a b).
Proof. intros. rewrite !entry_cmp_lex. apply (sc_antisym _ entry_pc_strict). Qed.

Lemma entry_le_trans : forall a b c, entry_cmp a b <> Gt -> entry_cmp b c <> Gt -> entry_cmp a c <> Gt.
Proof. intros a b c. rewrite !entry_cmp_lex. apply (le_trans _ _ entry_proj _ entry_pc_strict). Qed.

Lemma entry_le_value : forall a b, entry_cmp a b <> Gt -> snd a <= snd b.
Proof.
  intros a b H. unfold entry_cmp in H. destruct (snd a ?= snd b) eqn:E.
  - apply Z.compare_eq in E. rewrite E. apply Z.le_refl.
  - apply Z.compare_lt_iff in E. apply Z.lt_le_incl. exact E.
  - congruence.
Qed.

Lemma max_by_fold_spec : forall l acc,
  match fold_left max_by_step l acc with
  | None => acc = None /\ l = []
  | Some r => (In r l \/ acc = Some r) /\ (forall x, In x l -> entry_cmp x r <> Gt)
              /\ (forall a, acc = Some a -> entry_cmp a r <> Gt)
  end.
Proof.
  induction l as [|x t IH]; intros acc; cbn [fold_left].
  - destruct acc as [r|]; [|split; reflexivity].
    split; [right; reflexivity|]. split; [intros ? []|]. intros a E. injection E as ->.
    rewrite entry_cmp_lex, (sc_refl _ entry_pc_strict). discriminate.
  - specialize (IH (max_by_step acc x)).
    destruct (fold_left max_by_step t (max_by_step acc x)) as [r|].
    + destruct IH as [Hin [Hall Hacc]].
      assert (Hx : entry_cmp x r <> Gt /\ forall a, acc = Some a -> entry_cmp a r <> Gt).
      { unfold max_by_step in Hacc. destruct acc as [m|].
        - destruct (entry_cmp m x) eqn:E.
          + specialize (Hacc _ eq_refl). split; [exact Hacc|]. intros a Ea. injection Ea as <-.
            eapply entry_le_trans; [|exact Hacc]. congruence.
          + specialize (Hacc _ eq_refl). split; [exact Hacc|]. intros a Ea. injection Ea as <-.
            eapply entry_le_trans; [|exact Hacc]. congruence.
          + specialize (Hacc _ eq_refl). split; [|intros a Ea; injection Ea as <-; exact Hacc].
            eapply entry_le_trans; [|exact Hacc]. rewrite entry_cmp_antisym, E. discriminate.
        - specialize (Hacc _ eq_refl). split; [exact Hacc|intros a Ea; discriminate]. }
      destruct Hx as [Hx Hacc'].
      split; [|split; [intros y [<-|Hy]; [exact Hx|apply Hall; exact Hy]|exact Hacc']].
      destruct Hin as [Hin|Hin]; [left; right; exact Hin|].
      unfold max_by_step in Hin. destruct acc as [m|].
      * destruct (entry_cmp m x); try (injection Hin as <-; left; left; reflexivity). right; exact Hin.
      * injection Hin as <-. left; left; reflexivity.
    + destruct IH as [Hacc _]. unfold max_by_step in Hacc. destruct acc as [m|]; [|discriminate].
      destruct (entry_cmp m x); discriminate.
Qed.

Lemma min_by_fold_spec : forall l acc,
  match fold_left min_by_step l acc with
  | None => acc = None /\ l = []
  | Some r => (In r l \/ acc = Some r) /\ (forall x, In x l -> entry_cmp r x <> Gt)
              /\ (forall a, acc = Some a -> entry_cmp r a <> Gt)
  end.
Proof.
  induction l as [|x t IH]; intros acc; cbn [fold_left].
  - destruct acc as [r|]; [|split; reflexivity].
    split; [right; reflexivity|]. split; [intros ? []|]. intros a E. injection E as ->.
    rewrite entry_cmp_lex, (sc_refl _ entry_pc_strict). discriminate.
  - specialize (IH (min_by_step acc x)).
    destruct (fold_left min_by_step t (min_by_step acc x)) as [r|].
    + destruct IH as [Hin [Hall Hacc]].
      assert (Hx : entry_cmp r x <> Gt /\ forall a, acc = Some a -> entry_cmp r a <> Gt).
      { unfold min_by_step in Hacc. destruct acc as [m|].
        - destruct (entry_cmp m x) eqn:E.
          + specialize (Hacc _ eq_refl). split; [|intros a Ea; injection Ea as <-; exact Hacc].
            eapply entry_le_trans; [exact Hacc|]. congruence.
          + specialize (Hacc _ eq_refl). split; [|intros a Ea; injection Ea as <-; exact Hacc].
            eapply entry_le_trans; [exact Hacc|]. congruence.
          + specialize (Hacc _ eq_refl). split; [exact Hacc|]. intros a Ea. injection Ea as <-.
            eapply entry_le_trans; [exact Hacc|]. rewrite entry_cmp_antisym, E. discriminate.
        - specialize (Hacc _ eq_refl). split; [exact Hacc|intros a Ea; discriminate]. }
      destruct Hx as [Hx Hacc'].
      split; [|split; [intros y [<-|Hy]; [exact Hx|apply Hall; exact Hy]|exact Hacc']].
      destruct Hin as [Hin|Hin]; [left; right; exact Hin|].
      unfold min_by_step in Hin. destruct acc as [m|].
      * destruct (entry_cmp m x); try (right; exact Hin). injection Hin as <-. left; left; reflexivity.
      * injection Hin as <-. left; left; reflexivity.
    + destruct IH as [Hacc _]. unfold min_by_step in Hacc. destruct acc as [m|]; [|discriminate].
      destruct (entry_cmp m x); discriminate.
Qed.

Section OneOracle.
Variable tb : tie_break.
Variable oo : order_oracle.
Hypothesis Hoo : ord_ok oo.

(* under TieTotal the result is THE greatest / least entry of the map *)
Definition is_greatest (m : items) (r : listitem * Z) : Prop :=
  In r m /\ forall x, In x m -> entry_cmp x r <> Gt.
Definition is_least (m : items) (r : listitem * Z) : Prop :=
  In r m /\ forall x, In x m -> entry_cmp r x <> Gt.

Lemma get_max_item_total_spec : forall l,
  match get_max_item_tb oo TieTotal l with
  | None => l_items l = []
  | Some r => is_greatest (l_items l) r
  end.
Proof.
  intros l. unfold get_max_item_tb. pose proof (max_by_fold_spec (ord_items oo (l_items l)) None) as H.
  destruct (fold_left max_by_step (ord_items oo (l_items l)) None) as [r|].
  - destruct H as [[Hin|Hin] [Hall _]]; [|discriminate]. split.
    + apply (ord_items_in oo _ _ Hoo). exact Hin.
    + intros x Hx. apply Hall. apply (ord_items_in oo _ _ Hoo). exact Hx.
  - destruct H as [_ H]. apply (ord_items_nil oo _ Hoo). exact H.
Qed.
Lemma get_min_item_total_spec : forall l,
  match get_min_item_tb oo TieTotal l with
  | None => l_items l = []
  | Some r => is_least (l_items l) r
  end.
Proof.
  intros l. unfold get_min_item_tb. pose proof (min_by_fold_spec (ord_items oo (l_items l)) None) as H.
  destruct (fold_left min_by_step (ord_items oo (l_items l)) None) as [r|].
  - destruct H as [[Hin|Hin] [Hall _]]; [|discriminate]. split.
    + apply (ord_items_in oo _ _ Hoo). exact Hin.
    + intros x Hx. apply Hall. apply (ord_items_in oo _ _ Hoo). exact Hx.
  - destruct H as [_ H]. apply (ord_items_nil oo _ Hoo). exact H.
Qed.

Lemma get_max_item_spec_tb : forall l,
  match get_max_item_tb oo tb l with
  | None => l_items l = []
  | Some kv => is_max (l_items l) kv
  end.
Proof.
  intros l. destruct tb.
  - unfold get_max_item_tb. pose proof (max_fold_spec (ord_items oo (l_items l)) None) as H.
    destruct (fold_left max_step (ord_items oo (l_items l)) None) as [kv|].
    + destruct H as [[Hin|Hin] [Hall _]]; [|discriminate]. split.
      * apply (ord_items_in oo _ _ Hoo). exact Hin.
      * intros x Hx. apply Hall. apply (ord_items_in oo _ _ Hoo). exact Hx.
    + destruct H as [_ H]. apply (ord_items_nil oo _ Hoo). exact H.
  - pose proof (get_max_item_total_spec l) as H. destruct (get_max_item_tb oo TieTotal l) as [r|]; [|exact H].
    destruct H as [Hin Hall]. split; [exact Hin|]. intros x Hx. apply entry_le_value, Hall, Hx.
Qed.

Lemma get_min_item_spec_tb : forall l,
  match get_min_item_tb oo tb l with
  | None => l_items l = []
  | Some kv => is_min (l_items l) kv
  end.
Proof.
  intros l. destruct tb.
  - unfold get_min_item_tb. pose proof (min_fold_spec (ord_items oo (l_items l)) None) as H.
    destruct (fold_left min_step (ord_items oo (l_items l)) None) as [kv|].
    + destruct H as [[Hin|Hin] [Hall _]]; [|discriminate]. split.
      * apply (ord_items_in oo _ _ Hoo). exact Hin.
      * intros x Hx. apply Hall. apply (ord_items_in oo _ _ Hoo). exact Hx.
    + destruct H as [_ H]. apply (ord_items_nil oo _ Hoo). exact H.
  - pose proof (get_min_item_total_spec l) as H. destruct (get_min_item_tb oo TieTotal l) as [r|]; [|exact H].
    destruct H as [Hin Hall]. split; [exact Hin|]. intros x Hx. apply entry_le_value, Hall, Hx.
Qed.
End OneOracle.

Section Now.
Variable oo : order_oracle.
Hypothesis Hoo : ord_ok oo.

Lemma get_max_item_spec : forall l,
  match get_max_item oo l with None => l_items l = [] | Some kv => is_max (l_items l) kv end.
Proof. exact (get_max_item_spec_tb tie_break_now oo Hoo). Qed.
Lemma get_min_item_spec : forall l,
  match get_min_item oo l with None => l_items l = [] | Some kv => is_min (l_items l) kv end.
Proof. exact (get_min_item_spec_tb tie_break_now oo Hoo). Qed.

(* the unwraps guarded by an emptiness test in ink_list.rs are safe *)
Lemma get_max_item_none : forall l, get_max_item oo l = None <-> list_is_empty l = true.
Proof.
  intros l. pose proof (get_max_item_spec l) as H. unfold list_is_empty, items_is_empty.
  destruct (get_max_item oo l) as [kv|].
  - destruct H as [Hin _]. split; [discriminate|]. destruct (l_items l); [contradiction|discriminate].
  - rewrite H. split; reflexivity.
Qed.
Lemma get_min_item_none : forall l, get_min_item oo l = None <-> list_is_empty l = true.
Proof.
  intros l. pose proof (get_min_item_spec l) as H. unfold list_is_empty, items_is_empty.
  destruct (get_min_item oo l) as [kv|].
  - destruct H as [Hin _]. split; [discriminate|]. destruct (l_items l); [contradiction|discriminate].
  - rewrite H. split; reflexivity.
Qed.
End Now.

(* the VALUE of the extreme item never depends on the order (nor on the tie-break);
   the ITEM does not either when no two items have the same value *)
Definition max_value_tb (tb : tie_break) (oo : order_oracle) (l : inklist) : option Z :=
  option_map snd (get_max_item_tb oo tb l).
Definition min_value_tb (tb : tie_break) (oo : order_oracle) (l : inklist) : option Z :=
  option_map snd (get_min_item_tb oo tb l).
Definition max_value := max_value_tb tie_break_now.
Definition min_value := min_value_tb tie_break_now.

Lemma is_max_value_unique : forall m a b, is_max m a -> is_max m b -> snd a = snd b.
Proof. intros m a b [Ha Ha'] [Hb Hb']. specialize (Ha' _ Hb). specialize (Hb' _ Ha). lia. Qed.
Lemma is_min_value_unique : forall m a b, is_min m a -> is_min m b -> snd a = snd b.
Proof. intros m a b [Ha Ha'] [Hb Hb']. specialize (Ha' _ Hb). specialize (Hb' _ Ha). lia. Qed.

Lemma is_max_perm : forall m m' a, Permutation m m' -> is_max m a -> is_max m' a.
Proof.
  intros m m' a Hp [Hin Hall]. split; [eapply Permutation_in; eassumption|].
  intros x Hx. apply Hall. eapply Permutation_in; [apply Permutation_sym; exact Hp|exact Hx].
Qed.
Lemma is_min_perm : forall m m' a, Permutation m m' -> is_min m a -> is_min m' a.
Proof.
  intros m m' a Hp [Hin Hall]. split; [eapply Permutation_in; eassumption|].
  intros x Hx. apply Hall. eapply Permutation_in; [apply Permutation_sym; exact Hp|exact Hx].
Qed.


Theorem max_value_order_independent_tb : forall tb1 tb2 oo1 oo2 l l',
  ord_ok oo1 -> ord_ok oo2 -> Permutation (l_items l) (l_items l') ->
  max_value_tb tb1 oo1 l = max_value_tb tb2 oo2 l'.
Proof.
  intros tb1 tb2 oo1 oo2 l l' H1 H2 Hp. unfold max_value_tb.
  pose proof (get_max_item_spec_tb tb1 oo1 H1 l) as A. pose proof (get_max_item_spec_tb tb2 oo2 H2 l') as B.
  destruct (get_max_item_tb oo1 tb1 l) as [a|], (get_max_item_tb oo2 tb2 l') as [b|]; cbn.
  - f_equal. eapply is_max_value_unique; [eapply is_max_perm; eassumption|exact B].
  - destruct A as [Hin _]. rewrite B in Hp. apply Permutation_sym, Permutation_nil in Hp. rewrite Hp in Hin. contradiction.
  - destruct B as [Hin _]. rewrite A in Hp. apply Permutation_nil in Hp. rewrite Hp in Hin. contradiction.
  - reflexivity.
Qed.
Theorem min_value_order_independent_tb : forall tb1 tb2 oo1 oo2 l l',
  ord_ok oo1 -> ord_ok oo2 -> Permutation (l_items l) (l_items l') ->
  min_value_tb tb1 oo1 l = min_value_tb tb2 oo2 l'.
Proof.
  intros tb1 tb2 oo1 oo2 l l' H1 H2 Hp. unfold min_value_tb.
  pose proof (get_min_item_spec_tb tb1 oo1 H1 l) as A. pose proof (get_min_item_spec_tb tb2 oo2 H2 l') as B.
  destruct (get_min_item_tb oo1 tb1 l) as [a|], (get_min_item_tb oo2 tb2 l') as [b|]; cbn.
  - f_equal. eapply is_min_value_unique; [eapply is_min_perm; eassumption|exact B].
  - destruct A as [Hin _]. rewrite B in Hp. apply Permutation_sym, Permutation_nil in Hp. rewrite Hp in Hin. contradiction.
  - destruct B as [Hin _]. rewrite A in Hp. apply Permutation_nil in Hp. rewrite Hp in Hin. contradiction.
  - reflexivity.
Qed.
Theorem max_value_order_independent : forall oo1 oo2 l l',
  ord_ok oo1 -> ord_ok oo2 -> Permutation (l_items l) (l_items l') ->
  max_value oo1 l = max_value oo2 l'.
Proof. exact (max_value_order_independent_tb tie_break_now tie_break_now). Qed.
Theorem min_value_order_independent : forall oo1 oo2 l l',
  ord_ok oo1 -> ord_ok oo2 -> Permutation (l_items l) (l_items l') ->
  min_value oo1 l = min_value oo2 l'.
Proof. exact (min_value_order_independent_tb tie_break_now tie_break_now). Qed.

Lemma nodup_map_inj : forall A B (f : A -> B) l a b,
  NoDup (map f l) -> In a l -> In b l -> f a = f b -> a = b.
Proof.
  induction l as [|x r IH]; cbn; intros a b Hnd Ha Hb E; [contradiction|].
  inversion Hnd as [|? ? Hnotin Hnd']; subst.
  destruct Ha as [<-|Ha], Hb as [<-|Hb]; [reflexivity| | |apply IH; assumption].
  - exfalso. apply Hnotin. rewrite E. apply in_map. exact Hb.
  - exfalso. apply Hnotin. rewrite <- E. apply in_map. exact Ha.
Qed.


(* site get_max_item / get_min_item, whatever the tie-break: independent of the order
   when values are distinct *)
Theorem get_max_item_order_independent_distinct : forall tb oo1 oo2 l,
  ord_ok oo1 -> ord_ok oo2 -> NoDup (map snd (l_items l)) ->
  get_max_item_tb oo1 tb l = get_max_item_tb oo2 tb l.
Proof.
  intros tb oo1 oo2 l H1 H2 Hnd.
  pose proof (get_max_item_spec_tb tb oo1 H1 l) as A. pose proof (get_max_item_spec_tb tb oo2 H2 l) as B.
  destruct (get_max_item_tb oo1 tb l) as [a|], (get_max_item_tb oo2 tb l) as [b|].
  - f_equal. eapply nodup_map_inj; [exact Hnd|apply A|apply B|]. eapply is_max_value_unique; eassumption.
  - destruct A as [Hin _]. rewrite B in Hin. contradiction.
  - destruct B as [Hin _]. rewrite A in Hin. contradiction.
  - reflexivity.
Qed.
Theorem get_min_item_order_independent_distinct : forall tb oo1 oo2 l,
  ord_ok oo1 -> ord_ok oo2 -> NoDup (map snd (l_items l)) ->
  get_min_item_tb oo1 tb l = get_min_item_tb oo2 tb l.
Proof.
  intros tb oo1 oo2 l H1 H2 Hnd.
  pose proof (get_min_item_spec_tb tb oo1 H1 l) as A. pose proof (get_min_item_spec_tb tb oo2 H2 l) as B.
  destruct (get_min_item_tb oo1 tb l) as [a|], (get_min_item_tb oo2 tb l) as [b|].
  - f_equal. eapply nodup_map_inj; [exact Hnd|apply A|apply B|]. eapply is_min_value_unique; eassumption.
  - destruct A as [Hin _]. rewrite B in Hin. contradiction.
  - destruct B as [Hin _]. rewrite A in Hin. contradiction.
  - reflexivity.
Qed.

(* ... and with the total order `cmp_entries`: independent of the order, always *)
Theorem get_max_item_order_independent_total : forall oo1 oo2 l l',
  ord_ok oo1 -> ord_ok oo2 -> Permutation (l_items l) (l_items l') ->
  get_max_item_tb oo1 TieTotal l = get_max_item_tb oo2 TieTotal l'.
Proof.
  intros oo1 oo2 l l' H1 H2 Hp.
  pose proof (get_max_item_total_spec oo1 H1 l) as A. pose proof (get_max_item_total_spec oo2 H2 l') as B.
  destruct (get_max_item_tb oo1 TieTotal l) as [a|], (get_max_item_tb oo2 TieTotal l') as [b|].
  - f_equal. destruct A as [Ha Ha'], B as [Hb Hb'].
    assert (Hab : entry_cmp a b <> Gt) by (apply Hb'; eapply Permutation_in; eassumption).
    assert (Hba : entry_cmp b a <> Gt) by (apply Ha'; eapply Permutation_in; [apply Permutation_sym; eassumption|exact Hb]).
    rewrite entry_cmp_antisym in Hba. apply entry_cmp_eq. destruct (entry_cmp a b); cbn in *; congruence.
  - destruct A as [Hin _]. rewrite B in Hp. apply Permutation_sym, Permutation_nil in Hp. rewrite Hp in Hin. contradiction.
  - destruct B as [Hin _]. rewrite A in Hp. apply Permutation_nil in Hp. rewrite Hp in Hin. contradiction.
  - reflexivity.
Qed.
Theorem get_min_item_order_independent_total : forall oo1 oo2 l l',
  ord_ok oo1 -> ord_ok oo2 -> Permutation (l_items l) (l_items l') ->
  get_min_item_tb oo1 TieTotal l = get_min_item_tb oo2 TieTotal l'.
Proof.
  intros oo1 oo2 l l' H1 H2 Hp.
  pose proof (get_min_item_total_spec oo1 H1 l) as A. pose proof (get_min_item_total_spec oo2 H2 l') as B.
  destruct (get_min_item_tb oo1 TieTotal l) as [a|], (get_min_item_tb oo2 TieTotal l') as [b|].
  - f_equal. destruct A as [Ha Ha'], B as [Hb Hb'].
    assert (Hab : entry_cmp a b <> Gt) by (apply Ha'; eapply Permutation_in; [apply Permutation_sym; eassumption|exact Hb]).
    assert (Hba : entry_cmp b a <> Gt) by (apply Hb'; eapply Permutation_in; eassumption).
    rewrite entry_cmp_antisym in Hba. apply entry_cmp_eq. destruct (entry_cmp a b); cbn in *; congruence.
  - destruct A as [Hin _]. rewrite B in Hp. apply Permutation_sym, Permutation_nil in Hp. rewrite Hp in Hin. contradiction.
  - destruct B as [Hin _]. rewrite A in Hp. apply Permutation_nil in Hp. rewrite Hp in Hin. contradiction.
  - reflexivity.
Qed.

(* ... and refuted for the iteration-order tie-break when two items tie (defect D18):
   LIST_MAX(a + x) with L.a = M.x = 1 *)
Definition tie_list : inklist :=
  mkList [(mkItem (Some (T "L")) (T "a"), 1); (mkItem (Some (T "M")) (T "x"), 1)] [] [].

Theorem get_max_item_order_refuted :
  exists oo1 oo2 l, ord_ok oo1 /\ ord_ok oo2 /\
    get_max_item_tb oo1 TieIteration l <> get_max_item_tb oo2 TieIteration l.
Proof.
  exists ord_id, ord_rev, tie_list. split; [apply ord_id_ok|]. split; [apply ord_rev_ok|].
  vm_compute. discriminate.
Qed.
Theorem get_min_item_order_refuted :
  exists oo1 oo2 l, ord_ok oo1 /\ ord_ok oo2 /\
    get_min_item_tb oo1 TieIteration l <> get_min_item_tb oo2 TieIteration l.
Proof.
  exists ord_id, ord_rev, tie_list. split; [apply ord_id_ok|]. split; [apply ord_rev_ok|].
  vm_compute. discriminate.
Qed.

(* ---------- ListDefinition::get_item_with_value ---------- *)
Theorem def_item_with_value_order_refuted :
  exists oo1 oo2 d v, ord_ok oo1 /\ ord_ok oo2 /\
    def_item_with_value_tb oo1 TieIteration d v <> def_item_with_value_tb oo2 TieIteration d v.
Proof.
  exists ord_id, ord_rev, (T "K", [(T "p", 1); (T "q", 1)]), 1.
  split; [apply ord_id_ok|]. split; [apply ord_rev_ok|]. vm_compute. discriminate.
Qed.

Lemma filter_perm : forall A (f : A -> bool) l l', Permutation l l' -> Permutation (filter f l) (filter f l').
Proof.
  intros A f l l' H. induction H; cbn.
  - apply Permutation_refl.
  - destruct (f x); [apply perm_skip|]; exact IHPermutation.
  - destruct (f x), (f y); try apply Permutation_refl. apply perm_swap.
  - eapply perm_trans; eassumption.
Qed.

(* duplicate-free values: any tie-break, any order *)
Theorem def_item_with_value_order_independent_distinct : forall tb oo1 oo2 d v,
  ord_ok oo1 -> ord_ok oo2 -> NoDup (map snd (snd d)) ->
  def_item_with_value_tb oo1 tb d v = def_item_with_value_tb oo2 tb d v.
Proof.
  intros tb oo1 oo2 d v [_ H1] [_ H2] Hnd. unfold def_item_with_value_tb.
  assert (Hhits : forall oo, (forall l, Permutation (ord_def oo l) l) ->
            forall a b, In a (filter (fun nv : text * Z => snd nv =? v) (ord_def oo (snd d))) ->
                        In b (filter (fun nv : text * Z => snd nv =? v) (snd d)) -> a = b).
  { intros oo Ho a b Ha Hb. apply filter_In in Ha as [Ha Hav]. apply filter_In in Hb as [Hb Hbv].
    apply Z.eqb_eq in Hav. apply Z.eqb_eq in Hbv.
    eapply nodup_map_inj; [exact Hnd|eapply Permutation_in; [apply Ho|exact Ha]|exact Hb|congruence]. }
  assert (Hone : forall oo, (forall l, Permutation (ord_def oo l) l) ->
            filter (fun nv : text * Z => snd nv =? v) (ord_def oo (snd d)) =
            filter (fun nv : text * Z => snd nv =? v) (snd d)).
  { intros oo Ho. pose proof (filter_perm _ (fun nv : text * Z => snd nv =? v) _ _ (Ho (snd d))) as Hp.
    pose proof (Hhits oo Ho) as Hu.
    destruct (filter (fun nv : text * Z => snd nv =? v) (ord_def oo (snd d))) as [|a [|a' ra]] eqn:Ea;
    destruct (filter (fun nv : text * Z => snd nv =? v) (snd d)) as [|b [|b' rb]] eqn:Eb;
      try reflexivity;
      try (apply Permutation_length in Hp; cbn in Hp; discriminate).
    - f_equal. apply Hu; left; reflexivity.
    - exfalso. assert (b = b') as E.
      { transitivity a; [symmetry|]; apply Hu; [left; reflexivity|left; reflexivity|left; reflexivity|right; left; reflexivity]. }
      subst b'. assert (NoDup (b :: b :: rb)) as N.
      { rewrite <- Eb. apply NoDup_filter. eapply NoDup_map_inv. exact Hnd. }
      inversion N as [|? ? Hn _]. apply Hn. left; reflexivity. }
  rewrite (Hone oo1 H1), (Hone oo2 H2). reflexivity.
Qed.

(* the smallest name among the hits: any order *)
Lemma min_name_fold_spec : forall l acc,
  match fold_left min_name_step l acc with
  | None => acc = None /\ l = []
  | Some r => (In r l \/ acc = Some r) /\ (forall x, In x l -> text_cmp (fst r) (fst x) <> Gt)
              /\ (forall a, acc = Some a -> text_cmp (fst r) (fst a) <> Gt)
  end.
Proof.
  assert (Htr : forall a b c : text, text_cmp a b <> Gt -> text_cmp b c <> Gt -> text_cmp a c <> Gt).
  { intros a b c. apply (le_trans _ _ (fun x : text => x) _ text_cmp_strict). }
  induction l as [|x t IH]; intros acc; cbn [fold_left].
  - destruct acc as [r|]; [|split; reflexivity].
    split; [right; reflexivity|]. split; [intros ? []|]. intros a E. injection E as ->.
    rewrite text_cmp_refl. discriminate.
  - specialize (IH (min_name_step acc x)).
    destruct (fold_left min_name_step t (min_name_step acc x)) as [r|].
    + destruct IH as [Hin [Hall Hacc]].
      assert (Hx : text_cmp (fst r) (fst x) <> Gt /\ forall a, acc = Some a -> text_cmp (fst r) (fst a) <> Gt).
      { unfold min_name_step in Hacc. destruct acc as [m|].
        - destruct (text_cmp (fst m) (fst x)) eqn:E.
          + specialize (Hacc _ eq_refl). split; [|intros a Ea; injection Ea as <-; exact Hacc].
            eapply Htr; [exact Hacc|]. congruence.
          + specialize (Hacc _ eq_refl). split; [|intros a Ea; injection Ea as <-; exact Hacc].
            eapply Htr; [exact Hacc|]. congruence.
          + specialize (Hacc _ eq_refl). split; [exact Hacc|]. intros a Ea. injection Ea as <-.
            eapply Htr; [exact Hacc|]. rewrite text_cmp_antisym, E. discriminate.
        - specialize (Hacc _ eq_refl). split; [exact Hacc|intros a Ea; discriminate]. }
      destruct Hx as [Hx Hacc'].
      split; [|split; [intros y [<-|Hy]; [exact Hx|apply Hall; exact Hy]|exact Hacc']].
      destruct Hin as [Hin|Hin]; [left; right; exact Hin|].
      unfold min_name_step in Hin. destruct acc as [m|].
      * destruct (text_cmp (fst m) (fst x)); try (right; exact Hin). injection Hin as <-. left; left; reflexivity.
      * injection Hin as <-. left; left; reflexivity.
    + destruct IH as [Hacc _]. unfold min_name_step in Hacc. destruct acc as [m|]; [|discriminate].
      destruct (text_cmp (fst m) (fst x)); discriminate.
Qed.

Theorem def_item_with_value_order_independent_total : forall oo1 oo2 d v,
  ord_ok oo1 -> ord_ok oo2 ->
  def_item_with_value_tb oo1 TieTotal d v = def_item_with_value_tb oo2 TieTotal d v.
Proof.
  intros oo1 oo2 d v [_ H1] [_ H2]. unfold def_item_with_value_tb.
  set (f := fun nv : text * Z => snd nv =? v).
  assert (Hp : Permutation (filter f (ord_def oo1 (snd d))) (filter f (ord_def oo2 (snd d)))).
  { apply filter_perm. eapply perm_trans; [apply H1|apply Permutation_sym, H2]. }
  pose proof (min_name_fold_spec (filter f (ord_def oo1 (snd d))) None) as A.
  pose proof (min_name_fold_spec (filter f (ord_def oo2 (snd d))) None) as B.
  destruct (fold_left min_name_step (filter f (ord_def oo1 (snd d))) None) as [a|],
           (fold_left min_name_step (filter f (ord_def oo2 (snd d))) None) as [b|].
  - destruct A as [[Ha|Ha] [Ha' _]]; [|discriminate]. destruct B as [[Hb|Hb] [Hb' _]]; [|discriminate].
    assert (Hab : text_cmp (fst a) (fst b) <> Gt) by (apply Ha'; eapply Permutation_in; [apply Permutation_sym; exact Hp|exact Hb]).
    assert (Hba : text_cmp (fst b) (fst a) <> Gt) by (apply Hb'; eapply Permutation_in; [exact Hp|exact Ha]).
    rewrite text_cmp_antisym in Hba.
    assert (fst a = fst b) as -> by (apply text_cmp_eq; destruct (text_cmp (fst a) (fst b)); cbn in *; congruence).
    reflexivity.
  - destruct A as [[Ha|Ha] _]; [|discriminate]. destruct B as [_ B]. rewrite B in Hp.
    apply Permutation_sym, Permutation_nil in Hp. rewrite Hp in Ha. contradiction.
  - destruct B as [[Hb|Hb] _]; [|discriminate]. destruct A as [_ A]. rewrite A in Hp.
    apply Permutation_nil in Hp. rewrite Hp in Hb. contradiction.
  - reflexivity.
Qed.

(* ---------- the comparisons only look at extreme VALUES: order independent, always ---------- *)
Theorem list_comparisons_order_independent : forall oo1 oo2 a b,
  ord_ok oo1 -> ord_ok oo2 ->
  list_greater_than oo1 a b = list_greater_than oo2 a b /\
  list_greater_than_or_equals oo1 a b = list_greater_than_or_equals oo2 a b /\
  list_less_than oo1 a b = list_less_than oo2 a b /\
  list_less_than_or_equals oo1 a b = list_less_than_or_equals oo2 a b.
Proof.
  intros oo1 oo2 a b H1 H2.
  pose proof (max_value_order_independent oo1 oo2 a a H1 H2 (Permutation_refl _)) as Ma.
  pose proof (max_value_order_independent oo1 oo2 b b H1 H2 (Permutation_refl _)) as Mb.
  pose proof (min_value_order_independent oo1 oo2 a a H1 H2 (Permutation_refl _)) as ma.
  pose proof (min_value_order_independent oo1 oo2 b b H1 H2 (Permutation_refl _)) as mb.
  unfold max_value, min_value, max_value_tb, min_value_tb in *.
  fold (get_max_item oo1 a) (get_max_item oo2 a) (get_max_item oo1 b) (get_max_item oo2 b) in *.
  fold (get_min_item oo1 a) (get_min_item oo2 a) (get_min_item oo1 b) (get_min_item oo2 b) in *.
  unfold list_greater_than, list_greater_than_or_equals, list_less_than, list_less_than_or_equals.
  destruct (get_max_item oo1 a) as [[? ?]|], (get_max_item oo2 a) as [[? ?]|]; cbn in Ma; try discriminate;
  destruct (get_max_item oo1 b) as [[? ?]|], (get_max_item oo2 b) as [[? ?]|]; cbn in Mb; try discriminate;
  destruct (get_min_item oo1 a) as [[? ?]|], (get_min_item oo2 a) as [[? ?]|]; cbn in ma; try discriminate;
  destruct (get_min_item oo1 b) as [[? ?]|], (get_min_item oo2 b) as [[? ?]|]; cbn in mb; try discriminate;
  repeat match goal with H : Some _ = Some _ |- _ => injection H as -> end;
  repeat split; reflexivity.
Qed.

(* ---------- get_ordered_items (Display, LIST_RANGE) ---------- *)
Definition value_origin (kv : listitem * Z) : Z * option text := (snd kv, it_origin (fst kv)).

Lemma item_sort_cmp_lex : forall a b,
  item_sort_cmp a b = lex_cmp Z.compare opt_text_cmp (value_origin a) (value_origin b).
Proof.
  intros a b. unfold item_sort_cmp, lex_cmp, value_origin. cbn.
  destruct (snd a =? snd b) eqn:E.
  - apply Z.eqb_eq in E. rewrite E, Z.compare_refl. reflexivity.
  - apply Z.eqb_neq in E. destruct (snd a ?= snd b) eqn:C; try reflexivity.
    apply Z.compare_eq in C. contradiction.
Qed.

Lemma insert_by_ext : forall A (c1 c2 : A -> A -> comparison) x l,
  (forall a b, c1 a b = c2 a b) -> insert_by c1 x l = insert_by c2 x l.
Proof.
  intros A c1 c2 x l H. induction l as [|y t IH]; cbn; [reflexivity|].
  rewrite H. destruct (c2 x y); try reflexivity. rewrite IH. reflexivity.
Qed.

Lemma sort_by_ext : forall A (c1 c2 : A -> A -> comparison) l,
  (forall a b, c1 a b = c2 a b) -> sort_by c1 l = sort_by c2 l.
Proof.
  intros A c1 c2 l H. unfold sort_by. induction l as [|x r IH]; cbn [fold_right]; [reflexivity|].
  rewrite IH. apply insert_by_ext. exact H.
Qed.


(* iteration-order tie-break: independent when no two items share value and origin *)
Theorem get_ordered_items_order_independent_distinct : forall oo1 oo2 l,
  ord_ok oo1 -> ord_ok oo2 -> NoDup (map value_origin (l_items l)) ->
  get_ordered_items_tb oo1 TieIteration l = get_ordered_items_tb oo2 TieIteration l.
Proof.
  intros oo1 oo2 l [H1 _] [H2 _] Hnd. unfold get_ordered_items_tb, sort_cmp_of.
  rewrite !(sort_by_ext _ item_sort_cmp _ _ item_sort_cmp_lex).
  apply (sort_by_order_independent _ _ value_origin _
           (lex_cmp_strict _ _ _ _ Z_compare_strict opt_text_cmp_strict)).
  - eapply perm_trans; [apply H1|apply Permutation_sym, H2].
  - eapply Permutation_NoDup; [apply Permutation_map, Permutation_sym, H1|exact Hnd].
Qed.

(* total order: independent for every map (a map has no two equal entries) *)
Theorem get_ordered_items_order_independent_total : forall oo1 oo2 l l',
  ord_ok oo1 -> ord_ok oo2 -> keys_nodup (l_items l) -> Permutation (l_items l) (l_items l') ->
  get_ordered_items_tb oo1 TieTotal l = get_ordered_items_tb oo2 TieTotal l'.
Proof.
  intros oo1 oo2 l l' [H1 _] [H2 _] Hnd Hp. unfold get_ordered_items_tb, sort_cmp_of.
  apply (sort_by_order_independent _ _ entry_proj _ entry_pc_strict).
  - eapply perm_trans; [apply H1|]. eapply perm_trans; [exact Hp|apply Permutation_sym, H2].
  - eapply Permutation_NoDup; [apply Permutation_map, Permutation_sym, H1|].
    unfold keys_nodup, keys in Hnd. clear - Hnd. induction (l_items l) as [|x r IH]; cbn; [constructor|].
    cbn in Hnd. inversion Hnd as [|? ? Hn Hr]; subst. constructor; [|apply IH; exact Hr].
    intros Hin. apply in_map_iff in Hin as [y [Hy Hin]]. apply entry_proj_inj in Hy. subst y.
    apply Hn. apply in_map. exact Hin.
Qed.

Definition list_display_tb (tb : tie_break) (oo : order_oracle) (l : inklist) : text :=
  join_with (T ", ") (map (fun kv : listitem * Z => it_name (fst kv)) (get_ordered_items_tb oo tb l)).

Lemma list_display_unfold : forall oo l, list_display oo l = list_display_tb tie_break_now oo l.
Proof. reflexivity. Qed.

Corollary list_display_order_independent_total : forall oo1 oo2 l l',
  ord_ok oo1 -> ord_ok oo2 -> keys_nodup (l_items l) -> Permutation (l_items l) (l_items l') ->
  list_display_tb TieTotal oo1 l = list_display_tb TieTotal oo2 l'.
Proof.
  intros. unfold list_display_tb.
  rewrite (get_ordered_items_order_independent_total oo1 oo2 l l') by assumption. reflexivity.
Qed.

(* ... refuted under the iteration-order tie-break for two items of one declaration with
   the same value (LIST K = p = 1, q = 1) *)
Definition same_value_origin_list : inklist :=
  mkList [(mkItem (Some (T "K")) (T "p"), 1); (mkItem (Some (T "K")) (T "q"), 1)] [] [].

Theorem list_display_order_refuted :
  exists oo1 oo2 l, ord_ok oo1 /\ ord_ok oo2 /\
    list_display_tb TieIteration oo1 l <> list_display_tb TieIteration oo2 l.
Proof.
  exists ord_id, ord_rev, same_value_origin_list. split; [apply ord_id_ok|]. split; [apply ord_rev_ok|].
  vm_compute. discriminate.
Qed.

(* the remembered origins of a result: with CopyRaw, `a - a` forgets where it came
   from (LIST_ALL / LIST_INVERT of it are empty); with CopyEffective it does not *)
Lemma without_forgets_origins :
  let a := mkList [(mkItem (Some (T "L")) (T "a"), 1)] [T "L"] [] in
  get_origin_names ord_id a = Ok [T "L"] /\
  get_origin_names ord_id (list_without CopyRaw a a) = Ok [] /\
  get_origin_names ord_id (list_without CopyEffective a a) = Ok [T "L"].
Proof. repeat split. Qed.
