(* Data/InkListProofs.v — lemmas about the InkList model: the association-list maps,
   the iteration-order oracle, and for every order-sensitive site either an
   order-independence lemma (`…_order_independent`) or a refutation with a witness
   (`…_order_refuted`, defect D18).  Reused by C03 and C07. *)
From Coq Require Import Lia Permutation.
From Ink.Data Require Import Types InkList PathProofs.
From Ink.Spec Require Import KeyOrder.
Local Open Scope Z_scope.

(* ---------- maps as duplicate-free association lists ---------- *)
Definition keys (m : items) : list listitem := map fst m.
Definition keys_nodup (m : items) : Prop := NoDup (keys m).

Lemma items_get_in : forall k v m, items_get k m = Some v -> In (k, v) m.
Proof.
  induction m as [|[k' v'] r IH]; cbn; intros H; [discriminate|].
  destruct (item_eqb k k') eqn:E.
  - apply item_eqb_eq in E. injection H as ->. subst. left; reflexivity.
  - right. apply IH. exact H.
Qed.

Lemma items_get_none : forall k m, items_get k m = None <-> ~ In k (keys m).
Proof.
  induction m as [|[k' v'] r IH]; cbn; [tauto|].
  destruct (item_eqb k k') eqn:E.
  - apply item_eqb_eq in E. subst. split; [discriminate|intros H; exfalso; apply H; left; reflexivity].
  - apply item_eqb_neq in E. rewrite IH. split; [intros H [H'|H']; [congruence|tauto]|tauto].
Qed.

Lemma in_items_get : forall k v m, keys_nodup m -> In (k, v) m -> items_get k m = Some v.
Proof.
  induction m as [|[k' v'] r IH]; cbn; intros Hnd Hin; [contradiction|].
  inversion Hnd as [|? ? Hnotin Hnd']; subst.
  destruct Hin as [Heq|Hin].
  - injection Heq as -> ->. rewrite item_eqb_refl. reflexivity.
  - destruct (item_eqb k k') eqn:E.
    + apply item_eqb_eq in E. subst. exfalso. apply Hnotin. apply (in_map fst) in Hin. exact Hin.
    + apply IH; assumption.
Qed.

Lemma items_get_perm : forall m m' k, keys_nodup m -> Permutation m m' -> items_get k m = items_get k m'.
Proof.
  intros m m' k Hnd Hp.
  assert (Hnd' : keys_nodup m').
  { unfold keys_nodup, keys. eapply Permutation_NoDup; [apply Permutation_map; exact Hp|exact Hnd]. }
  destruct (items_get k m) as [v|] eqn:E.
  - symmetry. apply in_items_get; [exact Hnd'|]. eapply Permutation_in; [exact Hp|]. apply items_get_in; exact E.
  - symmetry. apply items_get_none. intros Hin. apply items_get_none in E. apply E.
    eapply Permutation_in; [apply Permutation_map; apply Permutation_sym; exact Hp|exact Hin].
Qed.

Lemma items_mem_get : forall k m, items_mem k m = match items_get k m with Some _ => true | None => false end.
Proof. reflexivity. Qed.

(* insert *)
Lemma items_get_insert : forall k k' v m,
  items_get k (items_insert k' v m) = if item_eqb k k' then Some v else items_get k m.
Proof.
  induction m as [|[k2 v2] r IH]; cbn.
  - destruct (item_eqb k k'); reflexivity.
  - destruct (item_eqb k' k2) eqn:E; cbn.
    + apply item_eqb_eq in E. subst k2. destruct (item_eqb k k'); reflexivity.
    + destruct (item_eqb k k2) eqn:E2.
      * apply item_eqb_eq in E2. subst k2.
        destruct (item_eqb k k') eqn:E3; [apply item_eqb_eq in E3; subst; rewrite item_eqb_refl in E; discriminate|reflexivity].
      * exact IH.
Qed.

Lemma keys_insert : forall k v m,
  keys (items_insert k v m) = if items_mem k m then keys m else keys m ++ [k].
Proof.
  unfold keys, items_mem. induction m as [|[k2 v2] r IH]; cbn; [reflexivity|].
  destruct (item_eqb k k2) eqn:E; cbn; [reflexivity|].
  rewrite IH. destruct (items_get k r); reflexivity.
Qed.

Lemma nodup_insert : forall k v m, keys_nodup m -> keys_nodup (items_insert k v m).
Proof.
  intros k v m H. unfold keys_nodup. rewrite keys_insert. unfold items_mem.
  destruct (items_get k m) eqn:E; [exact H|].
  apply items_get_none in E.
  apply NoDup_rev in H. apply (NoDup_cons k) in H; [|rewrite <- in_rev; exact E].
  apply NoDup_rev in H. cbn in H. rewrite rev_involutive in H. exact H.
Qed.

Lemma nodup_insert_all : forall src dst, keys_nodup dst -> keys_nodup (items_insert_all src dst).
Proof.
  unfold items_insert_all. induction src as [|[k v] r IH]; cbn; intros dst H; [exact H|].
  apply IH. apply nodup_insert. exact H.
Qed.

Lemma items_get_insert_all : forall src dst k, keys_nodup src ->
  items_get k (items_insert_all src dst) =
  match items_get k src with Some v => Some v | None => items_get k dst end.
Proof.
  unfold items_insert_all. induction src as [|[k' v'] r IH]; cbn; intros dst k Hnd; [reflexivity|].
  inversion Hnd as [|? ? Hnotin Hnd']; subst.
  rewrite IH by exact Hnd'. rewrite items_get_insert.
  destruct (item_eqb k k') eqn:E.
  - apply item_eqb_eq in E. subst k'.
    assert (items_get k r = None) as -> by (apply items_get_none; exact Hnotin). reflexivity.
  - reflexivity.
Qed.

(* remove *)
Lemma items_get_remove : forall k k' m, keys_nodup m ->
  items_get k (items_remove k' m) = if item_eqb k k' then None else items_get k m.
Proof.
  induction m as [|[k2 v2] r IH]; cbn; intros Hnd.
  - destruct (item_eqb k k'); reflexivity.
  - inversion Hnd as [|? ? Hnotin Hnd']; subst.
    destruct (item_eqb k' k2) eqn:E.
    + apply item_eqb_eq in E. subst k2.
      destruct (item_eqb k k') eqn:E2; [|reflexivity].
      apply item_eqb_eq in E2. subst k'. apply items_get_none. exact Hnotin.
    + cbn. destruct (item_eqb k k2) eqn:E2.
      * apply item_eqb_eq in E2. subst k2.
        destruct (item_eqb k k') eqn:E3; [apply item_eqb_eq in E3; subst; rewrite item_eqb_refl in E; discriminate|reflexivity].
      * apply IH. exact Hnd'.
Qed.

Lemma keys_remove_incl : forall k m x, In x (keys (items_remove k m)) -> In x (keys m).
Proof.
  induction m as [|[k2 v2] r IH]; cbn; intros x H; [exact H|].
  destruct (item_eqb k k2); cbn in *; [right; exact H|]. destruct H as [H|H]; [left; exact H|right; apply IH; exact H].
Qed.

Lemma nodup_remove : forall k m, keys_nodup m -> keys_nodup (items_remove k m).
Proof.
  induction m as [|[k2 v2] r IH]; cbn; intros H; [exact H|].
  inversion H as [|? ? Hnotin Hnd']; subst.
  destruct (item_eqb k k2); [exact Hnd'|]. cbn. constructor; [|apply IH; exact Hnd'].
  intros Hin. apply Hnotin. eapply keys_remove_incl. exact Hin.
Qed.

(* filter on keys *)
Lemma items_get_filter : forall (f : listitem -> bool) k m,
  items_get k (filter (fun kv => f (fst kv)) m) = if f k then items_get k m else None.
Proof.
  induction m as [|[k2 v2] r IH]; cbn; [destruct (f k); reflexivity|].
  destruct (f k2) eqn:F; cbn.
  - destruct (item_eqb k k2) eqn:E; [apply item_eqb_eq in E; subst; rewrite F; reflexivity|exact IH].
  - destruct (item_eqb k k2) eqn:E; [apply item_eqb_eq in E; subst; rewrite F; rewrite IH, F; reflexivity|exact IH].
Qed.

Lemma nodup_filter : forall (f : listitem * Z -> bool) m, keys_nodup m -> keys_nodup (filter f m).
Proof.
  induction m as [|[k2 v2] r IH]; cbn; intros H; [exact H|].
  inversion H as [|? ? Hnotin Hnd']; subst.
  destruct (f (k2, v2)); [|apply IH; exact Hnd'].
  cbn. constructor; [|apply IH; exact Hnd'].
  intros Hin. apply Hnotin. unfold keys in *. apply in_map_iff in Hin as [x [Hx Hin]].
  apply filter_In in Hin as [Hin _]. apply in_map_iff. exists x; split; assumption.
Qed.
