(* Data/InkList.v — model of runtime/src/{ink_list,ink_list_item,list_definition,
   list_definitions_origin}.rs.  Model file: no proofs.

   HashMap<InkListItem,i32> is a duplicate-free association list in insertion
   order.  Wherever the Rust code's RESULT depends on the iteration order of a
   HashMap (not merely the internal order of a result map) the iteration goes
   through an explicit [order_oracle]:
     get_max_item / get_min_item   first extreme met wins        (ties)
     get_ordered_items             stable sort by (value, origin) (same value & origin)
     get_origin_names              one name per key, in key order
     ListDefinition::get_item_with_value   first match wins       (duplicate values)
     LIST_RANDOM                   stable sort by value only      (ties)
     ListDefinitionsOrigin::new    later insert wins              (ambiguous names)
   A legitimate oracle is a permutation ([ord_ok]).  Results of union / without /
   intersect / get_all / inverse / increment are maps; their internal order is
   insertion order here and they are compared up to permutation ([InkListProofs]). *)
From Coq Require Import Permutation.
From Ink.Data Require Export Types IntSem.
From Ink.Gen Require Export NativeGen.
Local Open Scope Z_scope.

(* ---------- InkListItem ---------- *)
Definition opt_text_eqb (a b : option text) : bool :=
  match a, b with
  | None, None => true
  | Some x, Some y => text_eqb x y
  | _, _ => false
  end.

(* Option<&String>::cmp : None < Some _ *)
Definition opt_text_cmp (a b : option text) : comparison :=
  match a, b with
  | None, None => Eq
  | None, Some _ => Lt
  | Some _, None => Gt
  | Some x, Some y => text_cmp x y
  end.

(* derive(PartialEq, Eq, Hash) *)
Definition item_eqb (a b : listitem) : bool :=
  opt_text_eqb (it_origin a) (it_origin b) && text_eqb (it_name a) (it_name b).

(* InkListItem::from_full_name *)
Definition item_from_full_name (full : text) : listitem :=
  let parts := split_on c_dot full in
  let origin := match parts with _ :: _ :: _ => Some (hd [] parts) | _ => None end in
  mkItem origin (last parts []).

(* InkListItem::get_full_name *)
Definition item_full_name (k : listitem) : text :=
  (match it_origin k with Some o => o | None => T "?" end) ++ [c_dot] ++ it_name k.

Definition item_null : listitem := mkItem None [].

(* ---------- HashMap<InkListItem, i32> ---------- *)
Definition items := list (listitem * Z).

Fixpoint items_get (k : listitem) (m : items) : option Z :=
  match m with
  | [] => None
  | (k', v) :: r => if item_eqb k k' then Some v else items_get k r
  end.

Definition items_mem (k : listitem) (m : items) : bool :=
  match items_get k m with Some _ => true | None => false end.

(* HashMap::insert: an existing key keeps its slot, the value is replaced *)
Fixpoint items_insert (k : listitem) (v : Z) (m : items) : items :=
  match m with
  | [] => [(k, v)]
  | (k', v') :: r => if item_eqb k k' then (k', v) :: r else (k', v') :: items_insert k v r
  end.

Fixpoint items_remove (k : listitem) (m : items) : items :=
  match m with
  | [] => []
  | (k', v') :: r => if item_eqb k k' then r else (k', v') :: items_remove k r
  end.

Definition items_insert_all (src : items) (dst : items) : items :=
  fold_left (fun m kv => items_insert (fst kv) (snd kv) m) src dst.

Definition items_is_empty (m : items) : bool := match m with [] => true | _ => false end.

(* ---------- iteration-order oracle ---------- *)
Record order_oracle := mkOrd {
  ord_items : items -> items;                         (* HashMap<InkListItem,i32>::iter *)
  ord_def : list (text * Z) -> list (text * Z)        (* HashMap<String,i32>::iter *)
}.
Definition ord_id : order_oracle := mkOrd (fun l => l) (fun l => l).
Definition ord_ok (oo : order_oracle) : Prop :=
  (forall l, Permutation (ord_items oo l) l) /\ (forall l, Permutation (ord_def oo l) l).

(* ---------- stable sort (slice::sort_by is stable) ---------- *)
Fixpoint insert_by {A} (cmp : A -> A -> comparison) (x : A) (l : list A) : list A :=
  match l with
  | [] => [x]
  | y :: r => match cmp x y with
              | Gt => y :: insert_by cmp x r
              | _ => x :: l
              end
  end.
Definition sort_by {A} (cmp : A -> A -> comparison) (l : list A) : list A :=
  fold_right (insert_by cmp) [] l.

(* ---------- InkList ---------- *)
Definition list_new : inklist := mkList [] [] [].
Definition list_is_empty (l : inklist) : bool := items_is_empty (l_items l).
(* InkList::from_single_element *)
Definition list_single (k : listitem) (v : Z) : inklist := mkList [(k, v)] [] [].

(* ---------- ListDefinition / ListDefinitionsOrigin ---------- *)
Definition def_name (d : listdef) : text := fst d.
(* ListDefinition::get_items: every item name qualified with the list's name *)
Definition def_items (d : listdef) : items :=
  map (fun nv => (mkItem (Some (fst d)) (fst nv), snd nv)) (snd d).

(* ListDefinitionsOrigin::get_list_definition — `lists` is a HashMap filled in
   Vec order, so for a repeated name the LAST definition is the one kept. *)
Fixpoint get_list_definition (defs : listdefs) (name : text) : option listdef :=
  match defs with
  | [] => None
  | d :: r => match get_list_definition r name with
              | Some d' => Some d'
              | None => if text_eqb (fst d) name then Some d else None
              end
  end.

Section Ord.
Variable oo : order_oracle.

(* ListDefinition::get_item_with_value.
   TieIteration: the first entry (iteration order) with that value.
   TieTotal: among the entries with that value, the smallest item name
   (Iterator::min keeps the first of equal elements; names are unique). *)
Definition min_name_step (acc : option (text * Z)) (nv : text * Z) : option (text * Z) :=
  match acc with
  | None => Some nv
  | Some m => match text_cmp (fst m) (fst nv) with Gt => Some nv | _ => acc end
  end.
Definition def_item_with_value_tb (tb : tie_break) (d : listdef) (val : Z) : option listitem :=
  let hits := filter (fun nv : text * Z => Z.eqb (snd nv) val) (ord_def oo (snd d)) in
  match (match tb with
         | TieIteration => hd_error hits
         | TieTotal => fold_left min_name_step hits None
         end) with
  | Some nv => Some (mkItem (Some (fst d)) (fst nv))
  | None => None
  end.
Definition def_item_with_value := def_item_with_value_tb tie_break_now.

(* comparator of get_ordered_items: by value, then origin name — and, with TieTotal
   (`cmp_entries`), then item name *)
Definition item_sort_cmp (a b : listitem * Z) : comparison :=
  if Z.eqb (snd a) (snd b) then opt_text_cmp (it_origin (fst a)) (it_origin (fst b))
  else Z.compare (snd a) (snd b).
Definition entry_cmp (a b : listitem * Z) : comparison :=
  match Z.compare (snd a) (snd b) with
  | Eq => match opt_text_cmp (it_origin (fst a)) (it_origin (fst b)) with
          | Eq => text_cmp (it_name (fst a)) (it_name (fst b))
          | c => c
          end
  | c => c
  end.
Definition sort_cmp_of (tb : tie_break) : listitem * Z -> listitem * Z -> comparison :=
  match tb with TieIteration => item_sort_cmp | TieTotal => entry_cmp end.

Definition get_ordered_items_tb (tb : tie_break) (l : inklist) : items :=
  sort_by (sort_cmp_of tb) (ord_items oo (l_items l)).
Definition get_ordered_items := get_ordered_items_tb tie_break_now.

(* get_max_item / get_min_item.
   TieIteration: strict comparison of values, so the first extreme met is kept.
   TieTotal: Iterator::max_by / min_by with `cmp_entries` (max_by keeps the later of two
   equal elements, min_by the earlier; entries of a map are never equal). *)
Definition max_step (acc : option (listitem * Z)) (kv : listitem * Z) : option (listitem * Z) :=
  match acc with
  | None => Some kv
  | Some (_, m) => if m <? snd kv then Some kv else acc
  end.
Definition min_step (acc : option (listitem * Z)) (kv : listitem * Z) : option (listitem * Z) :=
  match acc with
  | None => Some kv
  | Some (_, m) => if snd kv <? m then Some kv else acc
  end.
Definition max_by_step (acc : option (listitem * Z)) (kv : listitem * Z) : option (listitem * Z) :=
  match acc with
  | None => Some kv
  | Some m => match entry_cmp m kv with Gt => acc | _ => Some kv end
  end.
Definition min_by_step (acc : option (listitem * Z)) (kv : listitem * Z) : option (listitem * Z) :=
  match acc with
  | None => Some kv
  | Some m => match entry_cmp m kv with Gt => Some kv | _ => acc end
  end.
Definition get_max_item_tb (tb : tie_break) (l : inklist) : option (listitem * Z) :=
  fold_left (match tb with TieIteration => max_step | TieTotal => max_by_step end)
            (ord_items oo (l_items l)) None.
Definition get_min_item_tb (tb : tie_break) (l : inklist) : option (listitem * Z) :=
  fold_left (match tb with TieIteration => min_step | TieTotal => min_by_step end)
            (ord_items oo (l_items l)) None.
Definition get_max_item := get_max_item_tb tie_break_now.
Definition get_min_item := get_min_item_tb tie_break_now.

(* get_origin_names: `k.get_origin_name().unwrap()` for every key — an item
   without origin panics (ink_list.rs:114, defect D20) *)
Definition get_origin_names (l : inklist) : Res (list text) :=
  if list_is_empty l then Ok (l_init_names l)
  else mapM (fun kv : listitem * Z =>
               match it_origin (fst kv) with
               | Some o => Ok o
               | None => Panic (T "ink_list.rs:114")
               end) (ord_items oo (l_items l)).

(* impl Display for InkList *)
Definition list_display (l : inklist) : text :=
  join_with (T ", ") (map (fun kv : listitem * Z => it_name (fst kv)) (get_ordered_items l)).

End Ord.

(* What from_other_list (the copy made by union / without) and list_with_sub_range
   remember as the origin names of the copy.  READ from ink_list.rs by gen_tables
   (NativeGen.origin_copy_now):
     CopyRaw        the receiver's raw `initial_origin_names` field (only meaningful for
                    a list that was EMPTY) — so `a - a` forgets where it came from;
     CopyEffective  the receiver's effective origin names (those of its items, or the
                    remembered ones when it is empty), as the reference runtime's copy
                    constructor does.
   Only the SET of names is ever observable (LIST_ALL / LIST_INVERT of an emptied
   result), so the names are listed in map order without consulting the oracle. *)
Definition names_for_copy (cm : origin_copy) (l : inklist) : list text :=
  match cm with
  | CopyRaw => l_init_names l
  | CopyEffective =>
      if list_is_empty l then l_init_names l
      else flat_map (fun kv : listitem * Z =>
                       match it_origin (fst kv) with Some o => [o] | None => [] end) (l_items l)
  end.

(* from_other_list + inserts *)
Definition list_union (cm : origin_copy) (a b : inklist) : inklist :=
  mkList (items_insert_all (l_items b) (l_items a)) (l_origins a) (names_for_copy cm a).

Definition list_without (cm : origin_copy) (a b : inklist) : inklist :=
  mkList (fold_left (fun m kv => items_remove (fst kv) m) (l_items b) (l_items a))
         (l_origins a) (names_for_copy cm a).

(* InkList::intersect (and ::has, which is the same function) — a NEW list: no origins *)
Definition list_intersect (a b : inklist) : inklist :=
  mkList (filter (fun kv => items_mem (fst kv) (l_items b)) (l_items a)) [] [].

Definition list_contains (a b : inklist) : bool :=
  if list_is_empty b || list_is_empty a then false
  else forallb (fun kv => items_mem (fst kv) (l_items a)) (l_items b).

(* impl PartialEq for InkList *)
Definition list_eqb (a b : inklist) : bool :=
  Nat.eqb (length (l_items b)) (length (l_items a))
  && forallb (fun kv => items_mem (fst kv) (l_items b)) (l_items a).

(* the definitions named by `origins` (in Rust: clones of the definitions).  A name
   that is not a definition cannot occur in Rust (origins are only ever filled from
   definitions); the model reports it as a distinguished Panic so that it is never
   silently ignored — [wf_origins] excludes it. *)
Definition origin_defs (defs : listdefs) (l : inklist) : Res (list listdef) :=
  mapM (fun n => match get_list_definition defs n with
                 | Some d => Ok d
                 | None => Panic (T "model:origin-not-a-definition")
                 end) (l_origins l).

(* InkList::get_all *)
Definition list_all (defs : listdefs) (l : inklist) : Res inklist :=
  do ds <- origin_defs defs l;
  Ok (mkList (fold_left (fun m d => items_insert_all (def_items d) m) ds []) [] []).

(* InkList::inverse *)
Definition list_inverse (defs : listdefs) (l : inklist) : Res inklist :=
  do ds <- origin_defs defs l;
  Ok (mkList (fold_left (fun m d =>
                items_insert_all (filter (fun kv => negb (items_mem (fst kv) (l_items l)))
                                         (def_items d)) m) ds []) [] []).

Section Ord2.
Variable oo : order_oracle.

(* max_as_list / min_as_list *)
Definition list_max_as_list (l : inklist) : inklist :=
  match get_max_item oo l with
  | Some (k, v) => list_single k v
  | None => list_new           (* items empty (or unreachable: see get_max_item_none) *)
  end.
Definition list_min_as_list (l : inklist) : inklist :=
  match get_min_item oo l with
  | Some (k, v) => list_single k v
  | None => list_new
  end.

(* the four comparisons.  The Rust code tests emptiness first and then unwraps
   get_min_item/get_max_item; an extreme is None exactly when the list is empty
   (lemma get_max_item_none under ord_ok), so matching on the option is the same
   control flow. *)
Definition list_greater_than (a b : inklist) : bool :=
  if list_is_empty a then false else if list_is_empty b then true else
  match get_min_item oo a, get_max_item oo b with
  | Some (_, x), Some (_, y) => y <? x
  | _, _ => false
  end.
Definition list_greater_than_or_equals (a b : inklist) : bool :=
  if list_is_empty a then false else if list_is_empty b then true else
  match get_min_item oo a, get_min_item oo b, get_max_item oo a, get_max_item oo b with
  | Some (_, mina), Some (_, minb), Some (_, maxa), Some (_, maxb) =>
      (minb <=? mina) && (maxb <=? maxa)
  | _, _, _, _ => false
  end.
Definition list_less_than (a b : inklist) : bool :=
  if list_is_empty b then false else if list_is_empty a then true else
  match get_max_item oo a, get_min_item oo b with
  | Some (_, x), Some (_, y) => x <? y
  | _, _ => false
  end.
Definition list_less_than_or_equals (a b : inklist) : bool :=
  if list_is_empty b then false else if list_is_empty a then true else
  match get_max_item oo a, get_max_item oo b, get_min_item oo a, get_min_item oo b with
  | Some (_, maxa), Some (_, maxb), Some (_, mina), Some (_, minb) =>
      (maxa <=? maxb) && (mina <=? minb)
  | _, _, _, _ => false
  end.

(* InkList::list_with_sub_range(min_bound, max_bound) *)
Definition range_min_bound (b : value) : Z :=
  match b with
  | VInt v => v
  | VList l => if list_is_empty l then 0 else
               match get_min_item oo l with Some (_, v) => v | None => 0 end
  | _ => 0
  end.
Definition range_max_bound (b : value) : Z :=
  match b with
  | VInt v => v
  | VList l => if list_is_empty l then i32_max else
               match get_max_item oo l with Some (_, v) => v | None => i32_max end
  | _ => i32_max
  end.
Definition list_with_sub_range (cm : origin_copy) (l : inklist) (minb maxb : value) : inklist :=
  if list_is_empty l then list_new else
  let lo := range_min_bound minb in
  let hi := range_max_bound maxb in
  mkList (items_insert_all
            (filter (fun kv : listitem * Z => (lo <=? snd kv) && (snd kv <=? hi))
                    (get_ordered_items oo l)) [])
         [] (names_for_copy cm l).

(* StoryState::push_evaluation_stack on a list value: origins are recomputed from
   get_origin_names.  `std::ptr::eq(e, def)` compares a clone stored in the list
   with the definition stored in the story, which is never the same address, so
   every name is pushed (duplicates included).  story_state.rs:372 unwraps the
   definition lookup. *)
Definition push_origins_o (defs : listdefs) (l : inklist) : Res inklist :=
  do names <- get_origin_names oo l;
  do _ <- mapM (fun n => match get_list_definition defs n with
                         | Some d => Ok d
                         | None => Panic (T "story_state.rs:372")
                         end) names;
  Ok (mkList (l_items l) names (l_init_names l)).

(* ListDefinitionsOrigin::new — the name -> single-item-list cache.  Entries are
   inserted list by list (Vec order), item by item (iteration order), first under
   the bare item name then under the full name; a later insert replaces an
   earlier one. *)
Definition single_item_cache (defs : listdefs) : list (text * (listitem * Z)) :=
  fold_left (fun cache d =>
    fold_left (fun cache (kv : listitem * Z) =>
                 assoc_set (item_full_name (fst kv)) kv
                   (assoc_set (it_name (fst kv)) kv cache))
              (ord_items oo (def_items d)) cache) defs [].

(* find_single_item_list_with_name *)
Definition single_item_list_named_o (defs : listdefs) (name : text) : option value :=
  match trim name with
  | [] => None
  | _ => match assoc name (single_item_cache defs) with
         | Some (k, v) => Some (VList (list_single k v))
         | None => None
         end
  end.

End Ord2.

(* well-formedness used by the theorems *)
Definition wf_origins (defs : listdefs) (l : inklist) : Prop :=
  forall n, In n (l_origins l) -> get_list_definition defs n <> None.
