(* Data/NativeRun.v — executable entry points of the value layer for the
   correspondence checks (tools/props/c07.py, c04.py).  They render an outcome
   exactly as the inkdrive transcript shows the `CONT` of the one-line story
     ["^<", "ev", A, B, "op", "out", "/ev", "^>", "\n", "done"]
   i.e.  ok("<text>\n")  |  err(InvalidState)  |  panic .
   Float library behaviour comes from tables filled by harness/bin/f32oracle
   (Display, powf, parse); a missing Display entry renders as \u{1}bits\u{2} so
   that the check can resolve it afterwards; `%` uses the exact computation. *)
From Ink.Data Require Import Native.
Local Open Scope Z_scope.

Definition miss_bits : Z := 2143346349.    (* 0x7fc0dead: "powf not in table" *)

Fixpoint zlookup {V} (k : Z) (l : list (Z * V)) : option V :=
  match l with
  | [] => None
  | (k', v) :: r => if k =? k' then Some v else zlookup k r
  end.
Fixpoint zzlookup (a b : Z) (l : list (Z * Z * Z)) : option Z :=
  match l with
  | [] => None
  | (a', b', v) :: r => if (a =? a') && (b =? b') then Some v else zzlookup a b r
  end.

Definition tbl_oracle (shows : list (Z * text)) (pows : list (Z * Z * Z))
                      (parses : list (text * option Z)) : float_oracle :=
  {| f32_show := fun b => match zlookup b shows with
                          | Some t => t
                          | None => [1%N] ++ show_Z b ++ [2%N]
                          end;
     f32_pow := fun a b => match zzlookup a b pows with Some r => r | None => miss_bits end;
     f32_rem := f32_rem_exact;
     f32_parse := fun s => match assoc s parses with Some r => r | None => None end |}.

Definition render (r : Res text) : text :=
  match r with
  | Ok t => T "ok(" ++ quote_text (T "<" ++ t ++ T ">" ++ [10%N]) ++ T ")"
  | Err _ _ => T "err(InvalidState)"
  | Panic site => T "panic@" ++ site
  end.

(* a few iteration orders: for lists of up to 3 entries [ord_k 0 .. ord_k 5] are all
   permutations *)
Definition rotl {A} (n : nat) (l : list A) : list A :=
  skipn (n mod (Nat.max 1 (length l))) l ++ firstn (n mod (Nat.max 1 (length l))) l.
Definition perm_k {A} (k : nat) (l : list A) : list A :=
  let r := rotl (k / 2) l in if Nat.even k then r else rev r.
Definition ord_k (k : nat) : order_oracle := mkOrd (perm_k k) (perm_k k).

(* LIST_RANDOM / RANDOM with the rng given as a table seed -> first u32 draw *)
Definition tbl_rng (t : list (Z * Z)) (seed : Z) : Z :=
  match zlookup seed t with Some r => r | None => 0 end.

Section Run.
Variable oo : order_oracle.
Variable ovf : bool.
Variable fo : float_oracle.
Variable defs : listdefs.

(* StoryState::push_evaluation_stack *)
Definition push_obj (o : obj) : Res obj :=
  match o with
  | OVal (VList l) => do l' <- push_origins_o oo defs l; Ok (OVal (VList l'))
  | _ => Ok o
  end.

(* ev A.. op out /ev *)
Definition eval_native (op : nop) (args : list obj) : Res obj :=
  do args' <- mapM push_obj args;
  do r <- call_native_g oo int_sem_now ovf fo defs op args';
  push_obj r.

Definition run_native (op : nop) (args : list obj) : text :=
  render (do r <- eval_native op args; Ok (obj_display_o oo fo r)).

(* ev A B op C op2 out /ev — two chained operators (used for results that are not
   printed directly, e.g. float results compared through ==) *)
Definition run_native2 (op : nop) (args : list obj) (op2 : nop) (args2 : list obj) : text :=
  render (do r <- eval_native op args;
          do args2' <- mapM push_obj args2;
          do r2 <- call_native_g oo int_sem_now ovf fo defs op2 (r :: args2');
          do r2' <- push_obj r2;
          Ok (obj_display_o oo fo r2')).

(* list commands *)
Definition run_list_from_int (o_name o_int : obj) : text :=
  render (do a <- push_obj o_name; do b <- push_obj o_int;
          do v <- list_from_int_cmd oo defs b a;
          do r <- push_obj (OVal v); Ok (obj_display_o oo fo r)).

Definition run_list_range (o_list o_min o_max : obj) : text :=
  render (do a <- push_obj o_list; do b <- push_obj o_min; do c <- push_obj o_max;
          do v <- list_range_cmd oo c b a;
          do r <- push_obj (OVal v); Ok (obj_display_o oo fo r)).

Definition run_list_random (rng : list (Z * Z)) (story_seed previous_random : Z) (o : obj) : text :=
  render (do a <- push_obj o;
          do vr <- list_random_o oo int_sem_now ovf (tbl_rng rng) defs story_seed previous_random a;
          do r <- push_obj (OVal (fst vr)); Ok (obj_display_o oo fo r)).

Definition run_random (rng : list (Z * Z)) (story_seed previous_random : Z) (o_min o_max : obj) : text :=
  render (do cr <- random_cmd int_sem_now ovf (tbl_rng rng) story_seed previous_random o_max o_min;
          Ok (show_Z (fst cr))).
(* ev SEED srnd pop MIN MAX rnd pop MIN MAX rnd out /ev : the second draw *)
Definition run_srnd_rnd2 (rng : list (Z * Z)) (seed o_min o_max : obj) : text :=
  render (do sp <- seed_random_cmd seed;
          do r1 <- random_cmd int_sem_now ovf (tbl_rng rng) (fst sp) (snd sp) o_max o_min;
          do r2 <- random_cmd int_sem_now ovf (tbl_rng rng) (fst sp) (snd r1) o_max o_min;
          Ok (show_Z (fst r2))).

(* ev SEED srnd pop LIST lrnd pop MIN MAX rnd out /ev *)
Definition run_srnd_lrnd_rnd (rng : list (Z * Z)) (seed l o_min o_max : obj) : text :=
  render (do sp <- seed_random_cmd seed;
          do a <- push_obj l;
          do vr <- list_random_o oo int_sem_now ovf (tbl_rng rng) defs (fst sp) (snd sp) a;
          do _ <- push_obj (OVal (fst vr));
          do r <- random_cmd int_sem_now ovf (tbl_rng rng) (fst sp) (snd vr) o_max o_min;
          Ok (show_Z (fst r))).
End Run.

(* every outcome over the six iteration orders ord_k 0..5, separated by \u{3} *)
Fixpoint dedup_text (l : list text) : list text :=
  match l with
  | [] => []
  | x :: r => x :: filter (fun y => negb (text_eqb x y)) (dedup_text r)
  end.
(* a second family: every map with the same key set iterates in the same order (keys
   sorted, then permuted) — the first family permutes the arrangement it is given *)
Definition key_cmp (a b : listitem * Z) : comparison :=
  match opt_text_cmp (it_origin (fst a)) (it_origin (fst b)) with
  | Eq => text_cmp (it_name (fst a)) (it_name (fst b))
  | c => c
  end.
Definition ord_c (k : nat) : order_oracle :=
  mkOrd (fun l => perm_k k (sort_by key_cmp l))
        (fun l => perm_k k (sort_by (fun a b : text * Z => text_cmp (fst a) (fst b)) l)).
Definition all_orders (f : order_oracle -> text) : text :=
  join_with [3%N] (dedup_text (map (fun k => f (ord_k k)) (seq 0 6) ++ map (fun k => f (ord_c k)) (seq 0 6))).

(* F32.v tie: primitive operations on bit patterns, rendered as decimal numbers *)
Definition run_f32 (op : text) (a b : Z) : text :=
  if text_eqb op (T "add") then show_Z (f32_add a b)
  else if text_eqb op (T "sub") then show_Z (f32_sub a b)
  else if text_eqb op (T "mul") then show_Z (f32_mul a b)
  else if text_eqb op (T "div") then show_Z (f32_div a b)
  else if text_eqb op (T "rem") then show_Z (f32_rem_exact a b)
  else if text_eqb op (T "min") then show_Z (f32_min a b)
  else if text_eqb op (T "max") then show_Z (f32_max a b)
  else if text_eqb op (T "neg") then show_Z (f32_neg a)
  else if text_eqb op (T "floor") then show_Z (f32_floor a)
  else if text_eqb op (T "ceil") then show_Z (f32_ceil a)
  else if text_eqb op (T "ofi32") then show_Z (f32_of_i32 a)
  else if text_eqb op (T "toi32") then show_Z (f32_to_i32 a)
  else if text_eqb op (T "cmp") then
    show_bool01 (f32_ltb a b) ++ show_bool01 (f32_eqb a b) ++ show_bool01 (f32_gtb a b) ++ show_bool01 (f32_neb a b)
  else T "?".
