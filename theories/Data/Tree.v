(* Data/Tree.v — the executable well-formedness predicate on content trees used
   by the tree-level half of C19 (proofs in Data/TreeProofs.v).  Model file: no proofs.

   Within each container: the names under which Container::new registers
   content children (validly named containers) and the keys of the named-only
   content are pairwise distinct, non-empty, contain no '.', are not "^" and do
   not parse as usize (Rust accepts "+5", "007"); every named-only entry is a
   container whose own name is its key; content indices stay below 2^64. *)
From Ink.Data Require Export Types Path.

Definition good_name (n : text) : bool :=
  match n with [] => false | _ => true end
  && negb (existsb (N.eqb c_dot) n)
  && negb (text_eqb n [c_caret])
  && match parse_usize n with None => true | Some _ => false end.

(* names under which content children are registered by Container::new *)
Definition content_name (o : obj) : option text :=
  match o with
  | OCont c' => if has_valid_name c' then c_name c' else None
  | _ => None
  end.
Fixpoint content_names (l : list obj) : list text :=
  match l with
  | [] => []
  | o :: r => match content_name o with Some n => n :: content_names r | None => content_names r end
  end.

Fixpoint nodupb (l : list text) : bool :=
  match l with
  | [] => true
  | x :: r => negb (existsb (text_eqb x) r) && nodupb r
  end.

Definition name_is (c : container) (k : text) : bool :=
  match c_name c with Some n => text_eqb n k | None => false end.

Definition wf_local (c : container) : bool :=
  forallb good_name (content_names (c_content c))
  && nodupb (content_names (c_content c) ++ map fst (c_named_only c))
  && forallb (fun kc => good_name (fst kc) && name_is (snd kc) (fst kc)) (c_named_only c)
  && (N.of_nat (length (c_content c)) <=? 18446744073709551616).

Fixpoint wf_tree (c : container) : bool :=
  wf_local c
  && (let 'Cont _ _ _ _ content named := c in
      (fix go (l : list obj) : bool :=
         match l with
         | [] => true
         | OCont c' :: r => wf_tree c' && go r
         | _ :: r => go r
         end) content
      && (fix gon (l : list (text * container)) : bool :=
            match l with
            | [] => true
            | (_, c') :: r => wf_tree c' && gon r
            end) named).

Definition valid_pos (root : container) (p : pos) : Prop := obj_at root p <> None.
