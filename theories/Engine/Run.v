(* Engine/Run.v — executable entry points of the engine model for the
   correspondence check: the concrete interface instance, the script language
   of harness/inkdrive, and transcript rendering in inkdrive's format. *)
From Ink.Engine Require Export Api.
From Ink.Base Require Import F32.
From Ink.Data Require Import InkList Value Native.
From Ink.Gen Require Import NativeGen PathGen.
From Ink.Json Require Import StdLoad.

(* ---------- oracle tables supplied by the implementation run ---------- *)
Record oracles := mkOracles {
  o_f32show : list (Z * text);        (* bits -> Display *)
  o_rng_u32 : list (Z * Z);           (* seed (i32) -> first u32 draw *)
  o_rng_i32 : list (Z * list Z)       (* seed (i32) -> first i32 draws *)
}.

Fixpoint zassoc {V} (k : Z) (l : list (Z * V)) : option V :=
  match l with [] => None | (k', v) :: r => if (k =? k')%Z then Some v else zassoc k r end.

Fixpoint hex8_fuel (n : nat) (z : N) (acc : text) : text :=
  match n with O => acc | S k => hex8_fuel k (z / 16) (hex_digit (z mod 16) :: acc) end.
Definition hex8 (z : Z) : text := hex8_fuel 8 (Z.to_N z) [].

(* f32::powf is library behaviour.  For a non-negative integral exponent below
   64 and a result that stays exact it is the repeated product (libm returns
   exactly representable results exactly); anything else is NaN here and the
   checker's generators avoid it. *)
Fixpoint pow_iter (n : nat) (a acc : Z) : Z :=
  match n with O => acc | S k => pow_iter k a (f32_mul acc a) end.
Definition pow_small (a b : Z) : Z :=
  let e := f32_to_i32 b in
  if f32_eqb (f32_of_i32 e) b && (0 <=? e)%Z && (e <? 64)%Z then pow_iter (Z.to_nat e) a f32_one
  else f32_nan_bits.

(* a float whose Display is not in the table is printed as ?float<bits>? and
   substituted by the checker (Display of f32 is library behaviour) *)
Definition fo_of (o : oracles) : float_oracle :=
  {| f32_show := fun b => match zassoc b (o_f32show o) with
                          | Some t => t
                          | None => T "?float" ++ hex8 b ++ T "?"
                          end;
     f32_pow := pow_small;
     f32_rem := f32_rem_exact;
     f32_parse := fun _ => None |}.

(* [ovf]: do unchecked i32 operations panic on overflow (debug build, unfixed code) *)
Definition mk_iface (ovf : bool) (o : oracles) : iface :=
  {| if_nparams := native_nparams;
     if_call := fun defs op args => call_native_p ovf (fo_of o) defs op args;
     if_display := obj_display (fo_of o);
     if_push_origins := push_origins;
     if_retain := retain_origins_for_assignment;
     if_single_item := single_item_list_named;
     if_list_from_int := list_from_int;
     if_list_range := list_range;
     if_list_random := list_random_pick;
     if_list_is_empty := list_is_empty;
     if_rng_u32 := fun s => match zassoc s (o_rng_u32 o) with Some d => d | None => 0%Z end;
     if_rng_i32 := fun s k => match zassoc s (o_rng_i32 o) with
                             | Some l => nth k l 0%Z
                             | None => 0%Z
                             end;
     if_ovf_panics := ovf |}.

(* ---------- script ops (harness/src/bin/inkdrive.rs::run_op_inner) ---------- *)
Inductive sval := SV (v : value) | SVar (name : text) | SBad.

Inductive hostop :=
| HNew | HCont | HContMax | HContAsync (sched : list N) | HContSliced (sched : list N) | HFinish | HChoose (i : Z) | HChooseEnd (k : nat)
| HPath (p : text) (reset : bool) (args : option (list sval))
| HSwitch (f : text) | HSwitchDefault | HRemoveFlow (f : text)
| HObserve (id var : text) | HUnobserve (id : text) (var : option text)
| HBind (name : text) (safe : bool) (beh : ext_behaviour) | HUnbind (name : text)
| HFallbacks (b : bool) | HHandler
| HSetVar (x : text) (v : sval) | HGetVar (x : text) | HVisits (p : text)
| HEval (f : text) (args : option (list sval))
| HReset | HSeed (n : Z) | HGlobalTags | HPathStr | HStatus
| HUnsupported.

Record drv := mkDrv {
  dr_story : option story;
  dr_world : option world;
  dr_poisoned : bool;
  dr_seed : Z;
  dr_fuel : N
}.

Section Run.
Variable sw : switches.
Variable orc : oracles.
Let I := mk_iface (sw_ovf_panics sw) orc.

(* ---------- rendering ---------- *)
Definition show_ekind (k : ekind) : text :=
  match k with BadArgument => T "BadArgument" | InvalidState => T "InvalidState" | BadJson => T "BadJson" end.
Definition show_err (k : ekind) : text := T "err(" ++ show_ekind k ++ T ")".

Fixpoint insert_sorted (x : text) (l : list text) : list text :=
  match l with
  | [] => [x]
  | y :: r => if text_ltb y x then y :: insert_sorted x r else x :: l
  end.
Definition sort_texts (l : list text) : list text := fold_right insert_sorted [] l.

Definition item_full_name (it : listitem) : text :=
  (match it_origin it with Some o => o | None => [63] end) ++ [c_dot] ++ it_name it.

Definition show_value (v : value) : text :=
  match v with
  | VBool b => T "b:" ++ (if b then T "true" else T "false")
  | VInt z => T "i:" ++ show_Z z
  | VFloat b => T "f:" ++ hex8 b
  | VString s => T "s:" ++ quote_text s
  | VDivert p => T "d:" ++ quote_text (path_string p)
  | VVarPtr _ _ => T "p:?"
  | VList l => T "l:[" ++ join_with [44]
                 (sort_texts (map (fun kv => item_full_name (fst kv) ++ [61] ++ show_Z (snd kv)) (l_items l)))
               ++ T "]"
  end.

Definition show_event (e : event) : text :=
  match e with
  | EvObs o var v => T "obs(" ++ o ++ [44] ++ var ++ [44] ++ show_value v ++ T ")"
  | EvHandler is_err cls => T "h(" ++ (if is_err then [69] else [87]) ++ [44] ++ cls ++ T ")"
  | EvExt name args lines =>
      T "x(" ++ name ++ T ",[" ++ join_with [44] (map show_value args) ++ T "]," ++ show_N lines ++ T ")"
  end.

Definition show_texts (l : list text) : text := T "[" ++ join_with [44] (map quote_text l) ++ T "]".

Definition run_m {A} (m : M A) (w : world) : out A * world := m w.

(* harness summary(): can / text / tags / choices / nerr / nwarn / ev *)
Definition summary (d : drv) : text * drv :=
  match dr_world d with
  | None => (T "nostory ev=[]", d)
  | Some w =>
      let evs := T "ev=[" ++ join_with [59] (map show_event (w_events w)) ++ T "]" in
      let w0 := w <| w_events := [] |> in
      if dr_poisoned d then (T "poisoned " ++ evs, mkDrv (dr_story d) (Some w0) true (dr_seed d) (dr_fuel d)) else
      match ss_can_continue (w_state w0) with
      | Ok can =>
          let txt := match run_m get_current_text w0 with (OOk t, _) => quote_text t | _ => [33] end in
          let tags := match run_m get_current_tags w0 with (OOk t, _) => show_texts t | _ => [33] end in
          match run_m get_current_choices w0 with
          | (OOk cs, w1) =>
              let chs := join_with [44]
                           (map (fun c => quote_text (ch_text c) ++ T "{" ++ join_with [44] (map quote_text (ch_tags c)) ++ T "}") cs) in
              (T "can=" ++ show_bool01 can ++ T " text=" ++ txt ++ T " tags=" ++ tags
               ++ T " choices=[" ++ chs ++ T "] nerr=" ++ show_N (nlength (ss_errors (w_state w1)))
               ++ T " nwarn=" ++ show_N (nlength (ss_warnings (w_state w1))) ++ [c_space] ++ evs,
               mkDrv (dr_story d) (Some w1) false (dr_seed d) (dr_fuel d))
          | (_, w1) => (T "summary-panic " ++ evs, mkDrv (dr_story d) (Some w1) true (dr_seed d) (dr_fuel d))
          end
      | _ => (T "summary-panic " ++ evs, mkDrv (dr_story d) (Some w0) true (dr_seed d) (dr_fuel d))
      end
  end.

Definition resolve_sval (w : world) (s : sval) : option value :=
  match s with
  | SV v => Some v
  | SVar x => vs_host_get (w_state w) x
  | SBad => None
  end.
Fixpoint resolve_svals (w : world) (l : list sval) : option (list value) :=
  match l with
  | [] => Some []
  | s :: r => match resolve_sval w s, resolve_svals w r with
              | Some v, Some vs => Some (v :: vs)
              | _, _ => None
              end
  end.

Definition unit_res (r : out unit) : text :=
  match r with OOk _ => T "ok" | OErr k _ => show_err k | OPanic _ => T "panic" end.

Definition set_pause_schedule (sched : list N) (w : world) : world :=
  match sched with
  | [] => w <| w_pauses := [] |> <| w_pause_left := 0 |>
  | n :: r => w <| w_pauses := r |> <| w_pause_left := n |>
  end.

Definition count_newlines (t : text) : N := nlength (filter (N.eqb c_nl) t).

(* one op on a live world: result text, new world, panicked? *)
Definition run_op_world (op : hostop) (seed : Z) (w : world) : text * world * bool :=
  let fin {A} (r : out A * world) (show : A -> text) : text * world * bool :=
    match r with
    | (OOk a, w') => (show a, w', false)
    | (OErr k _, w') => (show_err k, w', false)
    | (OPanic _, w') => (T "panic", w', true)
    end in
  let unitop (m : M unit) := fin (m w) (fun _ => T "ok") in
  match op with
  | HCont => fin (api_cont I sw w) (fun t => T "ok(" ++ quote_text t ++ T ")")
  | HContMax =>
      match continue_maximally I sw w with
      | (OOk t, w') => (T "ok(" ++ quote_text t ++ T ")", w' <| w_lines ::= N.add (count_newlines t) |>, false)
      | (OErr k _, w') => (show_err k, w', false)
      | (OPanic _, w') => (T "panic", w', true)
      end
  | HContAsync sched =>
      let w1 := set_pause_schedule sched w in
      match continue_async I sw true w1 with
      | (OOk _, w') =>
          let w2 := set_pause_schedule [] w' in
          (T "ok(active=" ++ show_bool01 (w_async w') ++ T ")",
           if w_async w' then w2 else w2 <| w_lines ::= N.succ |>, false)
      | (OErr k _, w') =>
          (show_err k ++ T " active=" ++ show_bool01 (w_async w'), set_pause_schedule [] w', false)
      | (OPanic _, w') => (T "panic", w', true)
      end
  | HFinish =>
      if w_async w then fin (api_cont I sw w) (fun t => T "ok(" ++ quote_text t ++ T ")")
      else fin (get_current_text w) (fun t => T "ok(" ++ quote_text t ++ T ")")
  | HContSliced sched =>
      (fix slices (fuel : nat) (w : world) : text * world * bool :=
         match fuel with
         | O => (T "err(InvalidState)", w, false)
         | S f =>
             match continue_async I sw true w with
             | (OOk _, w') =>
                 if w_async w' then slices f w'
                 else
                   let w2 := set_pause_schedule [] w' in
                   match get_current_text w2 with
                   | (OOk t, w3) => (T "ok(" ++ quote_text t ++ T ")", w3 <| w_lines ::= N.succ |>, false)
                   | (OErr k _, w3) => (show_err k, w3, false)
                   | (OPanic _, w3) => (T "panic", w3, true)
                   end
             | (OErr k _, w') => (show_err k, set_pause_schedule [] w', false)
             | (OPanic _, w') => (T "panic", w', true)
             end
         end) (S (N.to_nat (w_fuel w))) (set_pause_schedule sched w)
  | HChooseEnd k =>
      match get_current_choices w with
      | (OOk cs, w1) => fin (choose_choice_index I sw (length cs + k) w1) (fun _ => T "ok")
      | (OErr e _, w1) => (show_err e, w1, false)
      | (OPanic _, w1) => (T "panic", w1, true)
      end
  | HChoose i =>
      if (i <? 0)%Z then (T "err(BadArgument)", w, false)
      else unitop (choose_choice_index I sw (Z.to_nat i))
  | HPath p reset args =>
      match args with
      | None => unitop (choose_path_string I sw p reset [])
      | Some l => match resolve_svals w l with
                  | Some vs => unitop (choose_path_string I sw p reset vs)
                  | None => unitop (choose_path_string I sw p reset [])   (* parse_args -> None -> no args *)
                  end
      end
  | HSwitch f => unitop (switch_flow f)
  | HSwitchDefault => unitop (switch_to_default_flow sw)
  | HRemoveFlow f => unitop (remove_flow sw f)
  | HObserve id var => unitop (observe_variable var id)
  | HUnobserve id var => unitop (remove_variable_observer sw id var)
  | HBind name safe beh => unitop (bind_external name (mkExtdef safe beh))
  | HUnbind name => unitop (unbind_external name)
  | HFallbacks b => unitop (modify (fun w => w <| w_fallbacks := b |>))
  | HHandler => unitop (modify (fun w => w <| w_handler := true |>))
  | HSetVar x sv =>
      match resolve_sval w sv with
      | Some v => unitop (set_variable I sw x v)
      | None => (T "badvalue", w, false)
      end
  | HGetVar x =>
      match vs_host_get (w_state w) x with
      | Some v => (T "ok(" ++ show_value v ++ T ")", w, false)
      | None => (T "none", w, false)
      end
  | HVisits p => fin (visit_count_at_path_string p w) (fun n => T "ok(" ++ show_Z n ++ T ")")
  | HEval f args =>
      let go (a : option (list value)) :=
        fin (evaluate_function I sw f a w)
            (fun r => T "ok(" ++ (match fst r with Some v => show_value v | None => T "none" end)
                      ++ [44] ++ quote_text (snd r) ++ T ")") in
      match args with
      | None => go None
      | Some l => match resolve_svals w l with
                  | Some vs => go (Some vs)
                  | None => (T "badvalue", w, false)
                  end
      end
  | HReset => unitop (reset_state I sw seed)
  | HSeed n => unitop (mod_state (fun s => s <| ss_seed := n |>))
  | HGlobalTags => fin (tags_for_content_at_path [] w) (fun t => T "ok(" ++ show_texts t ++ T ")")
  | HPathStr =>
      match ss_cur_pointer (w_state w) with
      | Ok p => match ptr_path (root_of w) p with
                | Ok (Some pa) => (T "ok(" ++ quote_text (path_string pa) ++ T ")", w, false)
                | Ok None => (T "none", w, false)
                | _ => (T "panic", w, true)
                end
      | _ => (T "panic", w, true)
      end
  | HStatus => (T "ok", w, false)
  | HNew | HUnsupported => (T "badop", w, false)
  end.

Definition new_story (d : drv) : text * drv :=
  match dr_story d with
  | None => (T "nostory", d)
  | Some st =>
      match story_new I sw st (dr_seed d) (dr_fuel d) with
      | (OOk _, w) => (T "ok", mkDrv (dr_story d) (Some w) false (dr_seed d) (dr_fuel d))
      | (OErr k _, _) => (show_err k, mkDrv (dr_story d) None false (dr_seed d) (dr_fuel d))
      | (OPanic _, _) => (T "panic", mkDrv (dr_story d) None false (dr_seed d) (dr_fuel d))
      end
  end.

Definition run_op (op : hostop) (d : drv) : text * drv :=
  match op with
  | HNew =>
      (* fuel is a per-case budget shared by all instances (thread-local in the harness) *)
      let fuel := match dr_world d with Some w => w_fuel w | None => dr_fuel d end in
      new_story (mkDrv (dr_story d) (dr_world d) (dr_poisoned d) (dr_seed d) fuel)
  | _ =>
      match dr_world d with
      | None => (T "nostory", d)
      | Some w =>
          if dr_poisoned d then (T "poisoned", d) else
          let seed' := match op with HSeed n => n | _ => dr_seed d end in
          let '(r, w', p) := run_op_world op seed' w in
          (r, mkDrv (dr_story d) (Some w') p seed' (dr_fuel d))
      end
  end.

(* a transcript line is "<res> | <summary>"; the op echo is added by the checker *)
Definition run_line (op : hostop) (d : drv) : text * drv :=
  let '(r, d1) := run_op op d in
  let '(s, d2) := summary d1 in
  (r ++ T " | " ++ s, d2).

Fixpoint run_script (ops : list hostop) (d : drv) (acc : list text) : list text * drv :=
  match ops with
  | [] => (rev acc, d)
  | op :: r => let '(l, d') := run_line op d in run_script r d' (l :: acc)
  end.

(* ---------- exploration (harness explore()) ---------- *)
(* run to the next choice point / end, recording "  CONT => res | summary" lines *)
Fixpoint run_to_choice (fuel : nat) (d : drv) (acc : list text) (record : bool) : bool * drv * list text :=
  match fuel with
  | O => (false, d, acc)
  | S f =>
      match dr_world d with
      | None => (false, d, acc)
      | Some w =>
          if dr_poisoned d then (false, d, acc) else
          match ss_can_continue (w_state w) with
          | Ok true =>
              let '(r, d1) := run_op HCont d in
              let '(s, d2) := summary d1 in
              let acc' := if record then (T "  CONT => " ++ r ++ T " | " ++ s) :: acc else acc in
              if starts_with (T "ok") r then run_to_choice f d2 acc' record else (false, d2, acc')
          | _ => (true, d, acc)
          end
      end
  end.

Definition show_path (p : list nat) : text :=
  T "[" ++ join_with (T ", ") (map (fun i => show_N (N.of_nat i)) p) ++ T "]".

Definition visible_choice_count (d : drv) : nat :=
  match dr_world d with
  | Some w => match run_m get_current_choices w with (OOk cs, _) => length cs | _ => O end
  | None => O
  end.

(* DFS over choice paths: state is a value, so no replay is needed; the
   budget counts visited nodes exactly like the harness does *)
Fixpoint explore (depth : nat) (d : drv) (path : list nat) (budget : nat) (acc : list text)
  : nat * list text :=
  match budget with
  | O => (O, (T "PATH " ++ show_path path ++ T ": budget") :: acc)
  | S b =>
      let acc1 := (T "PATH " ++ show_path path ++ T ":") :: acc in
      let '(ok, d1, acc2) := run_to_choice (S (N.to_nat (dr_fuel d))) d acc1 true in
      let n := if ok && negb (dr_poisoned d1) then visible_choice_count d1 else O in
      let '(r, d2) := run_op HStatus d1 in
      let '(s, d3) := summary d2 in
      let acc3 := (T "  END => " ++ r ++ T " | " ++ s) :: acc2 in
      match depth with
      | O => (b, acc3)
      | S dep =>
          (fix children (i : nat) (k : nat) (budget : nat) (acc : list text) {struct k} : nat * list text :=
             match k with
             | O => (budget, acc)
             | S k' =>
                 let '(rc, dc) := run_op (HChoose (Z.of_nat i)) d3 in
                 let '(_, dc') := summary dc in
                 let '(budget', acc') :=
                   match budget with
                   | O => (O, (T "PATH " ++ show_path (path ++ [i]) ++ T ": budget") :: acc)
                   | S x =>
                       if text_eqb rc (T "ok") then explore dep dc' (path ++ [i]) budget acc
                       else (x, (T "PATH " ++ show_path (path ++ [i]) ++ T ": dead") :: acc)
                   end in
                 children (S i) k' budget' acc'
             end) O n b acc3
      end
  end.

End Run.

(* ---------- whole cases ---------- *)

Definition run_case (sw : switches) (orc : oracles) (j : json) (seed : Z) (fuel : N)
           (script : list hostop) (explore_depth : option (nat * nat)) : list text :=
  match load_story j with
  | Ok st =>
      let d0 := mkDrv (Some st) None false seed fuel in
      let '(r0, d1) := new_story sw orc d0 in
      let '(s0, d2) := summary d1 in
      let '(ls, d3) := run_script sw orc script d2 [] in
      let base := (r0 ++ T " | " ++ s0) :: ls in
      match explore_depth with
      | None => base
      | Some (dep, budget) => base ++ rev (snd (explore sw orc dep d3 [] budget []))
      end
  | Err k _ => [show_err k ++ T " | nostory ev=[]"]
  | Panic _ => [T "panic | nostory ev=[]"]
  end.
