(* Engine/RunSave.v — Engine/Run.v's script driver extended with the save ops of
   harness/src/bin/inkdrive.rs: SAVE k, LOAD k, LOADNEW k, SHOWSAVE, LOADTEXT.
   The driver state is Run.drv plus the table of saves.  Model file: no proofs. *)
From Ink.Engine Require Export Run Save SaveWf.
From Ink.Gen Require Import SaveGen.

Inductive hostop2 :=
| Base (op : hostop)
| HSave (k : text)
| HLoad (k : text)
| HLoadNew (k : text)
| HShowSave
| HLoadText (j : json)
| HLoadBadText.            (* LOADTEXT with text that serde_json::from_str rejects *)

Record drv2 := mkDrv2 {
  d2_base : drv;
  d2_saves : list (text * json)
}.

(* ---------- inkdrive's canon_json: objects as maps sorted by key ---------- *)
Fixpoint insert_kv (x : text * text) (l : list (text * text)) : list (text * text) :=
  match l with
  | [] => [x]
  | y :: r => if text_ltb (fst y) (fst x) then y :: insert_kv x r else x :: l
  end.
Definition sort_kvs (l : list (text * text)) : list (text * text) := fold_right insert_kv [] l.

Fixpoint canon_json (j : json) : text :=
  match j with
  | JNull => T "null"
  | JBool b => if b then T "true" else T "false"
  | JInt z => show_Z z
  | JFloat b => T "f:" ++ hex8 b
  | JStr s => quote_text s
  | JArr l => T "[" ++ join_with [44] (map canon_json l) ++ T "]"
  | JObj l =>
      let kvs := (fix go (l : list (text * json)) : list (text * text) :=
                    match l with
                    | [] => []
                    | (k, v) :: r => (k, canon_json v) :: go r
                    end) l in
      T "{" ++ join_with [44] (map (fun kv : text * text => quote_text (fst kv) ++ [58] ++ snd kv) (sort_kvs kvs))
        ++ T "}"
  end.

Section RunSave.
Variable sw : switches.
Variable orc : oracles.
Variable panics : ssite -> bool.
Variable ssw : save_switches.

Definition set_world (d : drv) (w : world) (poisoned : bool) : drv :=
  mkDrv (dr_story d) (Some w) poisoned (dr_seed d) (dr_fuel d).

(* story.load_state(json) on the live world *)
(* Story::load_state: the async guard (regenerated switch), then StoryState::load_json *)
Definition story_load_state (w : world) (j : json) : out unit * world :=
  if sw_guard_load sw && w_async w
  then (OErr InvalidState (T "Can't load a saved state. Story is in the middle of a continue_async()."), w)
  else load_state panics ssw w j.

Definition do_load (d : drv2) (w : world) (j : json) : text * drv2 :=
  match story_load_state w j with
  | (OOk _, w') => (T "ok", mkDrv2 (set_world (d2_base d) w' false) (d2_saves d))
  | (OErr k _, w') => (show_err k, mkDrv2 (set_world (d2_base d) w' false) (d2_saves d))
  | (OPanic _, w') => (T "panic", mkDrv2 (set_world (d2_base d) w' true) (d2_saves d))
  end.

Definition run_op2 (op : hostop2) (d : drv2) : text * drv2 :=
  match op with
  | Base o => let '(r, b) := run_op sw orc o (d2_base d) in (r, mkDrv2 b (d2_saves d))
  | _ =>
      match dr_world (d2_base d) with
      | None => (T "nostory", d)
      | Some w =>
          if dr_poisoned (d2_base d) then (T "poisoned", d) else
          match op with
          | HSave k =>
              match write_state panics ssw w with
              | Ok j => (T "ok", mkDrv2 (set_world (d2_base d) (world_after_write w) false)
                                        (assoc_set k j (d2_saves d)))
              | Err e _ => (show_err e, d)
              | Panic _ => (T "panic", mkDrv2 (set_world (d2_base d) w true) (d2_saves d))
              end
          | HShowSave =>
              match write_state panics ssw w with
              | Ok j => (T "ok(" ++ canon_json j ++ T ")",
                         mkDrv2 (set_world (d2_base d) (world_after_write w) false) (d2_saves d))
              | Err e _ => (show_err e, d)
              | Panic _ => (T "panic", mkDrv2 (set_world (d2_base d) w true) (d2_saves d))
              end
          | HLoad k =>
              match assoc k (d2_saves d) with
              | None => (T "nosave", d)
              | Some j => do_load d w j
              end
          | HLoadText j => do_load d w j
          | HLoadBadText => (show_err BadJson, d)
          | HLoadNew k =>
              match assoc k (d2_saves d) with
              | None => (T "nosave", d)
              | Some j =>
                  let '(r, b) := run_op sw orc HNew (d2_base d) in
                  if text_eqb r (T "ok") then
                    match dr_world b with
                    | Some w' => do_load (mkDrv2 b (d2_saves d)) w' j
                    | None => (T "nostory", mkDrv2 b (d2_saves d))
                    end
                  else (T "new:" ++ r, mkDrv2 b (d2_saves d))
              end
          | Base _ => (T "badop", d)
          end
      end
  end.

Definition run_line2 (op : hostop2) (d : drv2) : text * drv2 :=
  let '(r, d1) := run_op2 op d in
  let '(s, b) := summary (d2_base d1) in
  (r ++ T " | " ++ s, mkDrv2 b (d2_saves d1)).

Fixpoint run_script2 (ops : list hostop2) (d : drv2) (acc : list text) : list text * drv2 :=
  match ops with
  | [] => (rev acc, d)
  | op :: r => let '(l, d') := run_line2 op d in run_script2 r d' (l :: acc)
  end.

End RunSave.

(* exploration only uses CONT / CHOOSE / STATUS, so Run.explore is used as it is
   on the state the script left *)
Definition run_case2 (sw : switches) (orc : oracles) (panics : ssite -> bool) (ssw : save_switches)
           (j : json) (seed : Z) (fuel : N) (script : list hostop2)
           (explore_depth : option (nat * nat)) : list text :=
  match load_story j with
  | Ok st =>
      let d0 := mkDrv (Some st) None false seed fuel in
      let '(r0, d1) := new_story sw orc d0 in
      let '(s0, d2) := summary d1 in
      let '(ls, d3) := run_script2 sw orc panics ssw script (mkDrv2 d2 []) [] in
      let base := (r0 ++ T " | " ++ s0) :: ls in
      match explore_depth with
      | None => base
      | Some (dep, budget) => base ++ rev (snd (explore sw orc dep (d2_base d3) [] budget []))
      end
  | Err k _ => [show_err k ++ T " | nostory ev=[]"]
  | Panic _ => [T "panic | nostory ev=[]"]
  end.

(* the same with the switch values regenerated from the source *)
Definition run_case2_now (sw : switches) (orc : oracles) :=
  run_case2 sw orc ssite_panics save_switches_now.

(* ---------- the property's own oracle on the model ----------
   the exploration transcript (CONT / END lines of every choice path up to the
   depth bound) of the story as the script left it, against the transcript of
   the story restored by SAVE k; LOADNEW k at that point *)
Fixpoint texts_eqb (a b : list text) : bool :=
  match a, b with
  | [], [] => true
  | x :: a', y :: b' => text_eqb x y && texts_eqb a' b'
  | _, _ => false
  end.

Definition restored_differs (sw : switches) (orc : oracles) (panics : ssite -> bool) (ssw : save_switches)
           (j : json) (seed : Z) (fuel : N) (script : list hostop2) (dep budget : nat) : bool :=
  let n := length script in
  let a := run_case2 sw orc panics ssw j seed fuel script (Some (dep, budget)) in
  let b := run_case2 sw orc panics ssw j seed fuel
                     (script ++ [HSave (T "k"); HLoadNew (T "k")]) (Some (dep, budget)) in
  negb (texts_eqb (skipn (S n) a) (skipn (S n + 2) b)).

(* ---------- model-only probe: are the hypotheses of the round-trip theorems met? ----------
   after every op of the script: wf_world_b, at_save_point, resave_hyp_b, no-alias-entry
   ('1' / '0' each; "--": no story) *)
Fixpoint wf_trace_loop (sw : switches) (orc : oracles) (panics : ssite -> bool) (ssw : save_switches)
         (ops : list hostop2) (d : drv2) (acc : list text) : list text :=
  match ops with
  | [] => rev acc
  | op :: r =>
      let '(_, d') := run_line2 sw orc panics ssw op d in
      let bits := match dr_world (d2_base d') with
                  | Some w => [if wf_world_b w then 49 else 48; if at_save_point w then 49 else 48;
                               if resave_hyp_b ssw w then 49 else 48;
                               (* no entry of named_flows under the current flow's own name *)
                               if negb (assoc_mem (fl_name (ss_flow (w_state w)))
                                          (match ss_named (w_state w) with Some nf => nf | None => [] end))
                               then 49 else 48]
                  | None => T "--"
                  end in
      wf_trace_loop sw orc panics ssw r d' (bits :: acc)
  end.

Definition wf_trace (sw : switches) (orc : oracles) (panics : ssite -> bool) (ssw : save_switches)
           (j : json) (seed : Z) (fuel : N) (script : list hostop2) : text :=
  match load_story j with
  | Ok st =>
      let d0 := mkDrv (Some st) None false seed fuel in
      let '(_, d1) := new_story sw orc d0 in
      let '(_, d2) := summary d1 in
      join_with [32] (wf_trace_loop sw orc panics ssw script (mkDrv2 d2 []) [])
  | _ => T "noload"
  end.

(* the world a script leaves (None: no story / poisoned) *)
Definition world_after (sw : switches) (orc : oracles) (panics : ssite -> bool) (ssw : save_switches)
           (j : json) (seed : Z) (fuel : N) (script : list hostop2) : option world :=
  match load_story j with
  | Ok st =>
      let d0 := mkDrv (Some st) None false seed fuel in
      let '(_, d1) := new_story sw orc d0 in
      let '(_, d2) := summary d1 in
      let '(_, d3) := run_script2 sw orc panics ssw script (mkDrv2 d2 []) [] in
      if dr_poisoned (d2_base d3) then None else dr_world (d2_base d3)
  | _ => None
  end.
