(* Engine/OrderIndep.v — C03: the HashMap iteration sites of variables_state.rs,
   state_patch.rs and story_state.rs, as the engine model writes them (folds of
   [assoc_set] over one map into another), produce the same MAP whatever the iteration
   order of the source map and the arrangement of the destination. *)
From Coq Require Import Permutation.
From Ink.Engine Require Import Vars.
From Ink.Data Require Import AssocOrder.

(* VariablesState::snapshot_default_globals *)
Theorem snapshot_defaults_order_independent : forall v v',
  NoDup (map fst (vs_globals v)) -> Permutation (vs_globals v) (vs_globals v') ->
  assoc_equiv (vs_defaults v) (vs_defaults v') ->
  assoc_equiv (vs_defaults (vs_snapshot_defaults v)) (vs_defaults (vs_snapshot_defaults v')).
Proof.
  intros v v' Hnd Hp Hd. unfold vs_snapshot_defaults. cbn.
  apply (insert_all_order_independent _ _ _ _ _ Hnd Hp Hd).
Qed.

(* VariablesState::apply_patch: the globals after the patch *)
Theorem apply_patch_order_independent : forall v v' p p',
  vs_patch v = Some p -> vs_patch v' = Some p' ->
  NoDup (map fst (pa_globals p)) -> Permutation (pa_globals p) (pa_globals p') ->
  assoc_equiv (vs_globals v) (vs_globals v') ->
  exists r r', vs_apply_patch v = Ok r /\ vs_apply_patch v' = Ok r' /\
               assoc_equiv (vs_globals r) (vs_globals r').
Proof.
  intros v v' p p' Hp Hp' Hnd Hperm Hg. unfold vs_apply_patch. rewrite Hp, Hp'.
  eexists. eexists. split; [reflexivity|]. split; [reflexivity|]. cbn.
  apply (insert_all_order_independent _ _ _ _ _ Hnd Hperm Hg).
Qed.

(* StoryState::apply_any_patch: visit counts and turn indices *)
Theorem visit_turn_patch_order_independent : forall (pv pv' sv sv' : list (text * Z)),
  NoDup (map fst pv) -> Permutation pv pv' -> assoc_equiv sv sv' ->
  assoc_equiv (fold_left (fun acc kv => assoc_set (fst kv) (snd kv) acc) pv sv)
              (fold_left (fun acc kv => assoc_set (fst kv) (snd kv) acc) pv' sv').
Proof. intros. apply (insert_all_order_independent _ _ _ _ _ H H0 H1). Qed.

(* complete_variable_observation: the second loop (names changed in the patch) — the
   notification map does not depend on the order of the changed-name set *)
Theorem observation_batch_order_independent : forall (g : list (text * value)) names names' m m',
  Permutation names names' -> assoc_equiv m m' ->
  assoc_equiv (fold_left (fun acc n => match assoc n g with Some x => assoc_set n x acc | None => acc end) names m)
              (fold_left (fun acc n => match assoc n g with Some x => assoc_set n x acc | None => acc end) names' m').
Proof. intros g names names' m m' Hp Hm. apply (insert_some_order_independent _ (fun n => assoc n g) _ _ _ _ Hp Hm). Qed.
