(* Engine/Vars.v — model of runtime/src/variables_state.rs and state_patch.rs,
   plus the visit/turn counters of story_state.rs.  No proofs. *)
From Ink.Engine Require Export Output.

Section Vars.
Variable I : iface.
Variable defs : listdefs.

(* ---------- observation batch ---------- *)
Definition vs_start_observation (v : varstate) : varstate :=
  v <| vs_batch := true |> <| vs_changed := Some [] |>.

(* complete_variable_observation: returns the (name,value) map; `.unwrap()` on a
   name that is not in global_variables panics *)
Definition vs_complete_observation (v : varstate) : Res (list (text * value) * varstate) :=
  let names := match vs_changed v with Some l => l | None => [] end in
  do m1 <- foldM (fun acc n =>
                    match assoc n (vs_globals v) with
                    | Some x => Ok (assoc_set n x acc)
                    | None => Panic (T "variables_state.rs:complete_variable_observation:get().unwrap()")
                    end) names [];
  let m2 := match vs_patch v with
            | Some p => fold_left (fun acc n => match assoc n (pa_globals p) with
                                                | Some x => assoc_set n x acc
                                                | None => acc end) (pa_changed p) m1
            | None => m1
            end in
  Ok (m2, v <| vs_batch := false |> <| vs_changed := None |>).

Definition vs_snapshot_defaults (v : varstate) : varstate :=
  v <| vs_defaults := fold_left (fun acc kv => assoc_set (fst kv) (snd kv) acc) (vs_globals v) (vs_defaults v) |>.

(* apply_patch: `self.patch.as_ref().unwrap()` *)
Definition vs_apply_patch (v : varstate) : Res varstate :=
  match vs_patch v with
  | None => Panic (T "variables_state.rs:apply_patch:patch.unwrap()")
  | Some p =>
      let g := fold_left (fun acc kv => assoc_set (fst kv) (snd kv) acc) (pa_globals p) (vs_globals v) in
      let ch := match vs_changed v with
                | Some l => Some (fold_left (fun acc n => set_add n acc) (pa_changed p) l)
                | None => None
                end in
      Ok (v <| vs_globals := g |> <| vs_changed := ch |> <| vs_patch := None |>)
  end.

Definition vs_global_exists (v : varstate) (name : text) : bool :=
  assoc_mem name (vs_globals v) || assoc_mem name (vs_defaults v).

(* get_raw_variable_with_name *)
Definition get_raw_variable (s : sstate) (name : text) (ci : Z) : Res (option value) :=
  let v := ss_vars s in
  let g :=
    if (ci =? 0)%Z || (ci =? -1)%Z then
      match (match vs_patch v with Some p => assoc name (pa_globals p) | None => None end) with
      | Some x => Some x
      | None =>
          match assoc name (vs_globals v) with
          | Some x => Some x
          | None =>
              match assoc name (vs_defaults v) with
              | Some x => Some x
              | None => if_single_item I defs name
              end
          end
      end
    else None in
  match g with
  | Some x => Ok (Some x)
  | None => cs_get_temp (ss_cs s) name ci
  end.

(* get_variable_with_name / value_at_variable_pointer (mutually recursive in
   Rust; a pointer chain could loop, hence fuel) *)
Fixpoint get_variable_fuel (fuel : nat) (s : sstate) (name : text) (ci : Z) : Res (option value) :=
  match fuel with
  | O => Panic (T "model:get_variable_with_name:out of fuel (pointer cycle = stack overflow)")
  | S f =>
      do r <- get_raw_variable s name ci;
      match r with
      | Some (VVarPtr n c) => get_variable_fuel f s n c
      | other => Ok other
      end
  end.
Definition get_variable_with_name (s : sstate) (name : text) (ci : Z) : Res (option value) :=
  get_variable_fuel 64 s name ci.

(* set_global: returns (notify?, state).  Rc::ptr_eq(old,new) is not modelled:
   [same_rc] tells whether the assigned Rc is the very object already stored
   (only possible for `x = x`-style assignments); the engine passes false and
   the correspondence check treats notifications as a lower/upper bound. *)
Definition set_global (s : sstate) (name : text) (val : value) : Res (bool * sstate) :=
  let v := ss_vars s in
  let old := match (match vs_patch v with Some p => assoc name (pa_globals p) | None => None end) with
             | Some x => Some x
             | None => assoc name (vs_globals v)
             end in
  do val' <- match old with Some o => if_retain I o val | None => Ok val end;
  let v1 := match vs_patch v with
            | Some p => v <| vs_patch := Some (p <| pa_globals ::= assoc_set name val' |>) |>
            | None => v <| vs_globals ::= assoc_set name val' |>
            end in
  if vs_batch v1 then
    let v2 := match vs_patch v1 with
              | Some p => v1 <| vs_patch := Some (p <| pa_changed ::= set_add name |>) |>
              | None => match vs_changed v1 with
                        | Some l => v1 <| vs_changed := Some (set_add name l) |>
                        | None => v1
                        end
              end in
    Ok (false, s <| ss_vars := v2 |>)
  else Ok (true, s <| ss_vars := v1 |>).

Definition get_context_index_of_variable (s : sstate) (name : text) : Res Z :=
  if vs_global_exists (ss_vars s) name then Ok 0%Z else cs_cur_index (ss_cs s).

(* resolve_variable_pointer *)
Definition resolve_variable_pointer (s : sstate) (name : text) (ci : Z) : Res value :=
  do ci' <- (if (ci =? -1)%Z then get_context_index_of_variable s name else Ok ci);
  do r <- get_raw_variable s name ci';
  match r with
  | Some (VVarPtr n c) => Ok (VVarPtr n c)
  | _ => Ok (VVarPtr name ci')
  end.

(* the pointer-chasing loop of assign (re-assignment through ref parameters) *)
Fixpoint assign_chase (fuel : nat) (s : sstate) (name : text) (ci : Z) (set_glob : bool)
  : Res (text * Z * bool) :=
  match fuel with
  | O => Panic (T "model:assign:out of fuel (pointer cycle = infinite loop)")
  | S f =>
      do r <- get_raw_variable s name ci;
      match r with
      | Some (VVarPtr n c) => assign_chase f s n c (c =? 0)%Z
      | _ => Ok (name, ci, set_glob)
      end
  end.

(* VariablesState::assign *)
Definition assign (s : sstate) (name : text) (is_new is_global : bool) (val : value) : Res sstate :=
  if is_new then
    do val' <- match val with
               | VVarPtr n c => resolve_variable_pointer s n c
               | _ => Ok val
               end;
    if is_global then do r <- set_global s name val'; Ok (snd r)
    else do cs <- cs_set_temp (if_retain I) (ss_cs s) name val' true (-1)%Z; Ok (ss_set_cs s cs)
  else
    do (name', ci, set_glob) <- assign_chase 64 s name (-1)%Z (vs_global_exists (ss_vars s) name);
    if set_glob then do r <- set_global s name' val; Ok (snd r)
    else do cs <- cs_set_temp (if_retain I) (ss_cs s) name' val false ci; Ok (ss_set_cs s cs).

(* VariablesState::set (host API): Err unless declared *)
Definition vs_host_set (s : sstate) (name : text) (val : value) : Res (bool * sstate) :=
  if negb (assoc_mem name (vs_defaults (ss_vars s)))
  then Err BadArgument (T "Cannot assign to a variable that hasn't been declared in the story")
  else set_global s name val.

(* VariablesState::get (host API) *)
Definition vs_host_get (s : sstate) (name : text) : option value :=
  let v := ss_vars s in
  match (match vs_patch v with Some p => assoc name (pa_globals p) | None => None end) with
  | Some x => Some x
  | None => match assoc name (vs_globals v) with
            | Some x => Some x
            | None => assoc name (vs_defaults v)
            end
  end.

(* ---------- visit / turn counters (story_state.rs) ---------- *)
Definition path_text_of (root : container) (cp : pos) : Res text :=
  do p <- get_path root cp; Ok (path_string p).

Definition visit_count_for (root : container) (s : sstate) (cp : pos) : Res Z :=
  match cont_at root cp with
  | None => Panic (T "model:visit_count_for_container:not a container")
  | Some c =>
      if negb (c_visits c) then Ok 0%Z else
      do k <- path_text_of root cp;
      match (match ss_patch s with Some p => assoc k (pa_visits p) | None => None end) with
      | Some n => Ok n
      | None => Ok (match assoc k (ss_visits s) with Some n => n | None => 0%Z end)
      end
  end.

Definition increment_visit_count (root : container) (s : sstate) (cp : pos) : Res sstate :=
  match ss_patch s with
  | Some p =>
      do cur <- visit_count_for root s cp;
      do k <- path_text_of root cp;
      Ok (s <| ss_patch := Some (p <| pa_visits ::= assoc_set k (wrap32 (cur + 1)) |>) |>)
  | None =>
      do k <- path_text_of root cp;
      let cur := match assoc k (ss_visits s) with Some n => n | None => 0%Z end in
      Ok (s <| ss_visits ::= assoc_set k (wrap32 (cur + 1)) |>)
  end.

Definition record_turn_index_visit (root : container) (s : sstate) (cp : pos) : Res sstate :=
  do k <- path_text_of root cp;
  match ss_patch s with
  | Some p => Ok (s <| ss_patch := Some (p <| pa_turns ::= assoc_set k (ss_turn s) |>) |>)
  | None => Ok (s <| ss_turns ::= assoc_set k (ss_turn s) |>)
  end.

Definition turns_since_for (root : container) (s : sstate) (cp : pos) : Res Z :=
  match cont_at root cp with
  | None => Panic (T "model:turns_since_for_container:not a container")
  | Some c =>
      if negb (c_turns c) then
        match c_name c with
        | Some _ => Err InvalidState (T "TURNS_SINCE() for target unknown")
        | None => Panic (T "story_state.rs:turns_since_for_container:name.unwrap()")
        end
      else
      do k <- path_text_of root cp;
      match (match ss_patch s with Some p => assoc k (pa_turns p) | None => None end) with
      | Some i => Ok (ss_turn s - i)%Z
      | None => match assoc k (ss_turns s) with
                | Some i => Ok (ss_turn s - i)%Z
                | None => Ok (-1)%Z
                end
      end
  end.

(* apply_any_patch *)
Definition apply_any_patch (s : sstate) : Res sstate :=
  match ss_patch s with
  | None => Ok s
  | Some p =>
      do v <- vs_apply_patch (ss_vars s);
      let vis := fold_left (fun acc kv => assoc_set (fst kv) (snd kv) acc) (pa_visits p) (ss_visits s) in
      let tur := fold_left (fun acc kv => assoc_set (fst kv) (snd kv) acc) (pa_turns p) (ss_turns s) in
      Ok (s <| ss_vars := v |> <| ss_visits := vis |> <| ss_turns := tur |> <| ss_patch := None |>)
  end.

End Vars.
