(* Engine/Step.v — the interpreter: Story::step and everything it calls
   (story/progress.rs, control_logic.rs, choices.rs, navigation.rs,
   external_functions.rs, errors.rs, story/mod.rs::next_sequence_shuffle_index).
   A near line-by-line port into the state monad M.  No proofs. *)
From Ink.Engine Require Export Vars.

Section Step.
Variable I : iface.
Variable sw : switches.

Definition m_root : M container := gets root_of.
Definition m_defs : M listdefs := gets (fun w => st_listdefs (w_story w)).

(* ---------- evaluation stack ---------- *)
Definition push_eval (o : obj) : M unit :=
  match o with
  | OVal (VList l) =>
      let* defs := m_defs in
      let* l' := lift (if_push_origins I defs l) in
      mod_state (fun s => s <| ss_eval ::= fun e => e ++ [OVal (VList l')] |>)
  | _ => mod_state (fun s => s <| ss_eval ::= fun e => e ++ [o] |>)
  end.
Definition pop_eval : M obj :=
  let* s := get_state in
  match last_opt (ss_eval s) with
  | None => panic "story_state.rs:pop_evaluation_stack:pop().unwrap()"
  | Some o => let* _ := mod_state (fun s => s <| ss_eval ::= @removelast _ |>) in ret o
  end.
Definition peek_eval : M (option obj) := let* s := get_state in ret (last_opt (ss_eval s)).
Definition pop_eval_multiple (n : nat) : M (list obj) :=
  let* s := get_state in
  let len := length (ss_eval s) in
  if Nat.ltb len n then panic "story_state.rs:pop_evaluation_stack_multiple:usize underflow"
  else let* _ := mod_state (fun s => s <| ss_eval ::= firstn (len - n) |>) in
       ret (skipn (len - n) (ss_eval s)).

Definition m_push_output (o : obj) : M unit := m_state_res (push_to_output o).

(* ---------- errors ---------- *)
(* StoryState::force_end *)
Definition force_end (s : sstate) : Res sstate :=
  let s1 := ss_set_choices (ss_set_cs s (cs_reset (ss_cs s))) [] in
  do s2 <- ss_set_cur_pointer s1 ptr_null;
  do s3 <- ss_set_prev_pointer s2 ptr_null;
  Ok (s3 <| ss_safe_exit := true |>).

(* harness::msg_class — only the class of a message is compared *)
Definition msg_class (m : text) : text :=
  if contains_text m (T "VERIF: out of fuel") then T "fuel"
  else if contains_text m (T "Version of ink") then T "version"
  else if contains_text m (T "ran out of content") then T "ranout"
  else if contains_text m (T "unexpectedly reached end of content") then T "endcontent"
  else if contains_text m (T "Variable not found") then T "varnotfound"
  else if contains_text m (T "Failed to find container") then T "nocontainer"
  else if contains_text m (T "EXTERNAL") || contains_text m (T "External function") then T "external"
  else if contains_text m (T "divert") || contains_text m (T "Divert") then T "divert"
  else T "other".

(* Story::add_error: only the class of the message is kept *)
Definition add_error_msg (m : text) (is_warning : bool) : M unit :=
  (* "RUNTIME ERROR: (<current path>): <message>"; class and raising site are kept *)
  let* p := m_read ss_cur_pointer in
  let* root := gets root_of in
  let* site := lift (do op <- ptr_path root p; Ok (match op with Some pa => path_string pa | None => [] end)) in
  let cls := msg_class m ++ [64] ++ site in
  if is_warning then mod_state (fun s => s <| ss_warnings ::= fun l => l ++ [cls] |>)
  else let* _ := mod_state (fun s => s <| ss_errors ::= fun l => l ++ [cls] |>) in
       m_state_res force_end.
Definition add_error (msg : string) (is_warning : bool) : M unit := add_error_msg (T msg) is_warning.

(* ---------- visits ---------- *)
Definition visit_container (cp : pos) (at_start : bool) : M unit :=
  let* root := m_root in
  match cont_at root cp with
  | None => panic "model:visit_container:not a container"
  | Some c =>
      if negb (c_start_only c) || at_start then
        let* _ := when (c_visits c) (m_state_res (fun s => increment_visit_count root s cp)) in
        when (c_turns c) (m_state_res (fun s => record_turn_index_visit root s cp))
      else ret tt
  end.

(* all ancestors-or-self of a position, nearest first *)
Fixpoint prefixes_rev (p : pos) (fuel : nat) : list pos :=
  match fuel with
  | O => []
  | S f => p :: (match p with [] => [] | _ => prefixes_rev (removelast p) f end)
  end.
Definition ancestors_or_self (p : pos) : list pos := prefixes_rev p (S (length p)).
Definition mem_pos (p : pos) (l : list pos) : bool := existsb (pos_eqb p) l.

Fixpoint visit_changed_loop (fuel : nat) (prevs : list pos) (child : pos) (all_at_start : bool) : M unit :=
  match fuel with
  | O => ret tt
  | S f =>
      match pos_parent child with
      | None => ret tt
      | Some cc =>
          let* root := m_root in
          match cont_at root cc with
          | None => panic "model:visit_changed_containers:parent is not a container"
          | Some c =>
              if negb (mem_pos cc prevs) || c_start_only c then
                let entering := match c_content c with
                                | [] => false
                                | _ => pos_eqb child (cc ++ [SI 0]) && all_at_start
                                end in
                let* _ := visit_container cc entering in
                visit_changed_loop f prevs cc (if entering then all_at_start else false)
              else ret tt
          end
      end
  end.

Definition visit_changed_containers_due_to_divert : M unit :=
  let* prev := m_read ss_prev_pointer in
  let* ptr := m_read ss_cur_pointer in
  if ptr_is_null ptr || (ptr_i ptr =? -1)%Z then ret tt else
  let* root := m_root in
  let prevs :=
    if ptr_is_null prev then [] else
    match ptr_resolve root prev with
    | Some pp => if is_cont_at root pp then ancestors_or_self pp
                 else match ptr_c prev with Some c => ancestors_or_self c | None => [] end
    | None => match ptr_c prev with Some c => ancestors_or_self c | None => [] end
    end in
  match ptr_resolve root ptr with
  | None => ret tt
  | Some child => visit_changed_loop (S (length child)) prevs child true
  end.

(* ---------- moving the pointer ---------- *)
Fixpoint incr_loop (fuel : nat) (root : container) (cp : pos) (idx : Z) (ok : bool) : pointer * bool :=
  match fuel with
  | O => (ptr_null, false)
  | S f =>
      match cont_at root cp with
      | None => (ptr_null, false)
      | Some c =>
          if (idx <? Z.of_nat (length (c_content c)))%Z then (mkPtr (Some cp) idx, ok)
          else
            match cp with
            | [] => (ptr_null, false)
            | _ =>
                match last_opt cp with
                | Some (SI i) => incr_loop f root (removelast cp) (Z.of_nat i + 1)%Z true
                | _ => (ptr_null, false)
                end
            end
      end
  end.

(* increment_content_pointer: `pointer.container.as_ref().unwrap()` *)
Definition increment_content_pointer : M bool :=
  let* p := m_read ss_cur_pointer in
  match ptr_c p with
  | None => panic "progress.rs:increment_content_pointer:container.unwrap()"
  | Some cp =>
      let* root := m_root in
      let '(np, ok) := incr_loop (S (S (length cp))) root cp (ptr_i p + 1)%Z true in
      let* _ := m_state_res (fun s => ss_set_cur_pointer s np) in
      ret ok
  end.

Definition pop_callstack (t : option pushpop) : M unit :=
  let* e := m_read (fun s => cs_cur_element (ss_cs s)) in
  let* _ := when (pushpop_eqb (el_type e) PFunction) (m_state_res trim_whitespace_from_function_end) in
  m_cs_res (fun cs => cs_pop cs t).

Definition try_exit_function_evaluation_from_game : M bool :=
  let* e := m_read (fun s => cs_cur_element (ss_cs s)) in
  if pushpop_eqb (el_type e) PFunctionEvalFromGame then
    let* _ := m_state_res (fun s => ss_set_cur_pointer s ptr_null) in
    let* _ := mod_state (fun s => s <| ss_safe_exit := true |>) in
    ret true
  else ret false.

Fixpoint next_content_fuel (fuel : nat) : M unit :=
  match fuel with
  | O => panic "model:next_content:out of fuel"
  | S f =>
      let* cp := m_read ss_cur_pointer in
      let* _ := m_state_res (fun s => ss_set_prev_pointer s cp) in
      let* s := get_state in
      let* diverted_done :=
        (if negb (ptr_is_null (ss_diverted s)) then
           let* _ := m_state_res (fun s' => ss_set_cur_pointer s' (ss_diverted s)) in
           let* _ := mod_state (fun s' => s' <| ss_diverted := ptr_null |>) in
           let* _ := visit_changed_containers_due_to_divert in
           let* p := m_read ss_cur_pointer in
           ret (negb (ptr_is_null p))
         else ret false) in
      if diverted_done then ret tt else
      let* ok := increment_content_pointer in
      if ok then ret tt else
      let* can_fn := m_read (fun s => cs_can_pop_type (ss_cs s) (Some PFunction)) in
      let* did_pop :=
        (if can_fn then
           let* _ := pop_callstack (Some PFunction) in
           let* inexpr := m_read ss_in_expr in
           let* _ := when inexpr (push_eval OVoid) in
           ret true
         else
           let* can_th := m_read (fun s => cs_can_pop_thread (ss_cs s)) in
           if can_th then let* _ := m_cs_res cs_pop_thread in ret true
           else let* _ := try_exit_function_evaluation_from_game in ret false) in
      let* p := m_read ss_cur_pointer in
      if did_pop && negb (ptr_is_null p) then next_content_fuel f else ret tt
  end.

Definition cs_total_size (cs : callstack) : nat :=
  fold_left (fun acc t => acc + length (th_cs t) + 1)%nat (cs_threads cs) 2%nat.
Definition next_content : M unit :=
  let* s := get_state in next_content_fuel (cs_total_size (ss_cs s)).

(* Story::choose_path / StoryState::set_chosen_path *)
Definition choose_path (p : path) (incr_turn : bool) : M unit :=
  let* _ := when (negb (sw_path_validated_first sw)) (mod_state (fun s => ss_set_choices s [])) in
  let* root := m_root in
  let* np := lift (pointer_at_path root p) in
  let* _ := when (sw_path_validated_first sw) (mod_state (fun s => ss_set_choices s [])) in
  let np' := if negb (ptr_is_null np) && (ptr_i np =? -1)%Z then mkPtr (ptr_c np) 0%Z else np in
  let* _ := m_state_res (fun s => ss_set_cur_pointer s np') in
  let* _ := (if incr_turn then
               let* s := get_state in
               let* t := lift (i32_add I "story_state.rs:set_chosen_path:current_turn_index += 1" (ss_turn s) 1%Z) in
               mod_state (fun s => s <| ss_turn := t |>)
             else ret tt) in
  visit_changed_containers_due_to_divert.

(* ---------- diverts ---------- *)
(* Divert::get_target_pointer (the cache is a pure function of the tree) *)
Definition divert_target_pointer (root : container) (dpos : pos) (target : path) : Res pointer :=
  do r <- resolve_path root dpos target;
  match path_last target with
  | None => Panic (T "divert.rs:get_target_pointer:get_last_component().unwrap()")
  | Some (CIdx i) => Ok (mkPtr (pos_parent (sr_pos r)) (wrap32 (Z.of_N i)))
  | Some (CName _) =>
      if is_cont_at root (sr_pos r) then Ok (ptr_start_of (sr_pos r))
      else Panic (T "divert.rs:get_target_pointer:downcast::<Container>().unwrap()")
  end.

(* Divert::get_target_path / get_target_path_string (used for external names) *)
Definition divert_target_path_string (root : container) (dpos : pos) (target : path) : Res text :=
  do tp <- (if p_rel target then
              do ptr <- divert_target_pointer root dpos target;
              match ptr_resolve root ptr with
              | Some op => get_path root op
              | None => Ok target
              end
            else Ok target);
  do own <- get_path root dpos;
  compact_path_string own tp.

(* ---------- truthiness ---------- *)
Definition value_truthy (v : value) : Res bool :=
  match v with
  | VBool b => Ok b
  | VInt z => Ok (negb (z =? 0)%Z)
  | VFloat b => Ok (negb ((b =? 0)%Z || (b =? 2147483648)%Z))     (* != 0.0: +0.0 and -0.0 *)
  | VString s => Ok (match s with [] => false | _ => true end)
  | VDivert _ => Err InvalidState (T "Shouldn't be checking the truthiness of a divert target")
  | VVarPtr _ _ => Err InvalidState (T "Shouldn't be checking the truthiness of a variable pointer")
  | VList l => Ok (negb (if_list_is_empty I l))
  end.
(* Story::is_truthy *)
Definition is_truthy (o : obj) : Res bool :=
  match o with
  | OVal (VDivert _) => Err InvalidState (T "Shouldn't use a divert target as a conditional value")
  | OVal v => value_truthy v
  | _ => Ok false
  end.

(* ---------- external functions ---------- *)
Definition log_event (e : event) : M unit := modify (fun w => w <| w_events ::= fun l => l ++ [e] |>).

Fixpoint pop_args (n : nat) (acc : list value) : M (list value) :=
  match n with
  | O => ret acc
  | S k =>
      let* o := pop_eval in
      match o with
      | OVal v => pop_args k (v :: acc)        (* push then reverse = prepend *)
      | _ => fail InvalidState "Trying to call EXTERNAL function with arguments which are not values"
      end
  end.

Definition knot_container_with_name (root : container) (name : text) : option pos :=
  option_map (fun s => [s]) (lookup_named root name).

Definition call_external_function (name : text) (nargs : Z) : M unit :=
  let* w := get in
  match assoc name (w_externals w) with
  | Some def =>
      (* NOTE external_functions.rs:97 tests `lookahead_safe`, not `!lookahead_safe` *)
      if (if sw_ext_guard_fixed sw then negb (ex_safe def) else ex_safe def) && in_string_evaluation (w_state w) then
        add_error "External function could not be called because 1) it wasn't marked as lookaheadSafe" false
      else if negb (ex_safe def) && (match w_snapshot w with Some _ => true | None => false end) then
        modify (fun w => w <| w_saw_unsafe := true |>)
      else
        let* args := pop_args (Z.to_nat nargs) [] in
        let* w' := get in
        let* _ := log_event (EvExt name args (w_lines w')) in
        let r := match ex_beh def with
                 | ExtReturn v => v
                 | ExtEcho => match args with a :: _ => Some a | [] => None end
                 end in
        push_eval (match r with Some v => OVal v | None => OVoid end)
  | None =>
      if w_fallbacks w then
        match knot_container_with_name (root_of w) name with
        | Some fp =>
            let* _ := m_cs_res (fun cs => cs_push cs PFunction 0
                                  (Z.of_nat (length (ss_out (w_state w))))) in
            mod_state (fun s => s <| ss_diverted := ptr_start_of fp |>)
        | None => fail InvalidState "Trying to call EXTERNAL function which has not been bound, and fallback ink function could not be found."
        end
      else fail InvalidState "Trying to call EXTERNAL function which has not been bound (and ink fallbacks disabled)."
  end.

(* ---------- shuffle ---------- *)
Fixpoint remove_first_Z (x : Z) (l : list Z) : list Z :=
  match l with [] => [] | y :: r => if (x =? y)%Z then r else y :: remove_first_Z x r end.
Fixpoint shuffle_pick (seed : Z) (k : nat) (upto : nat) (unpicked : list Z) : Res Z :=
  (* k-th draw (0-based) *)
  match unpicked with
  | [] => Panic (T "story/mod.rs:next_sequence_shuffle_index:rem_euclid(0)")
  | _ =>
      let chosen := rem_euclid (if_rng_i32 I seed k) (Z.of_nat (length unpicked)) in
      match nth_error unpicked (Z.to_nat chosen) with
      | None => Panic (T "story/mod.rs:next_sequence_shuffle_index:index")
      | Some ci =>
          match upto with
          | O => Ok ci
          | S u => shuffle_pick seed (S k) u (remove_first_Z ci unpicked)
          end
      end
  end.
Fixpoint zrange (n : nat) (from : Z) : list Z :=
  match n with O => [] | S k => from :: zrange k (from + 1)%Z end.

Definition next_sequence_shuffle_index : M Z :=
  let* o1 := pop_eval in
  match o1 with
  | OVal (VInt num) =>
      let* s := get_state in
      let* cp := m_read ss_cur_pointer in
      match ptr_c cp with
      | None => panic "story/mod.rs:next_sequence_shuffle_index:container.unwrap()"
      | Some seqc =>
          let* o2 := pop_eval in
          match o2 with
          | OVal (VInt cnt) =>
              if (num =? 0)%Z then panic "story/mod.rs:next_sequence_shuffle_index:division by zero" else
              if (num <? 0)%Z then panic "story/mod.rs:next_sequence_shuffle_index:negative element count" else
              let loop_index := Z.quot cnt num in
              let iter := Z.rem cnt num in
              let* root := m_root in
              let* ptxt := lift (path_text_of root seqc) in
              let hash := fold_left (fun a c => (a + Z.of_N c)%Z) ptxt 0%Z in
              let* s1 := lift (i32_add I "story/mod.rs:next_sequence_shuffle_index:seed sum" hash loop_index) in
              let* seed := lift (i32_add I "story/mod.rs:next_sequence_shuffle_index:seed sum" s1 (ss_seed s)) in
              if (iter <? 0)%Z then fail InvalidState "Should never reach here" else
              lift (shuffle_pick seed 0 (Z.to_nat iter) (zrange (Z.to_nat num) 0%Z))
          | _ => fail InvalidState "Expected sequence count value for shuffle index"
          end
      end
  | _ => fail InvalidState "Expected number of elements in sequence for shuffle index"
  end.

(* ---------- choices ---------- *)
Fixpoint pop_tags (fuel : nat) (tags : list text) : M (list text) :=
  match fuel with
  | O => ret tags
  | S f =>
      let* top := peek_eval in
      match top with
      | Some (OTag t) => let* _ := pop_eval in pop_tags f (t :: tags)
      | _ => ret tags
      end
  end.
(* pop_choice_string_and_tags: `get_value::<&StringValue>(..).unwrap()` *)
Definition pop_choice_string_and_tags (tags : list text) : M (text * list text) :=
  let* o := pop_eval in
  match o with
  | OVal (VString s) =>
      let* st := get_state in
      let* tags' := pop_tags (length (ss_eval st)) tags in
      ret (s, tags')
  | _ => panic "choices.rs:pop_choice_string_and_tags:unwrap()"
  end.

Definition flag (flags : Z) (bit : Z) : bool := Z.testbit flags (Z.log2 bit).

Definition process_choice (cpos : pos) (flags : Z) (on_choice : path) : M (option choice) :=
  let has_cond := flag flags 1 in
  let has_start := flag flags 2 in
  let has_choice_only := flag flags 4 in
  let invisible := flag flags 8 in
  let once := flag flags 16 in
  let* show1 :=
    (if has_cond then let* c := pop_eval in let* b := lift (is_truthy c) in ret b else ret true) in
  let* (choice_only, tags1) :=
    (if has_choice_only then pop_choice_string_and_tags [] else ret ([], [])) in
  let* (start, tags2) :=
    (if has_start then pop_choice_string_and_tags tags1 else ret ([], tags1)) in
  let* root := m_root in
  let* target := lift (resolve_path root cpos on_choice) in
  let tcont := if is_cont_at root (sr_pos target) then Some (sr_pos target) else None in
  let* show2 :=
    (if once then
       match tcont with
       | None => panic "choices.rs:process_choice:get_choice_target().unwrap()"
       | Some tp =>
           let* s := get_state in
           let* n := lift (visit_count_for root s tp) in
           ret (if (0 <? n)%Z then false else show1)
       end
     else ret show1) in
  if negb show2 then ret None else
  (* get_path_on_choice *)
  let* poc := (if p_rel on_choice then
                 match tcont with
                 | Some tp => lift (get_path root tp)
                 | None => ret on_choice
                 end
               else ret on_choice) in
  let* src := lift (path_text_of root cpos) in
  let* (th, cs') := m_read (fun s => cs_fork_thread (ss_cs s)) in
  let* _ := mod_state (fun s => ss_set_cs s cs') in
  ret (Some (mkChoice poc src invisible tags2 (Some th) 0 (trim (start ++ choice_only)) 0)).

Definition try_follow_default_invisible_choice : M unit :=
  let* w := get in
  let s := w_state w in
  let* can := lift (ss_can_continue s) in
  if can then ret tt else
  let all := ss_choices s in
  let inv := filter ch_invisible all in
  match inv with
  | [] => ret tt
  | c :: _ =>
      if Nat.ltb (length inv) (length all) then ret tt else
      match ch_thread c with
      | None => panic "choices.rs:try_follow_default_invisible_choice:get_thread_at_generation().unwrap()"
      | Some th =>
          let* _ := mod_state (fun s => ss_set_cs s (cs_set_current_thread (ss_cs s) th)) in
          let* _ :=
            (match w_snapshot w with
             | Some _ =>
                 let* (ft, cs') := m_read (fun s => cs_fork_thread (ss_cs s)) in
                 mod_state (fun s => ss_set_cs s (cs_set_current_thread cs' ft))
             | None => ret tt
             end) in
          choose_path (ch_target c) false
      end
  end.

(* ---------- perform_logic_and_flow_control ---------- *)
(* EndString: scan back to BeginString *)
Fixpoint end_string_scan (l : list obj) (consumed : nat) (strs tags : list obj) : nat * list obj * list obj :=
  (* l: reversed output stream.  Returns (count consumed, strings in stream order, tags in stream order) *)
  match l with
  | [] => (consumed, strs, tags)
  | o :: r =>
      if is_cmd o BeginString then (S consumed, strs, tags)
      else end_string_scan r (S consumed)
             (match as_string o with Some _ => o :: strs | None => strs end)
             (match o with OTag _ => o :: tags | _ => tags end)
  end.

(* EndTag inside string evaluation: scan back to BeginTag *)
Fixpoint end_tag_scan (l : list obj) (consumed : nat) (strs : list text) : Res (nat * list text) :=
  match l with
  | [] => Ok (consumed, strs)
  | o :: r =>
      match o with
      | OCmd BeginTag => Ok (S consumed, strs)
      | OCmd _ => Err InvalidState (T "Unexpected ControlCommand while extracting tag from choice")
      | OVal (VString t) => end_tag_scan r (S consumed) (t :: strs)
      | _ => end_tag_scan r (S consumed) strs
      end
  end.

Definition set_in_expr (b : bool) : M unit := m_state_res (fun s => ss_set_in_expr s b).

Definition do_command (c : cmd) (content_obj : obj) : M unit :=
  match c with
  | EvalStart =>
      let* b := m_read ss_in_expr in
      if b then fail InvalidState "Already in expression evaluation?" else set_in_expr true
  | EvalOutput =>
      let* s := get_state in
      match ss_eval s with
      | [] => ret tt
      | _ =>
          let* o := pop_eval in
          match o with
          | OVoid => ret tt
          | _ => m_push_output (OVal (VString (if_display I o)))
          end
      end
  | EvalEnd =>
      let* b := m_read ss_in_expr in
      if negb b then fail InvalidState "Not in expression evaluation mode" else set_in_expr false
  | Duplicate =>
      let* o := peek_eval in
      match o with
      | None => panic "control_logic.rs:Duplicate:peek_evaluation_stack().unwrap()"
      | Some x => push_eval x
      end
  | PopEvaluatedValue => let* _ := pop_eval in ret tt
  | PopFunction | PopTunnel =>
      let pop_type := match c with PopFunction => PFunction | _ => PTunnel end in
      let* override :=
        (match c with
         | PopTunnel =>
             let* popped := pop_eval in
             match popped with
             | OVal (VDivert p) => ret (Some p)
             | OVoid => ret None
             | _ => fail InvalidState "Expected void if ->-> doesn't override target"
             end
         | _ => ret None
         end) in
      let* exited := try_exit_function_evaluation_from_game in
      if exited then ret tt else
      let* e := m_read (fun s => cs_cur_element (ss_cs s)) in
      let* canpop := m_read (fun s => cs_can_pop (ss_cs s)) in
      if negb (pushpop_eqb (el_type e) pop_type) || negb canpop then
        (* building the message does names.get(..).unwrap() / expected.unwrap():
           a FunctionEvaluationFromGame frame that can pop has no name => panic *)
        if canpop && pushpop_eqb (el_type e) PFunctionEvalFromGame
        then panic "control_logic.rs:PopFunction:expected.unwrap()"
        else fail InvalidState "Found pop, when expected another"
      else
        let* _ := pop_callstack None in
        match override with
        | Some p =>
            let* root := m_root in
            let* ptr := lift (pointer_at_path root p) in
            mod_state (fun s => s <| ss_diverted := ptr |>)
        | None => ret tt
        end
  | BeginString =>
      let* _ := m_push_output content_obj in
      let* b := m_read ss_in_expr in
      if negb b then fail InvalidState "Expected to be in an expression when evaluating a string"
      else set_in_expr false
  | EndString =>
      let* s := get_state in
      let '(consumed, strs, tags) := end_string_scan (rev (ss_out s)) 0 [] [] in
      let* _ := mod_state (pop_from_output consumed) in
      let* _ := mfor tags m_push_output in
      let sb := flat_map (if_display I) strs in
      let* _ := set_in_expr true in
      push_eval (OVal (VString sb))
  | NoOp => ret tt
  | ChoiceCount =>
      let* s := get_state in push_eval (OVal (VInt (Z.of_nat (length (ss_choices s)))))
  | Turns =>
      let* s := get_state in
      let* t := lift (i32_add I "control_logic.rs:Turns:current_turn + 1" (ss_turn s) 1%Z) in
      push_eval (OVal (VInt t))
  | TurnsSince | ReadCount =>
      let* target := pop_eval in
      match target with
      | OVal (VDivert p) =>
          let* root := m_root in
          let r := content_at_path root p in
          let cont := if negb (sr_approx r) && is_cont_at root (sr_pos r) then Some (sr_pos r) else None in
          let* n :=
            (match cont with
             | Some cp =>
                 let* s := get_state in
                 match c with
                 | TurnsSince => lift (turns_since_for root s cp)
                 | _ => lift (visit_count_for root s cp)
                 end
             | None =>
                 let* _ := add_error "Failed to find container for lookup" true in
                 ret (match c with TurnsSince => (-1)%Z | _ => 0%Z end)
             end) in
          push_eval (OVal (VInt n))
      | _ => fail InvalidState "TURNS_SINCE expected a divert target"
      end
  | Random =>
      let* omax := pop_eval in
      let* omin := pop_eval in
      match omin, omax with
      | OVal (VInt mn), OVal (VInt mx) =>
          (* `max_value - min_value + 1`: unchecked i32 arithmetic *)
          let* d := lift (i32_add I "control_logic.rs:Random:max - min" mx (- mn)%Z) in
          let* range := lift (i32_add I "control_logic.rs:Random:+ 1" d 1%Z) in
          if (range <=? 0)%Z then fail InvalidState "RANDOM was called with minimum >= maximum" else
          let* s := get_state in
          let* seed := lift (i32_add I "control_logic.rs:Random:story_seed + previous_random"
                                     (ss_seed s) (ss_prev_random s)) in
          let nr := if_rng_u32 I seed in
          let chosen := ((nr mod (to_u32 range)) + mn)%Z in
          let* chosen' := lift (i32_add I "control_logic.rs:Random:+ min_value" (wrap32 (nr mod (to_u32 range))) mn) in
          let* _ := push_eval (OVal (VInt chosen')) in
          let* np := lift (i32_add I "control_logic.rs:Random:previous_random + 1" (ss_prev_random s) 1%Z) in
          mod_state (fun s => s <| ss_prev_random := np |>)
      | OVal (VInt _), _ => fail InvalidState "Invalid value for the maximum parameter of RANDOM(min, max)"
      | _, _ => fail InvalidState "Invalid value for the minimum parameter of RANDOM(min, max)"
      end
  | SeedRandom =>
      let* o := pop_eval in
      match o with
      | OVal (VInt sd) =>
          let* _ := mod_state (fun s => s <| ss_seed := sd |> <| ss_prev_random := 0%Z |>) in
          push_eval OVoid
      | _ => fail InvalidState "Invalid value passed to SEED_RANDOM"
      end
  | VisitIndex =>
      let* cp := m_read ss_cur_pointer in
      match ptr_c cp with
      | None => panic "control_logic.rs:VisitIndex:container.unwrap()"
      | Some c =>
          let* root := m_root in
          let* s := get_state in
          let* n := lift (visit_count_for root s c) in
          push_eval (OVal (VInt (n - 1)%Z))
      end
  | SequenceShuffleIndex =>
      let* i := next_sequence_shuffle_index in push_eval (OVal (VInt i))
  | StartThread => ret tt
  | Done =>
      let* can := m_read (fun s => cs_can_pop_thread (ss_cs s)) in
      if can then m_cs_res cs_pop_thread
      else
        let* _ := mod_state (fun s => s <| ss_safe_exit := true |>) in
        m_state_res (fun s => ss_set_cur_pointer s ptr_null)
  | End => m_state_res force_end
  | ListFromInt =>
      let* oi := pop_eval in
      let* on := pop_eval in
      match oi with
      | OVal (VInt iv) =>
          match on with
          | OVal (VString nm) =>
              let* defs := m_defs in
              let* v := lift (if_list_from_int I defs iv nm) in
              push_eval (OVal v)
          | _ => panic "control_logic.rs:ListFromInt:list_name_val.unwrap()"
          end
      | _ => fail InvalidState "Passed non-integer when creating a list element from a numerical value."
      end
  | ListRange =>
      let* omax := pop_eval in
      let* omin := pop_eval in
      let* ol := pop_eval in
      match ol, omin, omax with
      | OVal (VList l), OVal mn, OVal mx => push_eval (OVal (VList (if_list_range I l mn mx)))
      | _, _, _ => fail InvalidState "Expected List, minimum and maximum for LIST_RANGE"
      end
  | ListRandom =>
      let* o := pop_eval in
      match o with
      | OVal (VList l) =>
          if if_list_is_empty I l then push_eval (OVal (VList (mkList [] [] []))) else
          let* s := get_state in
          let* seed := lift (i32_add I "control_logic.rs:ListRandom:story_seed + previous_random"
                                     (ss_seed s) (ss_prev_random s)) in
          let nr := if_rng_u32 I seed in
          let* defs := m_defs in
          let* nl := lift (if_list_random I defs l nr) in
          let* _ := mod_state (fun s => s <| ss_prev_random := wrap32 nr |>) in
          push_eval (OVal (VList nl))
      | _ => fail InvalidState "Expected list for LIST_RANDOM"
      end
  | BeginTag => m_push_output content_obj
  | EndTag =>
      let* s := get_state in
      if in_string_evaluation s then
        let* (consumed, strs) := lift (end_tag_scan (rev (ss_out s)) 0 []) in
        let* _ := mod_state (pop_from_output consumed) in
        push_eval (OTag (clean_output_whitespace (concat strs)))
      else m_push_output content_obj
  end.

(* perform_logic_and_flow_control: returns is_logic_or_flow_control *)
Definition perform_logic_and_flow_control (opos : option pos) : M bool :=
  match opos with
  | None => ret false
  | Some cpos =>
      let* root := m_root in
      match obj_at root cpos with
      | None => panic "model:perform_logic:invalid position"
      | Some (ODivert d) =>
          let* proceed :=
            (if d_cond d then let* o := pop_eval in let* b := lift (is_truthy o) in ret b else ret true) in
          if negb proceed then ret true else
          let* early :=
            (match d_var d with
             | Some vn =>
                 let* s := get_state in
                 let* defs := m_defs in
                 let* vc := lift (get_variable_with_name I defs s vn (-1)%Z) in
                 match vc with
                 | Some (VDivert tp) =>
                     let* ptr := lift (pointer_at_path root tp) in
                     let* _ := mod_state (fun s => s <| ss_diverted := ptr |>) in ret false
                 | Some _ => fail InvalidState "Tried to divert to a target from a variable, but the variable didn't contain a divert target"
                 | None => fail InvalidState "Tried to divert using a target from a variable that could not be found"
                 end
             | None =>
                 if d_external d then
                   match d_target d with
                   | None => panic "control_logic.rs:get_target_path_string().unwrap()"
                   | Some tp =>
                       let* nm := lift (divert_target_path_string root cpos tp) in
                       let* _ := call_external_function nm (d_exargs d) in ret true
                   end
                 else
                   match d_target d with
                   | None => panic "divert.rs:get_target_pointer:target_path.unwrap()"
                   | Some tp =>
                       let* ptr := lift (divert_target_pointer root cpos tp) in
                       let* _ := mod_state (fun s => s <| ss_diverted := ptr |>) in ret false
                   end
             end) in
          if early then ret true else
          let* _ := when (d_pushes d)
                      (let* s := get_state in
                       m_cs_res (fun cs => cs_push cs (d_type d) 0 (Z.of_nat (length (ss_out s))))) in
          ret true
      | Some (OCmd c) => let* _ := do_command c (OCmd c) in ret true
      | Some (OVarAss name is_new is_global) =>
          let* o := pop_eval in
          match o with
          | OVal v =>
              let* defs := m_defs in
              let* _ := m_state_res (fun s => assign I defs s name is_new is_global v) in ret true
          | _ => panic "control_logic.rs:VariableAssignment:downcast::<Value>().unwrap()"
          end
      | Some (OVarRef name) =>
          let* s := get_state in
          let* defs := m_defs in
          let* v := lift (get_variable_with_name I defs s name (-1)%Z) in
          let* found :=
            (match v with
             | Some x => ret x
             | None => let* _ := add_error "Variable not found. Using default value of 0 (false)." true in ret (VInt 0)
             end) in
          let* _ := push_eval (OVal found) in ret true
      | Some (OReadCount p) =>
          let* r := lift (resolve_path root cpos p) in
          if is_cont_at root (sr_pos r) then
            let* s := get_state in
            let* n := lift (visit_count_for root s (sr_pos r)) in
            let* _ := push_eval (OVal (VInt n)) in ret true
          else panic "variable_reference.rs:get_container_for_count:container().unwrap()"
      | Some (ONative op) =>
          let* params := pop_eval_multiple (if_nparams I op) in
          let* defs := m_defs in
          let* r := lift (if_call I defs op params) in
          let* _ := push_eval r in ret true
      | Some _ => ret false
      end
  end.

(* ---------- Story::step ---------- *)
Fixpoint enter_containers (fuel : nat) (p : pointer) : M pointer :=
  match fuel with
  | O => panic "model:step:enter_containers out of fuel"
  | S f =>
      let* root := m_root in
      match ptr_resolve root p with
      | Some op =>
          match cont_at root op with
          | Some c =>
              let* _ := visit_container op true in
              match c_content c with
              | [] => ret p
              | _ => enter_containers f (ptr_start_of op)
              end
          | None => ret p
          end
      | None => ret p
      end
  end.

Fixpoint container_depth (c : container) : nat :=
  let 'Cont _ _ _ _ content named := c in
  S (fold_left (fun acc o => match o with OCont c' => Nat.max acc (container_depth c') | _ => acc end)
               content
               ((fix go (l : list (text * container)) : nat :=
                   match l with [] => O | (_, c') :: r => Nat.max (container_depth c') (go r) end) named)).

Definition take_fuel : M bool :=
  let* w := get in
  if N.eqb (w_fuel w) 0 then ret false
  else let* _ := modify (fun w => w <| w_fuel ::= N.pred |>) in ret true.

Definition step : M unit :=
  let* have := take_fuel in
  if negb have then fail InvalidState "VERIF: out of fuel" else
  let* p0 := m_read ss_cur_pointer in
  if ptr_is_null p0 then ret tt else
  let* root := m_root in
  let* p := enter_containers (S (container_depth root)) p0 in
  let* _ := m_state_res (fun s => ss_set_cur_pointer s p) in
  let cur := ptr_resolve root p in
  let* is_logic := perform_logic_and_flow_control cur in
  let* pn := m_read ss_cur_pointer in
  if ptr_is_null pn then ret tt else
  let curobj := match cur with Some cp => obj_at root cp | None => None end in
  let* (curobj2, add) :=
    (match cur, curobj with
     | Some cp, Some (OChoicePoint flags poc) =>
         let* ch := process_choice cp flags poc in
         let* _ := (match ch with
                    | Some c => mod_state (fun s => ss_set_choices s (ss_choices s ++ [c]))
                    | None => ret tt
                    end) in
         ret (None, false)
     | _, Some (OCont _) => ret (curobj, false)
     | _, _ => ret (curobj, negb is_logic)
     end) in
  let* _ :=
    (if add then
       match curobj2 with
       | None => panic "progress.rs:step:current_content_obj.unwrap()"
       | Some o =>
           let* o' :=
             (match o with
              | OVal (VVarPtr name ci) =>
                  if (ci =? -1)%Z then
                    let* c := m_read (fun s => cs_context_for_variable (ss_cs s) name) in
                    ret (OVal (VVarPtr name c))
                  else ret o
              | _ => ret o
              end) in
           let* inexpr := m_read ss_in_expr in
           if inexpr then push_eval o' else m_push_output o'
       end
     else ret tt) in
  let* _ := next_content in
  match curobj2 with
  | Some (OCmd StartThread) => m_cs_res cs_push_thread
  | _ => ret tt
  end.

End Step.
