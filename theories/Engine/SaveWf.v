(* Engine/SaveWf.v — what a save / load round trip does to a state ([norm_*]: the
   fields the format drops are replaced by what the loader puts there) and the
   EXECUTABLE well-formedness predicate under which the round-trip theorems of
   Engine/SaveProofs.v hold ([wf_*]: bool-valued, so that the correspondence
   check can evaluate them on every state it reaches).  Model file: no proofs. *)
From Ink.Engine Require Export Save.
From Ink.Data Require Import InkList.

(* jtoken_to_runtime_object(..)?.downcast::<Value>() as a function *)
Definition read_value (j : json) : Res value :=
  do o <- jtoken_to_obj j None;
  match o with OVal v => Ok v | _ => Err BadJson (T "not a value") end.

(* ---------- executable well-formedness ---------- *)
Definition no_dot (t : text) : bool := negb (existsb (N.eqb c_dot) t).

Definition wf_comp_b (c : comp) : bool :=
  match c with
  | CIdx i => (i <? 18446744073709551616)%N
  | CName n => negb (is_nil n) && no_dot n && (match parse_usize n with None => true | Some _ => false end)
  end.
(* a path as Object::get_path / the loader produce them: no cached text, printable components *)
Definition wf_path_b (p : path) : bool :=
  (match p_cache p with None => true | Some _ => false end)
  && forallb wf_comp_b (p_comps p)
  && (negb (is_nil (p_comps p)) || negb (p_rel p)).

Definition wf_item_b (it : listitem) : bool :=
  match it_origin it with
  | Some o => no_dot o && no_dot (it_name it)
  | None => false
  end.
Fixpoint items_nodup_b (l : list (listitem * Z)) : bool :=
  match l with
  | [] => true
  | (k, _) :: r => negb (existsb (fun kv : listitem * Z => InkList.item_eqb k (fst kv)) r) && items_nodup_b r
  end.
Definition wf_list_b (l : inklist) : bool :=
  forallb (fun kv : listitem * Z => wf_item_b (fst kv) && in_i32 (snd kv)) (l_items l)
  && items_nodup_b (l_items l).

Definition wf_value_b (v : value) : bool :=
  match v with
  | VBool _ => true
  | VInt z => in_i32 z
  | VFloat b => f32_bits_finite b
  | VString _ => true
  | VList l => wf_list_b l
  | VDivert p => wf_path_b p
  | VVarPtr _ ci => in_i32 ci
  end.

(* objects that the engine puts on an output stream / the evaluation stack *)
Definition wf_stream_obj_b (o : obj) : bool :=
  match o with
  | OVal v => wf_value_b v
  | OGlue | OVoid | OCmd _ | ONative _ | OTag _ => true
  | _ => false
  end.

Fixpoint keys_nodup_b {V} (l : list (text * V)) : bool :=
  match l with
  | [] => true
  | (k, _) :: r => negb (assoc_mem k r) && keys_nodup_b r
  end.

Definition wf_valmap_b (m : list (text * value)) : bool :=
  keys_nodup_b m && forallb (fun kv : text * value => wf_value_b (snd kv)) m.
Definition wf_intmap_b (m : list (text * Z)) : bool :=
  keys_nodup_b m && forallb (fun kv : text * Z => in_i32 (snd kv)) m.

Definition pointer_eqb (p q : pointer) : bool :=
  (match ptr_c p, ptr_c q with
   | Some a, Some b => pos_eqb a b
   | None, None => true
   | _, _ => false
   end) && (ptr_i p =? ptr_i q)%Z.

Section Tree.
Variable root : container.

(* the pointer of a callstack element survives cPath / idx *)
Definition elem_ptr_ok_b (p : pointer) : bool :=
  match ptr_c p with
  | None => true
  | Some cp =>
      in_i32 (ptr_i p) &&
      match get_path root cp with
      | Ok pa =>
          let r := content_at_path root (path_parse (Some (path_string pa))) in
          pos_eqb (sr_pos r) cp && is_cont_at root cp
      | _ => false
      end
  end.

(* previous_pointer is written as the path of the object it resolves to and read
   back with pointer_at_path: what comes back *)
Definition reload_prev (p : pointer) : Res pointer :=
  if ptr_is_null p then Ok ptr_null else
  match ptr_resolve root p with
  | Some pos => do pa <- get_path root pos; pointer_at_path root (path_parse (Some (path_string pa)))
  | None => Err BadJson (T "previous pointer does not resolve")
  end.
Definition prev_ok_b (p : pointer) : bool :=
  match reload_prev p with
  | Ok q => match ptr_resolve root p, ptr_resolve root q with
            | Some a, Some b => pos_eqb a b         (* the same OBJECT: all the engine reads of it *)
            | None, None => true
            | _, _ => false
            end
  | _ => false
  end.

(* currentDivertTarget: Pointer::get_path, then pointer_at_path *)
Definition reload_diverted (p : pointer) : Res pointer :=
  do pa <- ptr_path root p;
  match pa with
  | Some x => pointer_at_path root (path_parse (Some (path_string x)))
  | None => Ok ptr_null
  end.
Definition diverted_ok_b (p : pointer) : bool :=
  match reload_diverted p with Ok q => pointer_eqb p q | _ => false end.

Definition wf_element_b (e : element) : bool :=
  elem_ptr_ok_b (el_ptr e) && wf_valmap_b (el_temps e) && in_i32 (el_fstart e).
(* threads and call stacks are never empty in a running story (the loader may refuse empty ones) *)
Definition wf_thread_b (t : thread) : bool :=
  negb (is_nil (th_cs t))
  && forallb wf_element_b (th_cs t) && prev_ok_b (th_prev t) && (th_index t <? 9223372036854775808)%N.
Definition wf_callstack_b (cs : callstack) : bool :=
  negb (is_nil (cs_threads cs))
  && forallb wf_thread_b (cs_threads cs) && (cs_counter cs <? 9223372036854775808)%N.

End Tree.

Section Norm.
Variable sw : save_switches.
Variable root : container.

(* ---------- what comes back from a save ---------- *)
Definition norm_list (l : inklist) : inklist :=
  mkList (l_items l) []
         (if ssw_origins_written sw && is_nil (l_items l) then l_init_names l else []).
Definition norm_value (v : value) : value :=
  match v with VList l => VList (norm_list l) | _ => v end.
Definition norm_obj (o : obj) : obj :=
  match o with OVal v => OVal (norm_value v) | _ => o end.
Definition norm_valmap (m : list (text * value)) : list (text * value) :=
  map (fun kv : text * value => (fst kv, norm_value (snd kv))) m.

(* a null pointer is not written at all: its index comes back as -1 *)
Definition norm_ptr (p : pointer) : pointer := if ptr_is_null p then ptr_null else p.
Definition norm_element (e : element) : element :=
  mkElement (norm_ptr (el_ptr e)) (el_inexpr e) (norm_valmap (el_temps e)) (el_type e) 0
            (if ssw_fstart_saved sw then el_fstart e else 0%Z).
Definition norm_prev (p : pointer) : pointer :=
  match reload_prev root p with Ok q => q | _ => ptr_null end.
Definition norm_thread (t : thread) : thread :=
  mkThread (map norm_element (th_cs t)) (norm_prev (th_prev t)) (th_index t).
Definition norm_callstack (cs : callstack) : callstack :=
  mkCallstack (map norm_thread (cs_threads cs)) (cs_counter cs).

(* a pending choice; [ncs]: the (normalised) call stack of its flow — the loader
   takes the thread from there when one with the same index exists *)
Definition norm_choice (ncs : callstack) (c : choice) : choice :=
  match ch_thread c with
  | Some th =>
      mkChoice (ch_target c) (ch_source c)
               (ssw_invis_written sw && ssw_invis_read sw && ch_invisible c)
               (ch_tags c)
               (Some (match cs_thread_with_index ncs (th_index th) with
                      | Some t => t
                      | None => norm_thread th
                      end))
               (th_index th) (ch_text c) (ch_index c)
  | None => c
  end.

(* [cur_cs]: call stack of the current flow (shared by a stale alias entry) *)
Definition norm_flow (cur_cs : callstack) (name : text) (f : flow) : flow :=
  let ncs := norm_callstack (if fl_alias_cs f then cur_cs else fl_cs f) in
  mkFlow name ncs (map norm_obj (fl_out f)) (map (norm_choice ncs) (fl_choices f)) false.

(* the "flows" object as the loader sees it: current flow first, every entry of
   named_flows inserted after it UNDER ITS KEY (an entry with the key of the
   current flow replaces it: D12) *)
Definition flows_as_saved (s : sstate) : list (text * flow) :=
  let ccs := fl_cs (ss_flow s) in
  fold_left (fun acc (kf : text * flow) => assoc_set (fst kf) (norm_flow ccs (fst kf) (snd kf)) acc)
            (match ss_named s with Some nf => nf | None => [] end)
            [(fl_name (ss_flow s), norm_flow ccs (fl_name (ss_flow s)) (ss_flow s))].

(* globals: refilled in the order of the TARGET's defaults; a global equal to its
   default was not written and comes back as the default *)
Definition norm_globals (defaults globals : list (text * value)) : list (text * value) :=
  fold_left (fun acc (kd : text * value) =>
               assoc_set (fst kd)
                 (match assoc (fst kd) globals with
                  | Some v => if val_equal sw v (snd kd) then snd kd else norm_value v
                  | None => snd kd
                  end) acc)
            defaults [].

(* the state of the target story [t] after loading the save of [s].  What the
   loader does not touch stays as it is in [t]: did_safe_exit, errors, warnings,
   the patch, the defaults — and the diverted pointer when the save has none. *)
Definition norm_sstate (t s : sstate) : sstate :=
  let fl := flows_as_saved s in
  let cur := fl_name (ss_flow s) in
  let '(flow', named') :=
    if Nat.eqb (length fl) 1 then
      (match fl with (_, f) :: _ => f | [] => ss_flow t end, None)
    else
      match assoc cur fl with
      | Some f => (f, Some (assoc_remove cur fl))
      | None => (ss_flow t, Some fl)
      end in
  mkSstate flow' (ss_safe_exit t)
           (mkVarstate (norm_globals (vs_defaults (ss_vars t)) (vs_globals (ss_vars s)))
                       (vs_defaults (ss_vars t)) (vs_batch (ss_vars t)) (vs_changed (ss_vars t))
                       (vs_patch (ss_vars t)))
           (map norm_obj (ss_eval s)) (ss_errors t) (ss_warnings t) (ss_patch t) named'
           (if ptr_is_null (ss_diverted s) then ss_diverted t else ss_diverted s)
           (ss_visits s) (ss_turns s) (ss_turn s) (ss_seed s) (ss_prev_random s).

Definition norm_save (t w : world) : world :=
  t <| w_state := norm_sstate (w_state t) (w_state w) |>.

(* ---------- well-formedness of a state to be saved ---------- *)
Definition wf_choice_b (c : choice) : bool :=
  match ch_thread c with
  | Some th => wf_thread_b root th && wf_path_b (ch_target c)
               && (ch_index c <? 18446744073709551616)%N
  | None => false
  end.

(* thread index of a pending choice (fork_thread gives every choice a fresh one) *)
Definition choice_tidx (c : choice) : N :=
  match ch_thread c with Some th => th_index th | None => 0%N end.
Fixpoint nodup_N_b (l : list N) : bool :=
  match l with
  | [] => true
  | x :: r => negb (existsb (N.eqb x) r) && nodup_N_b r
  end.

Definition wf_flow_b (cur_cs : callstack) (f : flow) : bool :=
  wf_callstack_b root (if fl_alias_cs f then cur_cs else fl_cs f)
  && forallb wf_stream_obj_b (fl_out f)
  && forallb wf_choice_b (fl_choices f)
  && nodup_N_b (map choice_tidx (fl_choices f)).

Definition wf_sstate_b (s : sstate) : bool :=
  let ccs := fl_cs (ss_flow s) in
  wf_flow_b ccs (ss_flow s)
  && (match ss_named s with
      | Some nf => forallb (fun kf : text * flow => wf_flow_b ccs (snd kf)) nf && keys_nodup_b nf
      | None => true
      end)
  && wf_valmap_b (vs_globals (ss_vars s))
  && keys_nodup_b (vs_defaults (ss_vars s))
  && forallb wf_stream_obj_b (ss_eval s)
  && diverted_ok_b root (ss_diverted s)
  && wf_intmap_b (ss_visits s) && wf_intmap_b (ss_turns s)
  && in_i32 (ss_turn s) && in_i32 (ss_seed s) && in_i32 (ss_prev_random s).

End Norm.

Definition wf_world_b (w : world) : bool := wf_sstate_b (root_of w) (w_state w).

(* a save point: between host calls, not inside evaluate_function *)
Definition no_eval_from_game (cs : callstack) : bool :=
  forallb (fun t => forallb (fun e => negb (pushpop_eqb (el_type e) PFunctionEvalFromGame)) (th_cs t))
          (cs_threads cs).
Definition at_save_point (w : world) : bool :=
  (w_rcc w =? 0)%N && negb (w_async w)
  && (match w_snapshot w with None => true | Some _ => false end)
  && (match ss_patch (w_state w) with None => true | Some _ => false end)
  && no_eval_from_game (fl_cs (ss_flow (w_state w))).

(* extra (executable) hypotheses of the re-save theorem: the globals are exactly the declared
   ones, in the order of the defaults; every default equals itself under val_equal (no NaN) *)
Fixpoint texts_eq_b (a b : list text) : bool :=
  match a, b with
  | [], [] => true
  | x :: a', y :: b' => text_eqb x y && texts_eq_b a' b'
  | _, _ => false
  end.
Definition resave_hyp_b (sw : save_switches) (w : world) : bool :=
  let v := ss_vars (w_state w) in
  texts_eq_b (map fst (vs_globals v)) (map fst (vs_defaults v))
  && forallb (fun kd : text * value => val_equal sw (snd kd) (snd kd)) (vs_defaults v)
  && ptr_is_null (ss_diverted (w_state w)).
