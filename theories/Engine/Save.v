(* Engine/Save.v — executable model of the save format (property C02).
   Model file: no proofs.

   Rust counterparts
     story_state.rs   StoryState::{to_json, write_json, load_json, load_json_obj}
     flow.rs          Flow::{write_json, from_json, load_flow_choice_threads}
     callstack.rs     Thread::{write_json, from_json}, CallStack::{write_json, load_json}
     variables_state.rs  VariablesState::{write_json, val_equal, load_json}
     json/json_write.rs  write_rtobject (value / stream kinds), write_ink_list, write_choice,
                         write_dictionary_values, write_int_dictionary, write_list_rt_objs
     json/json_read.rs   (reading side: Json/StdLoad.v — jtoken_to_obj, jarray_to_obj_list,
                         jobject_to_hashmap_values, jobject_to_int_hashmap)
     choice.rs        Choice::new_from_json
     story/state.rs   Story::{save_state, load_state}

   A save is a [json] term; objects are association lists in serde_json's
   insertion order (the harness build enables `preserve_order`); every
   `Map::insert` is [assoc_set] (replace the value, keep the position).  The
   text round trip `to_string` / `from_str` is serde_json's and is the identity
   on these terms (finite f32 -> f64 -> shortest decimal -> f64 -> f32 is exact;
   a NON-finite float is written as `null` — or substituted, see [write_value]).
   HashMap iteration order is the order of the model's association lists
   (the correspondence check compares saves as sorted maps).

   What the format does NOT carry is visible here as a field that the writer
   never reads and the loader fills with a constant:
     Element.evaluation_stack_height_when_pushed -> 0
     Element.function_start_in_output_stream -> 0   unless [ssw_fstart_saved]
     StoryState.did_safe_exit, current_errors, current_warnings, patch   -> untouched by load
     Choice.is_invisible_default   -> false  (D10)   unless [ssw_invis_*]
     InkList.origins -> []; initial_origin_names only from "origins" (D11), which is written
                        only when [ssw_origins_written]
     the stale alias entry of the current flow in named_flows is written OVER the live flow (D12)
   The switches are regenerated from the source (Gen/SaveGen.v).               *)
From Ink.Engine Require Export CallStack.
From Ink.Data Require Import InkList.
From Ink.Json Require Export StdLoad.
From Ink.Gen Require Import PathGen CmdGen NativeGen SaveGen.

Record save_switches := mkSaveSw {
  ssw_invis_written : bool;      (* write_choice writes "isInvisibleDefault":true for an invisible choice *)
  ssw_invis_read : bool;         (* jobject_to_choice reads it back *)
  ssw_origins_written : bool;    (* write_ink_list writes "origins" for an empty list with origin names *)
  ssw_list_eq_origins : bool;    (* val_equal compares the origin names of two empty lists *)
  ssw_float_eq_bits : bool;      (* val_equal compares floats bit for bit (f32 `==` otherwise) *)
  ssw_nonfinite_subst : bool;    (* inf / NaN are written as +-3.4e38 / 0.0 (`null` otherwise) *)
  ssw_fstart_saved : bool;       (* Element.function_start_in_output_stream is written ("fnStart") and read *)
  ssw_empty_thread_rejected : bool;   (* Thread::from_json refuses a thread without call stack elements *)
  ssw_no_threads_rejected : bool      (* CallStack::load_json refuses a call stack without threads *)
}.

(* ---------- small helpers ---------- *)
Definition jfield (k : string) (v : json) : text * json := (T k, v).

(* f32::is_finite on the bit pattern *)
Definition f32_bits_finite (b : Z) : bool := negb (Z.land (Z.shiftr b 23) 255 =? 255)%Z.
Definition f32_bits_nan (b : Z) : bool :=
  (Z.land (Z.shiftr b 23) 255 =? 255)%Z && negb (Z.land b 8388607 =? 0)%Z.
(* IEEE `==` on bit patterns: NaN differs from everything, +0 == -0 *)
Definition f32_bits_ieee_eqb (a b : Z) : bool :=
  if f32_bits_nan a || f32_bits_nan b then false
  else if (Z.land a 2147483647 =? 0)%Z && (Z.land b 2147483647 =? 0)%Z then true
  else (a =? b)%Z.

Definition pushpop_ord (t : pushpop) : Z :=
  match t with PTunnel => 0 | PFunction => 1 | PFunctionEvalFromGame => 2 end%Z.
(* PushPopType::from_value *)
Definition pushpop_from_value (z : Z) : Res pushpop :=
  if (z =? 0)%Z then Ok PTunnel else if (z =? 1)%Z then Ok PFunction
  else if (z =? 2)%Z then Ok PFunctionEvalFromGame
  else Err BadJson (T "Unexpected PushPopType value").

Definition is_nil {A} (l : list A) : bool := match l with [] => true | _ => false end.

Definition oget (o : list (text * json)) (k : string) : option json := assoc (T k) o.
Definition obind {A B} (o : option A) (f : A -> option B) : option B :=
  match o with Some a => f a | None => None end.

Section Save.
Variable panics : ssite -> bool.
Variable sw : save_switches.

(* a modelled unwrap site of the save / load code *)
Definition ssite_res {A} (s : ssite) (o : option A) : Res A :=
  match o with
  | Some a => Ok a
  | None => if panics s then Panic (T (ssite_name s)) else Err BadJson (T (ssite_name s))
  end.

(* ================================================================= *)
(*                              WRITING                              *)
(* ================================================================= *)

(* json_write.rs::write_ink_list.  `origins` (the Vec<ListDefinition>) is never
   written; with the repair, the origin NAMES of an empty list are. *)
Definition write_ink_list (l : inklist) : json :=
  let jl := fold_left (fun acc (kv : listitem * Z) =>
                         assoc_set (InkList.item_full_name (fst kv)) (JInt (snd kv)) acc)
                      (l_items l) [] in
  JObj (jfield "list" (JObj jl) ::
        (if ssw_origins_written sw && is_nil (l_items l) && negb (is_nil (l_init_names l))
         then [jfield "origins" (JArr (map JStr (l_init_names l)))] else [])).

(* write_rtobject on a Value.  serde_json's `json!(f32)` is Number::from_f32,
   which is None (=> Value::Null) for NaN and the infinities. *)
Definition write_value (v : value) : json :=
  match v with
  | VBool b => JBool b
  | VInt z => JInt z
  | VFloat b =>
      if f32_bits_finite b then JFloat b
      else if ssw_nonfinite_subst sw then
        (if f32_bits_nan b then JFloat 0                       (* 0.0 *)
         else if (b =? 2139095040)%Z then JFloat 2139081118    (* +inf ->  3.4e38 *)
         else JFloat 4286564766)                               (* -inf -> -3.4e38 *)
      else JNull
  | VString s => if str_is_newline s then JStr [c_nl] else JStr (c_caret :: s)
  | VList l => write_ink_list l
  | VDivert p => JObj [jfield "^->" (JStr (path_string p))]
  | VVarPtr n ci => JObj [jfield "^var" (JStr n); jfield "ci" (JInt ci)]
  end.

(* a Choice object that came out of a save (only possible in a stream) *)
Definition write_saved_choice (c : saved_choice) : json :=
  JObj [jfield "text" (JStr (sc_text c)); jfield "index" (JInt (sc_index c));
        jfield "originalChoicePath" (JStr (sc_source_path c));
        jfield "originalThreadIndex" (JInt (sc_orig_thread c));
        jfield "targetPath" (JStr (path_string (sc_target c)));
        jfield "tags" (JArr (map JStr (sc_tags c)))].

(* write_rtobject for the kinds that can sit in an output stream / on the
   evaluation stack.  Containers, diverts, choice points and read-count
   references are written relative to their place in the content tree; the
   engine never puts them on a stream (it executes them), and a detached one
   has no parent to compute a path from.  They are a distinguished outcome
   here, excluded by [wf_stream_obj]. *)
Definition write_rtobject (o : obj) : Res json :=
  match o with
  | OVal v => Ok (write_value v)
  | OGlue => Ok (JStr (T "<>"))
  | OCmd c => Ok (JStr (cmd_name c))
  | ONative op => let n := nop_name op in Ok (JStr (if text_eqb n (T "^") then T "L^" else n))
  | OVarRef name => Ok (JObj [jfield "VAR?" (JStr name)])
  | OVarAss name is_new is_global =>
      Ok (JObj ((if is_global then jfield "VAR=" (JStr name) else jfield "temp=" (JStr name))
                :: (if is_new then [] else [jfield "re" (JBool true)])))
  | OVoid => Ok (JStr (T "void"))
  | OTag t => Ok (JObj [jfield "#" (JStr t)])
  | OChoice c => Ok (write_saved_choice c)
  | OCont _ | ODivert _ | OChoicePoint _ _ | OReadCount _ =>
      Err BadJson (T "model:write_rtobject:object kind that only exists inside the content tree")
  end.

Definition write_list_rt_objs (l : list obj) : Res json :=
  do js <- mapM write_rtobject l; Ok (JArr js).

Definition write_dictionary_values (m : list (text * value)) : json :=
  JObj (fold_left (fun acc (kv : text * value) => assoc_set (fst kv) (write_value (snd kv)) acc) m []).

Definition write_int_dictionary (m : list (text * Z)) : json :=
  JObj (fold_left (fun acc (kv : text * Z) => assoc_set (fst kv) (JInt (snd kv)) acc) m []).

Section Tree.
Variable root : container.

(* one callstack Element *)
Definition write_element (e : element) : Res json :=
  do ptr_part <- match ptr_c (el_ptr e) with
                 | None => Ok []
                 | Some cp =>
                     do p <- get_path root cp;
                     Ok [jfield "cPath" (JStr (path_string p)); jfield "idx" (JInt (ptr_i (el_ptr e)))]
                 end;
  Ok (JObj (ptr_part
            ++ [jfield "exp" (JBool (el_inexpr e)); jfield "type" (JInt (pushpop_ord (el_type e)))]
            ++ (if ssw_fstart_saved sw && negb (el_fstart e =? 0)%Z then [jfield "fnStart" (JInt (el_fstart e))] else [])
            ++ (if is_nil (el_temps e) then [] else [jfield "temp" (write_dictionary_values (el_temps e))]))).

(* Thread::write_json *)
Definition write_thread (t : thread) : Res json :=
  do els <- mapM write_element (th_cs t);
  do prev <- (if ptr_is_null (th_prev t) then Ok []
              else
                do pos <- ssite_res S_w_prev_resolve (ptr_resolve root (th_prev t));
                do p <- get_path root pos;
                Ok [jfield "previousContentObject" (JStr (path_string p))]);
  Ok (JObj ([jfield "callstack" (JArr els); jfield "threadIndex" (JInt (Z.of_N (th_index t)))] ++ prev)).

(* CallStack::write_json *)
Definition write_callstack (cs : callstack) : Res json :=
  do ts <- mapM write_thread (cs_threads cs);
  Ok (JObj [jfield "threads" (JArr ts); jfield "threadCounter" (JInt (Z.of_N (cs_counter cs)))]).

(* json_write.rs::write_choice; [orig] = original_thread_index as just set by Flow::write_json *)
Definition write_choice (c : choice) (orig : N) : json :=
  JObj ([jfield "text" (JStr (ch_text c)); jfield "index" (JInt (Z.of_N (ch_index c)));
         jfield "originalChoicePath" (JStr (ch_source c));
         jfield "originalThreadIndex" (JInt (Z.of_N orig));
         jfield "targetPath" (JStr (path_string (ch_target c)));
         jfield "tags" (JArr (map JStr (ch_tags c)))]
        ++ (if ssw_invis_written sw && ch_invisible c then [jfield "isInvisibleDefault" (JBool true)] else [])).

(* the choiceThreads loop of Flow::write_json: (choiceThreads map, choices with their
   original_thread_index set) *)
Definition write_choice_threads (cs : callstack) (choices : list choice)
  : Res (list (text * json) * list (choice * N)) :=
  foldM (fun (acc : list (text * json) * list (choice * N)) c =>
           let '(jct, done) := acc in
           do th <- ssite_res S_w_choice_thread (ch_thread c);
           let idx := th_index th in
           do jct' <- match cs_thread_with_index cs idx with
                      | Some _ => Ok jct
                      | None => do jt <- write_thread th; Ok (assoc_set (show_N idx) jt jct)
                      end;
           Ok (jct', done ++ [(c, idx)]))
        choices ([], []).

(* Flow::write_json.  [cur_cs]: the call stack of the CURRENT flow — the stale
   clone that copy_and_start_patching leaves in named_flows shares that cell. *)
Definition write_flow (cur_cs : callstack) (f : flow) : Res json :=
  let cs := if fl_alias_cs f then cur_cs else fl_cs f in
  do jcs <- write_callstack cs;
  do jout <- write_list_rt_objs (fl_out f);
  do ct <- write_choice_threads cs (fl_choices f);
  let '(jct, chs) := ct in
  Ok (JObj ([jfield "callstack" jcs; jfield "outputStream" jout]
            ++ (if is_nil jct then [] else [jfield "choiceThreads" (JObj jct)])
            ++ [jfield "currentChoices" (JArr (map (fun cn : choice * N => write_choice (fst cn) (snd cn)) chs))])).

(* the side effect of Flow::write_json on the flow itself *)
Definition flow_after_write (f : flow) : flow :=
  f <| fl_choices ::= map (fun c => match ch_thread c with
                                    | Some th => c <| ch_orig_thread := th_index th |>
                                    | None => c
                                    end) |>.

End Tree.

(* VariablesState::val_equal *)
Definition list_val_equal (a b : inklist) : bool :=
  list_eqb a b
  && (if ssw_list_eq_origins sw && is_nil (l_items a)
      then (fix eq (x y : list text) := match x, y with
                                        | [], [] => true
                                        | p :: x', q :: y' => text_eqb p q && eq x' y'
                                        | _, _ => false
                                        end) (l_init_names a) (l_init_names b)
      else true).

Definition val_equal (v d : value) : bool :=
  match v, d with
  | VBool a, VBool b => Bool.eqb a b
  | VInt a, VInt b => (a =? b)%Z
  | VFloat a, VFloat b => if ssw_float_eq_bits sw then (a =? b)%Z else f32_bits_ieee_eqb a b
  | VList a, VList b => list_val_equal a b
  | VString a, VString b => text_eqb a b
  | VDivert a, VDivert b => path_eqb a b
  | VVarPtr n c, VVarPtr m d => text_eqb n m && (c =? d)%Z
  | _, _ => false
  end.

(* VariablesState::write_json: the patch is NOT consulted *)
Definition write_vars (v : varstate) : json :=
  JObj (fold_left (fun acc (kv : text * value) =>
                     match assoc (fst kv) (vs_defaults v) with
                     | Some d => if val_equal (snd kv) d then acc
                                 else assoc_set (fst kv) (write_value (snd kv)) acc
                     | None => assoc_set (fst kv) (write_value (snd kv)) acc
                     end) (vs_globals v) []).

Definition INK_VERSION_CURRENT_ : Z := 21.     (* = Api.INK_VERSION_CURRENT (story/mod.rs) *)

(* StoryState::write_json *)
Definition write_sstate (root : container) (s : sstate) : Res json :=
  let cur := ss_flow s in
  let ccs := fl_cs cur in
  do jcur <- write_flow root ccs cur;
  do flows <- foldM (fun acc (kf : text * flow) =>
                       do j <- write_flow root ccs (snd kf); Ok (assoc_set (fst kf) j acc))
                    (match ss_named s with Some nf => nf | None => [] end)
                    [(fl_name cur, jcur)];
  do jeval <- write_list_rt_objs (ss_eval s);
  do jdiv <- (if ptr_is_null (ss_diverted s) then Ok []
              else do p <- ptr_path root (ss_diverted s);
                   match p with
                   | Some pa => Ok [jfield "currentDivertTarget" (JStr (path_string pa))]
                   | None => Panic (T "model:write_json:get_path of a non-null pointer")
                   end);
  Ok (JObj ([jfield "flows" (JObj flows);
             jfield "currentFlowName" (JStr (fl_name cur));
             jfield "variablesState" (write_vars (ss_vars s));
             jfield "evalStack" jeval]
            ++ jdiv
            ++ [jfield "visitCounts" (write_int_dictionary (ss_visits s));
                jfield "turnIndices" (write_int_dictionary (ss_turns s));
                jfield "turnIdx" (JInt (ss_turn s));
                jfield "storySeed" (JInt (ss_seed s));
                jfield "previousRandom" (JInt (ss_prev_random s));
                jfield "inkSaveVersion" (JInt ink_save_state_version);
                jfield "inkFormatVersion" (JInt INK_VERSION_CURRENT_)])).

(* Story::save_state (the state is not changed, except for the RefCell
   original_thread_index of the pending choices: [world_after_write]) *)
Definition write_state (w : world) : Res json := write_sstate (root_of w) (w_state w).

Definition world_after_write (w : world) : world :=
  w <| w_state ::= fun s => s <| ss_flow ::= flow_after_write |>
                              <| ss_named ::= option_map (map (fun kf : text * flow => (fst kf, flow_after_write (snd kf)))) |> |>.

(* ================================================================= *)
(*                              LOADING                              *)
(* ================================================================= *)
Definition bad_json {A} (msg : string) : Res A := Err BadJson (T msg).
Definition or_bad {A} (msg : string) (o : option A) : Res A :=
  match o with Some a => Ok a | None => bad_json msg end.

Section TreeL.
Variable root : container.

(* one element of Thread::from_json's callstack loop; None: the token is not an object (skipped) *)
Definition read_element (j : json) : Res (option element) :=
  match j with
  | JObj o =>
      do ty <- or_bad "Invalid push/pop type" (obind (oget o "type") j_as_i64);
      do pp <- pushpop_from_value (to_u64 ty);
      do ptr <- match obind (oget o "cPath") j_as_str with
                | None => Ok ptr_null
                | Some cps =>
                    let r := content_at_path root (path_parse (Some cps)) in
                    let c := if is_cont_at root (sr_pos r) then Some (sr_pos r) else None in
                    do idx <- or_bad "Invalid pointer index" (obind (oget o "idx") j_as_i64);
                    Ok (mkPtr c (wrap32 idx))
                end;
      let inexpr := match obind (oget o "exp") j_as_bool with Some b => b | None => false end in
      do temps <- match obind (oget o "temp") j_as_obj with
                  | Some t => jobject_to_hashmap_values t
                  | None => Ok []
                  end;
      let fstart := if ssw_fstart_saved sw
                    then match obind (oget o "fnStart") j_as_i64 with Some z => wrap32 z | None => 0%Z end
                    else 0%Z in
      Ok (Some (mkElement ptr inexpr temps pp 0 fstart))
  | _ => Ok None
  end.

Fixpoint read_elements (l : list json) : Res (list element) :=
  match l with
  | [] => Ok []
  | j :: r =>
      do e <- read_element j;
      do es <- read_elements r;
      Ok (match e with Some x => x :: es | None => es end)
  end.

(* Thread::from_json *)
Definition read_thread (o : list (text * json)) : Res thread :=
  do ti <- or_bad "Invalid thread index" (obind (oget o "threadIndex") j_as_i64);
  do els <- match obind (oget o "callstack") j_as_arr with
            | Some l => read_elements l
            | None => Ok []
            end;
  do _ <- (if ssw_empty_thread_rejected sw && is_nil els
           then bad_json "Thread without call stack elements" else Ok tt);
  do prev <- match obind (oget o "previousContentObject") j_as_str with
             | Some p => pointer_at_path root (path_parse (Some p))
             | None => Ok ptr_null
             end;
  Ok (mkThread els prev (Z.to_N (to_u64 ti))).

(* CallStack::load_json works in place: threads are cleared first and pushed one
   by one, so an Err leaves the threads read so far.  Result: (outcome, call stack). *)
Fixpoint read_threads_into (l : list json) (acc : list thread) : Res unit * list thread :=
  match l with
  | [] => (Ok tt, acc)
  | j :: r =>
      match ssite_res S_cs_thread_obj (j_as_obj j) with
      | Ok o => match read_thread o with
                | Ok t => read_threads_into r (acc ++ [t])
                | Err k m => (Err k m, acc)
                | Panic s => (Panic s, acc)
                end
      | Err k m => (Err k m, acc)
      | Panic s => (Panic s, acc)
      end
  end.

Definition load_callstack (cs : callstack) (o : list (text * json)) : Res unit * callstack :=
  let cs0 := cs <| cs_threads := [] |> in
  match ssite_res S_cs_threads_get (oget o "threads") with
  | Ok jt =>
      match ssite_res S_cs_threads_arr (j_as_arr jt) with
      | Ok l =>
          let '(r, ts) := read_threads_into l [] in
          let cs1 := cs0 <| cs_threads := ts |> in
          match r with
          | Ok _ =>
              if ssw_no_threads_rejected sw && is_nil ts
              then (Err BadJson (T "Call stack without threads"), cs1) else
              match (do jc <- ssite_res S_cs_counter_get (oget o "threadCounter");
                     ssite_res S_cs_counter_i64 (j_as_i64 jc)) with
              | Ok n => (Ok tt, cs1 <| cs_counter := Z.to_N (to_u64 n) |>)
              | Err k m => (Err k m, cs1)
              | Panic s => (Panic s, cs1)
              end
          | Err k m => (Err k m, cs1)
          | Panic s => (Panic s, cs1)
          end
      | Err k m => (Err k m, cs0)
      | Panic s => (Panic s, cs0)
      end
  | Err k m => (Err k m, cs0)
  | Panic s => (Panic s, cs0)
  end.

Definition load_callstack_res (o : list (text * json)) : Res callstack :=
  let '(r, cs) := load_callstack cs_new o in do _ <- r; Ok cs.

(* Choice::new_from_json (+ the repaired read of the flag, from the raw token) *)
Definition choice_of_saved (j : json) (c : saved_choice) : choice :=
  let inv := if ssw_invis_read sw
             then match obind (jget "isInvisibleDefault" j) j_as_bool with Some b => b | None => false end
             else false in
  mkChoice (sc_target c) (sc_source_path c) inv (sc_tags c) None
           (Z.to_N (sc_orig_thread c)) (sc_text c) (Z.to_N (sc_index c)).

(* jarray_to_runtime_obj_list(..)?.iter().map(downcast::<Choice>().unwrap()) *)
Fixpoint choices_of_objs (dc : ssite) (js : list json) (os : list obj) : Res (list choice) :=
  match js, os with
  | j :: jr, o :: or_ =>
      do c <- ssite_res dc (match o with OChoice c => Some c | _ => None end);
      do cs <- choices_of_objs dc jr or_;
      Ok (choice_of_saved j c :: cs)
  | _, _ => Ok []
  end.

Definition read_choices (dc : ssite) (arr : list json) : Res (list choice) :=
  do os <- jarray_to_obj_list arr false;
  choices_of_objs dc arr os.

(* Flow::load_flow_choice_threads: never returns Err (unwraps) *)
Definition load_choice_thread (cs : callstack) (jct : option json) (c : choice) : Res choice :=
  match cs_thread_with_index cs (ch_orig_thread c) with
  | Some t => Ok (c <| ch_thread := Some t |>)
  | None =>
      do j <- ssite_res S_ct_missing (obind jct (jget_t (show_N (ch_orig_thread c))));
      do o <- ssite_res S_ct_obj (j_as_obj j);
      match read_thread o with
      | Ok t => Ok (c <| ch_thread := Some t |>)
      | Err k m => if panics S_ct_thread_err then Panic (T (ssite_name S_ct_thread_err)) else Err k m
      | Panic s => Panic s
      end
  end.

Definition load_flow_choice_threads (cs : callstack) (jct : option json) (l : list choice)
  : Res (list choice) := mapM (load_choice_thread cs jct) l.

(* Flow::from_json *)
Definition flow_from_json (name : text) (o : list (text * json)) : Res flow :=
  do jo <- or_bad "outputStream not found." (oget o "outputStream");
  do oa <- ssite_res S_flow_out_arr (j_as_arr jo);
  do out <- jarray_to_obj_list oa false;
  do jc <- or_bad "currentChoices not found." (oget o "currentChoices");
  do ca <- ssite_res S_flow_choices_arr (j_as_arr jc);
  do choices <- read_choices S_flow_choice_downcast ca;
  do jcs <- or_bad "loading callstack" (oget o "callstack");
  do cso <- ssite_res S_flow_cs_obj (j_as_obj jcs);
  do cs <- load_callstack_res cso;
  do choices' <- load_flow_choice_threads cs (oget o "choiceThreads") choices;
  Ok (mkFlow name cs out choices' false).

End TreeL.

(* VariablesState::load_json: globals are cleared, then refilled in the order of the
   defaults; an Err leaves them partly filled.  Result: (outcome, globals). *)
Fixpoint load_vars_loop (defs : list (text * value)) (o : list (text * json)) (acc : list (text * value))
  : Res unit * list (text * value) :=
  match defs with
  | [] => (Ok tt, acc)
  | (k, d) :: r =>
      match assoc k o with
      | Some tok =>
          match (do ob <- jtoken_to_obj tok None;
                 ssite_res S_vars_downcast (match ob with OVal v => Some v | _ => None end)) with
          | Ok v => load_vars_loop r o (assoc_set k v acc)
          | Err e m => (Err e m, acc)
          | Panic s => (Panic s, acc)
          end
      | None => load_vars_loop r o (assoc_set k d acc)
      end
  end.

(* ---------- StoryState::load_json_obj, in the engine's state monad ---------- *)
Definition set_flow (f : flow) : M unit := mod_state (fun s => s <| ss_flow := f |>).
Definition set_named (n : option (list (text * flow))) : M unit := mod_state (fun s => s <| ss_named := n |>).

(* the per-flow loop of the "flows" branch *)
Fixpoint load_flows_loop (single : bool) (l : list (text * json)) : M unit :=
  match l with
  | [] => ret tt
  | (name, fj) :: r =>
      let* fo := lift (or_bad "Invalid flow object" (j_as_obj fj)) in
      let* root := gets root_of in
      let* f := lift (flow_from_json root name fo) in
      let* _ := (if single then set_flow f     (* (a second Flow::from_json of the same token) *)
                 else
                   let* s := get_state in
                   match ss_named s with
                   | Some nf => set_named (Some (assoc_set name f nf))
                   | None => lift (bad_json "Named flows should be initialized")
                   end) in
      load_flows_loop single r
  end.

Definition load_flows (j : json) : M unit :=
  match jget "flows" j with
  | Some fj =>
      let* fd := lift (or_bad "Invalid flows object" (j_as_obj fj)) in
      let single := Nat.eqb (length fd) 1 in
      let* _ := set_named (if single then None else Some []) in
      let* _ := load_flows_loop single fd in
      let* s := get_state in
      match ss_named s with
      | Some nf =>
          if Nat.ltb 1 (length nf) then
            match obind (jget "currentFlowName" j) j_as_str with
            | Some cn =>
                match assoc cn nf with
                | Some f => let* _ := set_flow f in set_named (Some (assoc_remove cn nf))
                | None => ret tt
                end
            | None => ret tt
            end
          else ret tt
      | None => ret tt
      end
  | None =>
      (* old format: the pieces of the single flow sit at the top level *)
      let* _ := set_named None in
      let* _ := mod_state (fun s => s <| ss_flow ::= fun f => f <| fl_name := T old_format_flow_name |> |>) in
      let* cso := lift (or_bad "loading callstack threads" (obind (jget "callstackThreads" j) j_as_obj)) in
      let* root := gets root_of in
      let* s := get_state in
      let '(r, cs) := load_callstack root (fl_cs (ss_flow s)) cso in
      let* _ := mod_state (fun s => ss_set_cs s cs) in
      let* _ := lift r in
      let* _ := (match jget "outputStream" j with
                 | Some oj =>
                     let* oa := lift (ssite_res S_old_out_arr (j_as_arr oj)) in
                     let* out := lift (jarray_to_obj_list oa false) in
                     mod_state (fun s => ss_set_out s out)
                 | None => ret tt
                 end) in
      let* _ := (match jget "currentChoices" j with
                 | Some cj =>
                     let* ca := lift (ssite_res S_old_choices_arr (j_as_arr cj)) in
                     let* chs := lift (read_choices S_old_choice_downcast ca) in
                     mod_state (fun s => ss_set_choices s chs)
                 | None => ret tt
                 end) in
      let* s := get_state in
      let* chs := lift (load_flow_choice_threads root (ss_cs s) (jget "choiceThreads" j) (ss_choices s)) in
      mod_state (fun s => ss_set_choices s chs)
  end.

Definition load_i32_field (j : json) (k : string) (msg : string) (set : Z -> sstate -> sstate) : M unit :=
  match jget k j with
  | Some x => let* z := lift (or_bad msg (j_as_i64 x)) in mod_state (set (wrap32 z))
  | None => ret tt
  end.

Definition load_json_obj (j : json) : M unit :=
  let* ver := lift (or_bad "ink save format incorrect, can't load." (jget "inkSaveVersion" j)) in
  let* _ := lift (match j_as_i64 ver with
                  | Some v => if (v <? min_compatible_load_version)%Z
                              then bad_json "Ink save format isn't compatible with the current version"
                              else Ok tt
                  | None => Ok tt
                  end) in
  let* _ := load_flows j in
  let* _ := (match jget "variablesState" j with
             | Some vj =>
                 let* vo := lift (or_bad "Invalid variables state object" (j_as_obj vj)) in
                 let* s := get_state in
                 let '(r, g) := load_vars_loop (vs_defaults (ss_vars s)) vo [] in
                 let* _ := mod_state (fun s => s <| ss_vars ::= fun v => v <| vs_globals := g |> |>) in
                 lift r
             | None => ret tt
             end) in
  let* _ := (match jget "evalStack" j with
             | Some ej =>
                 let* ea := lift (ssite_res S_eval_arr (j_as_arr ej)) in
                 let* ev := lift (jarray_to_obj_list ea false) in
                 mod_state (fun s => s <| ss_eval := ev |>)
             | None => ret tt
             end) in
  let* _ := (match jget "currentDivertTarget" j with
             | Some dj =>
                 let* root := gets root_of in
                 let* p := lift (pointer_at_path root (path_parse (j_as_str dj))) in
                 mod_state (fun s => s <| ss_diverted := p |>)
             | None => ret tt
             end) in
  let* _ := (match jget "visitCounts" j with
             | Some vj =>
                 let* vo := lift (or_bad "Invalid visit counts object" (j_as_obj vj)) in
                 let* m := lift (jobject_to_int_hashmap vo) in
                 mod_state (fun s => s <| ss_visits := m |>)
             | None => ret tt
             end) in
  let* _ := (match jget "turnIndices" j with
             | Some vj =>
                 let* vo := lift (or_bad "Invalid turn indices object" (j_as_obj vj)) in
                 let* m := lift (jobject_to_int_hashmap vo) in
                 mod_state (fun s => s <| ss_turns := m |>)
             | None => ret tt
             end) in
  let* _ := load_i32_field j "turnIdx" "Invalid current turn index" (fun z s => s <| ss_turn := z |>) in
  let* _ := load_i32_field j "storySeed" "Invalid story seed" (fun z s => s <| ss_seed := z |>) in
  match jget "previousRandom" j with
  | Some x => let* z := lift (or_bad "Invalid previous random value" (j_as_i64 x)) in
              mod_state (fun s => s <| ss_prev_random := wrap32 z |>)
  | None => mod_state (fun s => s <| ss_prev_random := 0%Z |>)
  end.

(* Story::load_state after serde_json::from_str succeeded.  Nothing of the Story
   besides `state` is touched (no async check, the snapshot is kept). *)
Definition load_state (w : world) (j : json) : out unit * world := load_json_obj j w.

End Save.

(* ---------- the instances for the source as it is now ---------- *)
Definition save_switches_now : save_switches :=
  mkSaveSw choice_invisible_written choice_invisible_read list_origins_written list_equal_origins
           float_equal_bits nonfinite_substituted function_start_saved
           empty_thread_rejected no_threads_rejected.
(* the format after the three repairs (pending/save-{1,2}.patch) *)
Definition save_switches_repaired : save_switches := mkSaveSw true true true true true true true true true.

Definition write_state_now : world -> Res json := write_state ssite_panics save_switches_now.
Definition load_state_now : world -> json -> out unit * world := load_state ssite_panics save_switches_now.
