(* Engine/Iface.v — what the interpreter needs from the value layer
   (Data/Value.v, Data/InkList.v, Data/Native.v) and from library oracles.
   The engine is written against this record so that it can be developed,
   and its shell-level theorems proved, independently of the value layer. *)
From Ink.Engine Require Export State.

Record iface := mkIface {
  (* NativeFunctionCall::get_number_of_parameters / call *)
  if_nparams : nop -> nat;
  if_call : listdefs -> nop -> list obj -> Res obj;
  (* Display of an object popped from the evaluation stack / output stream *)
  if_display : obj -> text;
  (* push_evaluation_stack: recompute origins of a list value (unwrap => Panic) *)
  if_push_origins : listdefs -> inklist -> Res inklist;
  (* Value::retain_list_origins_for_assignment old new = new' *)
  if_retain : value -> value -> Res value;
  (* ListDefinitionsOrigin::find_single_item_list_with_name *)
  if_single_item : listdefs -> text -> option value;
  (* control commands on lists *)
  if_list_from_int : listdefs -> Z -> text -> Res value;
  if_list_range : inklist -> value -> value -> inklist;
  (* LIST_RANDOM: list, the u32 draw -> result list *)
  if_list_random : listdefs -> inklist -> Z -> Res inklist;
  if_list_is_empty : inklist -> bool;
  (* StdRng::seed_from_u64(seed as u64): first u32 draw; k-th i32 draw *)
  if_rng_u32 : Z -> Z;
  if_rng_i32 : Z -> nat -> Z;
  (* true: unchecked i32 arithmetic in a build with overflow checks (debug):
     overflow of seed sums / turn counters is a Panic; false: it wraps *)
  if_ovf_panics : bool
}.

(* facts about the code that the model is parametrised by; regenerated from the
   sources on every run (tools/gen_engine.py -> Gen/EngineGen.v) *)
Record switches := mkSwitches {
  sw_alias_current : bool;             (* copy_and_start_patching inserts the current flow into named_flows *)
  sw_warnings_cleared : bool;          (* warnings are cleared after delivery to the handler *)
  sw_observer_removal_checked : bool;  (* remove_variable_observer tests membership instead of unwrap() *)
  sw_remove_flow_checked : bool;       (* remove_flow_internal does not unwrap a missing map *)
  sw_ovf_panics : bool;                (* unchecked i32 seed arithmetic (debug build) *)
  sw_cont_check_first : bool;          (* continue_internal tests can_continue before counters/flags *)
  sw_path_validated_first : bool;      (* choose_path_string resolves the path before modifying state *)
  sw_eval_args_first : bool;           (* evaluate_function validates arguments before modifying state *)
  sw_ext_guard_fixed : bool;           (* string-evaluation guard refuses the NOT-lookahead-safe function *)
  sw_guard_setvar : bool;              (* set_variable has the if_async_we_cant guard *)
  sw_guard_remove_flow : bool;         (* remove_flow has the guard *)
  sw_guard_switch_default : bool;      (* switch_to_default_flow is ignored while async *)
  sw_guard_load : bool;                (* load_state has the guard *)
  sw_counter_dec_first : bool          (* continue_internal decrements the nesting counter before the error-delivery block *)
}.

(* i32 addition as the seed computations of control_logic.rs / story/mod.rs do it *)
Definition i32_add (I : iface) (site : string) (a b : Z) : Res Z :=
  if in_i32 (a + b) then Ok (a + b)%Z
  else if if_ovf_panics I then Panic (T site) else Ok (wrap32 (a + b)).
