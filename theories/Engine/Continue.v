(* Engine/Continue.v — look-ahead machinery and the continue loop:
   story/progress.rs (continue_single_step, continue_internal,
   calculate_newline_output_state_change), story/state.rs (snapshot / restore /
   discard), story_state.rs::copy_and_start_patching.  No proofs. *)
From Ink.Engine Require Export Step.

Section Continue.
Variable I : iface.
Variable sw : switches.

(* ---------- snapshot / restore / discard ---------- *)
(* copy_and_start_patching(false): the copy differs from the original only in
   the fresh patch (both copies of it) and in the alias entry put into
   named_flows (D12) — controlled by the regenerated switch [alias_current]. *)
Definition copy_and_start_patching (s : sstate) : sstate :=
  let p := match ss_patch s with Some p => p | None => patch_new end in
  let named := match ss_named s with
               | Some nf =>
                   if sw_alias_current sw then
                     Some (assoc_set (fl_name (ss_flow s)) ((ss_flow s) <| fl_alias_cs := true |>) nf)
                   else Some nf
               | None => None
               end in
  s <| ss_patch := Some p |> <| ss_vars ::= fun v => v <| vs_patch := Some p |> |> <| ss_named := named |>.

Definition state_snapshot : M unit :=
  modify (fun w => w <| w_snapshot := Some (w_state w) |>
                     <| w_state ::= copy_and_start_patching |>).

(* restore_state_snapshot: `.as_mut().unwrap()` *)
Definition restore_state_snapshot : M unit :=
  let* w := get in
  match w_snapshot w with
  | None => panic "story/state.rs:restore_state_snapshot:unwrap()"
  | Some snap =>
      let snap' := snap <| ss_vars ::= fun v => v <| vs_patch := ss_patch snap |> |> in
      let* _ := modify (fun w => w <| w_state := snap' |> <| w_snapshot := None |>) in
      m_state_res apply_any_patch
  end.

Definition discard_snapshot : M unit :=
  let* _ := m_state_res apply_any_patch in
  modify (fun w => w <| w_snapshot := None |>).

(* ---------- calculate_newline_output_state_change (byte level) ---------- *)
Inductive out_change := NoChange | ExtendedBeyondNewline | NewlineRemoved.

Definition newline_output_state_change (prev cur : text) (prev_tags cur_tags : nat) : out_change :=
  let pb := utf8_bytes prev in
  let cb := utf8_bytes cur in
  let pl := length pb in
  let cl := length cb in
  let still := Nat.leb pl cl && negb (Nat.eqb pl 0)
               && match nth_error cb (pl - 1) with Some b => N.eqb b c_nl | None => false end in
  if Nat.eqb prev_tags cur_tags && Nat.eqb pl cl && still then NoChange
  else if negb still then NewlineRemoved
  else if Nat.ltb prev_tags cur_tags then ExtendedBeyondNewline
  else if forallb (fun b => N.eqb b c_space || N.eqb b c_tab) (skipn pl cb) then NoChange
  else ExtendedBeyondNewline.


(* ---------- continue_single_step ---------- *)
Definition m_can_continue : M bool := m_read ss_can_continue.

Definition continue_single_step : M bool :=
  let* _ := step I sw in
  let* can := m_can_continue in
  let* from_game := m_read (fun s => cs_elem_is_eval_from_game (ss_cs s)) in
  let* _ := when (negb can && negb from_game) (try_follow_default_invisible_choice I sw) in
  let* s := get_state in
  if in_string_evaluation s then ret false else
  let* w := get in
  let* finished :=
    (match w_snapshot w with
     | Some snap =>
         let change := newline_output_state_change (current_text snap) (current_text (w_state w))
                         (length (current_tags snap)) (length (current_tags (w_state w))) in
         match change with
         | ExtendedBeyondNewline => let* _ := restore_state_snapshot in ret true
         | _ =>
             if w_saw_unsafe w then let* _ := restore_state_snapshot in ret true
             else match change with
                  | NewlineRemoved => let* _ := discard_snapshot in ret false
                  | _ => ret false
                  end
         end
     | None => ret false
     end) in
  if finished then ret true else
  let* s2 := get_state in
  let* _ :=
    (if output_ends_in_newline s2 then
       let* can2 := m_can_continue in
       if can2 then
         let* w2 := get in
         match w_snapshot w2 with
         | None => state_snapshot
         | Some _ => ret tt
         end
       else discard_snapshot
     else ret tt) in
  ret false.

(* ---------- virtual clock (hook H2) ---------- *)
Definition clock_tick : M bool :=
  let* w := get in
  if N.eqb (w_pause_left w) 0 then ret false
  else if N.eqb (w_pause_left w) 1 then
    let* _ := modify (fun w => match w_pauses w with
                               | n :: r => w <| w_pause_left := n |> <| w_pauses := r |>
                               | [] => w <| w_pause_left := 0 |>
                               end) in
    ret true
  else let* _ := modify (fun w => w <| w_pause_left ::= N.pred |>) in ret false.

(* the loop of continue_internal; returns output_stream_ends_in_newline.
   A StoryError of a step is caught here and recorded; a panic propagates. *)
Fixpoint continue_loop (fuel : nat) : M bool :=
  match fuel with
  | O => panic "model:continue_loop:out of fuel"     (* model-side guard, unreachable: H2's step fuel ends the loop earlier *)
  | S f =>
      fun w =>
        match continue_single_step w with
        | (OPanic site, w') => (OPanic site, w')
        | (OErr _ m, w') =>
            (* Err(e) => { self.add_error(e.get_message(), false); break; } *)
            match add_error_msg m false w' with
            | (OOk _, w'') => (OOk false, w'')
            | (OErr k e, w'') => (OErr k e, w'')
            | (OPanic s, w'') => (OPanic s, w'')
            end
        | (OOk ends, w') =>
            if ends then (OOk true, w') else
            (let* tick := (let* a := gets w_async in if a then clock_tick else ret false) in
             if tick then ret false else
             let* can := m_can_continue in
             if negb can then ret false else continue_loop f) w'
        end
  end.

(* the "ran out of content" diagnosis of continue_internal *)
Definition end_of_content_errors : M unit :=
  let* s := get_state in
  let cs := ss_cs s in
  let* cpt := lift (cs_can_pop_thread cs) in
  let* _ := when cpt (add_error "Thread available to pop, threads should always be flat by the end of evaluation?" false) in
  let* s := get_state in
  if (match ss_choices s with [] => true | _ => false end) && negb (ss_safe_exit s) then
    let* t := lift (cs_can_pop_type (ss_cs s) (Some PTunnel)) in
    if t then add_error "unexpectedly reached end of content. Do you need a '->->' to return from a tunnel?" false else
    let* f := lift (cs_can_pop_type (ss_cs s) (Some PFunction)) in
    if f then add_error "unexpectedly reached end of content. Do you need a '~ return'?" false else
    let* c := lift (cs_can_pop (ss_cs s)) in
    if negb c then add_error "ran out of content. Do you need a '-> DONE' or '-> END'?" false
    else add_error "unexpectedly reached end of content for unknown reason. Please debug compiler!" false
  else ret tt.

(* notify_variable_changed *)
Definition notify_variable_changed (name : text) (v : value) : M unit :=
  let* w := get in
  match assoc name (w_observers w) with
  | Some obs => mfor obs (fun o => log_event (EvObs o name v))
  | None => ret tt
  end.

(* delivery block at the end of continue_internal *)
Definition reset_errors : M unit := mod_state (fun s => s <| ss_errors := [] |>).
Definition reset_warnings : M unit := mod_state (fun s => s <| ss_warnings := [] |>).

Definition deliver_errors : M unit :=
  let* w := get in
  let s := w_state w in
  if ss_has_error s || ss_has_warning s then
    if w_handler w then
      let* _ := mfor (ss_errors s) (fun m => log_event (EvHandler true m)) in
      let* _ := mfor (ss_warnings s) (fun m => log_event (EvHandler false m)) in
      let* _ := reset_errors in
      when (sw_warnings_cleared sw) reset_warnings
    else if ss_has_error s then fail InvalidState "Ink had errors. The first issue was: ..."
    else reset_errors
  else ret tt.

Definition step_budget (w : world) : nat := S (N.to_nat (w_fuel w)).

(* Story::continue_internal; [limited] = millisecs_limit_async > 0 *)
Definition continue_internal (limited : bool) : M unit :=
  let* w00 := get in
  let* can0 := m_can_continue in
  if sw_cont_check_first sw && negb (w_async w00) && negb can0
  then fail InvalidState "Can't continue - should check can_continue before calling Continue" else
  let* _ := modify (fun w => w <| w_rcc ::= N.succ |>) in
  let* w := get in
  let* _ :=
    (if negb (w_async w) then
       let* _ := modify (fun w => w <| w_async := limited |>) in
       let* can := m_can_continue in
       if negb (sw_cont_check_first sw) && negb can
       then fail InvalidState "Can't continue - should check can_continue before calling Continue" else
       let* _ := mod_state (fun s => reset_output [] (s <| ss_safe_exit := false |>)) in
       let* w1 := get in
       when (N.eqb (w_rcc w1) 1) (mod_state (fun s => s <| ss_vars ::= vs_start_observation |>))
     else if negb limited then modify (fun w => w <| w_async := false |>)
     else ret tt) in
  let* _ := modify (fun w => w <| w_saw_unsafe := false |>) in
  let* w2 := get in
  let* ends := continue_loop (step_budget w2) in
  let* can := m_can_continue in
  let* changed :=
    (if ends || negb can then
       let* w3 := get in
       let* _ := (match w_snapshot w3 with Some _ => restore_state_snapshot | None => ret tt end) in
       let* can2 := m_can_continue in
       let* _ := when (negb can2) end_of_content_errors in
       let* _ := mod_state (fun s => s <| ss_safe_exit := false |>) in
       let* _ := modify (fun w => w <| w_saw_unsafe := false |>) in
       let* w4 := get in
       let* ch :=
         (if N.eqb (w_rcc w4) 1 then
            let* s := get_state in
            let* (m, v') := lift (vs_complete_observation (ss_vars s)) in
            let* _ := mod_state (fun s => s <| ss_vars := v' |>) in
            ret (Some m)
          else ret None) in
       let* _ := modify (fun w => w <| w_async := false |>) in
       ret ch
     else ret None) in
  (* the decrement stands before the delivery block (whose no-handler branch returns Err): regenerated
     fact counter_dec_first; the other order leaks the counter on an error return *)
  let* _ := when (sw_counter_dec_first sw) (modify (fun w => w <| w_rcc ::= N.pred |>)) in
  let* _ := deliver_errors in
  let* _ := when (negb (sw_counter_dec_first sw)) (modify (fun w => w <| w_rcc ::= N.pred |>)) in
  match changed with
  | Some m => mfor m (fun kv => notify_variable_changed (fst kv) (snd kv))
  | None => ret tt
  end.

End Continue.
