(* Engine/State.v — the mutable state of the runtime as immutable records.
   Rust counterparts: callstack.rs (Element, Thread, CallStack), choice.rs,
   flow.rs, state_patch.rs, variables_state.rs, story_state.rs (StoryState),
   story/mod.rs (Story).  Model file: no proofs.

   Rc<RefCell<..>> sharing is replaced by values; the two places where the
   Rust code relies on sharing are modelled explicitly:
     * VariablesState.callstack always aliases the current flow's call stack
       (re-pointed by every function that replaces the flow) — the model reads
       the current flow's call stack directly;
     * the clone of the current flow that copy_and_start_patching inserts
       into named_flows shares the live call stack (field fl_alias_cs).      *)
From RecordUpdate Require Export RecordSet.
Export RecordSetNotations.
From Ink.Data Require Export Types Path.

Record element := mkElement {
  el_ptr : pointer;
  el_inexpr : bool;
  el_temps : list (text * value);
  el_type : pushpop;
  el_evalh : N;            (* evaluation_stack_height_when_pushed *)
  el_fstart : Z            (* function_start_in_output_stream *)
}.
#[export] Instance eta_element : Settable _ :=
  settable! mkElement <el_ptr; el_inexpr; el_temps; el_type; el_evalh; el_fstart>.

(* callstack: bottom first, current element = last *)
Record thread := mkThread {
  th_cs : list element;
  th_prev : pointer;
  th_index : N
}.
#[export] Instance eta_thread : Settable _ := settable! mkThread <th_cs; th_prev; th_index>.

(* threads: oldest first, current thread = last *)
Record callstack := mkCallstack {
  cs_threads : list thread;
  cs_counter : N
}.
#[export] Instance eta_callstack : Settable _ := settable! mkCallstack <cs_threads; cs_counter>.

Record choice := mkChoice {
  ch_target : path;
  ch_source : text;
  ch_invisible : bool;
  ch_tags : list text;
  ch_thread : option thread;     (* thread_at_generation *)
  ch_orig_thread : N;            (* original_thread_index (RefCell) *)
  ch_text : text;
  ch_index : N                   (* index (RefCell), set by get_current_choices *)
}.
#[export] Instance eta_choice : Settable _ :=
  settable! mkChoice <ch_target; ch_source; ch_invisible; ch_tags; ch_thread; ch_orig_thread; ch_text; ch_index>.

Record flow := mkFlow {
  fl_name : text;
  fl_cs : callstack;
  fl_out : list obj;             (* output_stream *)
  fl_choices : list choice;
  fl_alias_cs : bool             (* true: a stale clone whose call stack IS the current flow's *)
}.
#[export] Instance eta_flow : Settable _ := settable! mkFlow <fl_name; fl_cs; fl_out; fl_choices; fl_alias_cs>.

Record patch := mkPatch {
  pa_globals : list (text * value);
  pa_changed : list text;          (* HashSet: duplicate-free *)
  pa_visits : list (text * Z);
  pa_turns : list (text * Z)
}.
#[export] Instance eta_patch : Settable _ := settable! mkPatch <pa_globals; pa_changed; pa_visits; pa_turns>.
Definition patch_new : patch := mkPatch [] [] [] [].

Record varstate := mkVarstate {
  vs_globals : list (text * value);
  vs_defaults : list (text * value);
  vs_batch : bool;                       (* batch_observing_variable_changes *)
  vs_changed : option (list text);       (* changed_variables_for_batch_obs *)
  vs_patch : option patch                (* VariablesState.patch: its OWN clone of the patch *)
}.
#[export] Instance eta_varstate : Settable _ :=
  settable! mkVarstate <vs_globals; vs_defaults; vs_batch; vs_changed; vs_patch>.

Record sstate := mkSstate {
  ss_flow : flow;                              (* current_flow *)
  ss_safe_exit : bool;                         (* did_safe_exit *)
  ss_vars : varstate;
  ss_eval : list obj;                          (* evaluation_stack, top = last *)
  ss_errors : list text;
  ss_warnings : list text;
  ss_patch : option patch;                     (* StoryState.patch *)
  ss_named : option (list (text * flow));      (* named_flows (excludes the current flow) *)
  ss_diverted : pointer;
  ss_visits : list (text * Z);
  ss_turns : list (text * Z);
  ss_turn : Z;                                 (* current_turn_index *)
  ss_seed : Z;
  ss_prev_random : Z
}.
#[export] Instance eta_sstate : Settable _ :=
  settable! mkSstate <ss_flow; ss_safe_exit; ss_vars; ss_eval; ss_errors; ss_warnings; ss_patch;
                      ss_named; ss_diverted; ss_visits; ss_turns; ss_turn; ss_seed; ss_prev_random>.

(* how a bound external function behaves (the harness binds exactly these) *)
Inductive ext_behaviour := ExtReturn (v : option value) | ExtEcho.
Record extdef := mkExtdef { ex_safe : bool; ex_beh : ext_behaviour }.

(* things the host can observe besides return values *)
Inductive event :=
| EvObs (observer : text) (var : text) (v : value)
| EvHandler (is_error : bool) (class : text)
| EvExt (name : text) (args : list value) (lines_delivered : N).

Record world := mkWorld {
  w_story : story;
  w_state : sstate;
  w_rcc : N;                                   (* recursive_continue_count *)
  w_async : bool;                              (* async_continue_active *)
  w_snapshot : option sstate;                  (* state_snapshot_at_last_new_line *)
  w_observers : list (text * list text);       (* variable -> observer ids, in registration order *)
  w_validated : bool;                          (* has_validated_externals *)
  w_fallbacks : bool;
  w_saw_unsafe : bool;                         (* saw_lookahead_unsafe_function_after_new_line *)
  w_externals : list (text * extdef);
  w_handler : bool;                            (* on_error is Some *)
  w_events : list event;                       (* log, newest LAST *)
  w_lines : N;                                 (* lines the host has received so far *)
  w_fuel : N;                                  (* hook H2: interpreter steps left *)
  w_pauses : list N;                           (* hook H2: virtual clock schedule *)
  w_pause_left : N
}.
#[export] Instance eta_world : Settable _ :=
  settable! mkWorld <w_story; w_state; w_rcc; w_async; w_snapshot; w_observers; w_validated; w_fallbacks;
                     w_saw_unsafe; w_externals; w_handler; w_events; w_lines; w_fuel; w_pauses; w_pause_left>.

(* ---------- outcome-with-state monad ----------
   A Rust `?` returns early and keeps the mutations made so far, so an error
   carries the state; a panic unwinds out of the whole host call. *)
Inductive out (A : Type) :=
| OOk (a : A)
| OErr (k : ekind) (msg : text)
| OPanic (site : text).
Arguments OOk {A} a.
Arguments OErr {A} k msg.
Arguments OPanic {A} site.

Definition M (A : Type) := world -> out A * world.
Definition ret {A} (a : A) : M A := fun w => (OOk a, w).
Definition fail {A} (k : ekind) (msg : string) : M A := fun w => (OErr k (T msg), w).
Definition panic {A} (site : string) : M A := fun w => (OPanic (T site), w).
Definition mbind {A B} (m : M A) (f : A -> M B) : M B :=
  fun w => match m w with
           | (OOk a, w') => f a w'
           | (OErr k e, w') => (OErr k e, w')
           | (OPanic s, w') => (OPanic s, w')
           end.
Declare Scope m_scope.
Delimit Scope m_scope with M.
Notation "'let*' x := m 'in' k" := (mbind m (fun x => k))
  (at level 200, x pattern, m at level 100, k at level 200, right associativity) : m_scope.
Open Scope m_scope.

Definition get : M world := fun w => (OOk w, w).
Definition put (w : world) : M unit := fun _ => (OOk tt, w).
Definition modify (f : world -> world) : M unit := fun w => (OOk tt, f w).
Definition gets {A} (f : world -> A) : M A := fun w => (OOk (f w), w).
Definition lift {A} (r : Res A) : M A :=
  fun w => match r with
           | Ok a => (OOk a, w)
           | Err k e => (OErr k e, w)
           | Panic s => (OPanic s, w)
           end.
Definition when (b : bool) (m : M unit) : M unit := if b then m else ret tt.

Definition mod_state (f : sstate -> sstate) : M unit := modify (fun w => w <| w_state ::= f |>).
Definition get_state : M sstate := gets w_state.
Definition root_of (w : world) : container := st_root (w_story w).

Fixpoint mfor {A} (l : list A) (f : A -> M unit) : M unit :=
  match l with
  | [] => ret tt
  | x :: r => mbind (f x) (fun _ => mfor r f)
  end.

(* ---------- list helpers ---------- *)
Definition last_opt {A} (l : list A) : option A := last (map Some l) None.
Fixpoint set_last {A} (l : list A) (x : A) : list A :=
  match l with
  | [] => []
  | [_] => [x]
  | y :: r => y :: set_last r x
  end.
Fixpoint set_nth {A} (n : nat) (l : list A) (x : A) : list A :=
  match l, n with
  | [], _ => []
  | _ :: r, O => x :: r
  | y :: r, S n' => y :: set_nth n' r x
  end.
Definition nlength {A} (l : list A) : N := N.of_nat (length l).

Fixpoint mem_text (x : text) (l : list text) : bool :=
  match l with [] => false | y :: r => text_eqb x y || mem_text x r end.
Definition set_add (x : text) (l : list text) : list text := if mem_text x l then l else l ++ [x].
