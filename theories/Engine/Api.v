(* Engine/Api.v — every public method of Story as a function on worlds
   (story/mod.rs::new, progress.rs, choices.rs, navigation.rs, state.rs,
   flow.rs, variable_observer.rs, external_functions.rs, tags.rs).  No proofs. *)
From Ink.Engine Require Export Continue.
From Ink.Gen Require Import PathGen.

Section Api.
Variable I : iface.
Variable sw : switches.

Definition DEFAULT_FLOW : text := T "DEFAULT_FLOW".

(* StoryState::new *)
Definition sstate_new (seed : Z) : sstate :=
  mkSstate (mkFlow DEFAULT_FLOW cs_new [] [] false) false (mkVarstate [] [] false None None)
           [] [] [] None None ptr_null [] [] (-1)%Z seed 0%Z.

Definition if_async_we_cant : M unit :=
  let* a := gets w_async in
  if a then fail InvalidState "Can't do that. Story is in the middle of a continue_async()." else ret tt.

Definition cont_internal := continue_internal I sw.

(* Story::reset_globals *)
Definition reset_globals : M unit :=
  let* root := gets root_of in
  let* _ :=
    (match lookup_named root (T "global decl") with
     | Some _ =>
         let* orig := m_read ss_cur_pointer in
         let* _ := choose_path I sw (path_of_string_gen cache_input (Some (T "global decl"))) false in
         let* _ := cont_internal false in
         m_state_res (fun s => ss_set_cur_pointer s orig)
     | None => ret tt
     end) in
  mod_state (fun s => s <| ss_vars ::= vs_snapshot_defaults |>).

Definition INK_VERSION_CURRENT : Z := 21.

Definition world_init (st : story) (seed : Z) (fuel : N) : world :=
  mkWorld st (sstate_new seed) 0 false None [] false false false [] false [] 0 fuel [] 0.

(* Story::new after loading *)
Definition story_new (st : story) (seed : Z) (fuel : N) : out unit * world :=
  (let* _ := reset_globals in
   when (negb (st_version st =? INK_VERSION_CURRENT)%Z)
        (add_error "WARNING: Version of ink used to build story doesn't match current version" true))
  (world_init st seed fuel).

(* ---------- external bindings ---------- *)
Fixpoint collect_diverts_obj (fuel : nat) (o : obj) (here : pos) : list (pos * divert) :=
  match fuel with
  | O => []
  | S f =>
      match o with
      | ODivert d => [(here, d)]
      | OCont (Cont _ _ _ _ content named) =>
          (fix go (l : list obj) (i : nat) : list (pos * divert) :=
             match l with
             | [] => []
             | x :: r => collect_diverts_obj f x (here ++ [SI i]) ++ go r (S i)
             end) content 0%nat
          ++ (fix gon (l : list (text * container)) : list (pos * divert) :=
                match l with
                | [] => []
                | (k, c) :: r => collect_diverts_obj f (OCont c) (here ++ [SN k]) ++ gon r
                end) named
      | _ => []
      end
  end.

(* validate_external_bindings *)
Definition validate_external_bindings : M unit :=
  let* w := get in
  let root := root_of w in
  let ds := collect_diverts_obj (S (S (container_depth root))) (OCont root) [] in
  let* missing :=
    lift (foldM (fun acc pd =>
                   let '(dp, d) := pd in
                   if d_external d then
                     match d_target d with
                     | None => Panic (T "external_functions.rs:get_target_path_string().unwrap()")
                     | Some tp =>
                         do nm <- divert_target_path_string root dp tp;
                         if assoc_mem nm (w_externals w) then Ok acc
                         else if w_fallbacks w then
                           (match lookup_named root nm with Some _ => Ok acc | None => Ok (set_add nm acc) end)
                         else Ok (set_add nm acc)
                     end
                   else Ok acc) ds []) in
  match missing with
  | [] => modify (fun w => w <| w_validated := true |>)
  | _ => fail InvalidState "ERROR: Missing function binding for external"
  end.

Definition bind_external (name : text) (def : extdef) : M unit :=
  let* _ := if_async_we_cant in
  let* w := get in
  if assoc_mem name (w_externals w) then fail BadArgument "Function has already been bound."
  else modify (fun w => w <| w_externals ::= assoc_set name def |>).
Definition unbind_external (name : text) : M unit :=
  let* _ := if_async_we_cant in
  let* w := get in
  if negb (assoc_mem name (w_externals w)) then fail BadArgument "Function has not been bound."
  else modify (fun w => w <| w_externals ::= assoc_remove name |>).

(* ---------- progress ---------- *)
Definition continue_async (limited : bool) : M unit :=
  let* v := gets w_validated in
  let* _ := when (negb v) validate_external_bindings in
  cont_internal limited.

Definition get_current_text : M text :=
  let* _ := if_async_we_cant in let* s := get_state in ret (current_text s).
Definition get_current_tags : M (list text) :=
  let* _ := if_async_we_cant in let* s := get_state in ret (current_tags s).

(* Story::cont *)
Definition story_cont : M text :=
  let* _ := continue_async false in get_current_text.

(* host-side: a successful cont() is one more line delivered *)
Definition api_cont : M text :=
  let* t := story_cont in
  let* _ := modify (fun w => w <| w_lines ::= N.succ |>) in
  ret t.

Fixpoint continue_maximally_fuel (fuel : nat) (acc : text) : M text :=
  match fuel with
  | O => fail InvalidState "VERIF: out of fuel"
  | S f =>
      let* can := m_can_continue in
      if can then let* t := story_cont in continue_maximally_fuel f (acc ++ t) else ret acc
  end.
Definition continue_maximally : M text :=
  let* _ := if_async_we_cant in
  let* w := get in continue_maximally_fuel (step_budget w) [].

(* Story::get_current_choices: visible choices, index assigned as a side effect *)
Fixpoint index_choices (l : list choice) (i : N) : list choice :=
  match l with
  | [] => []
  | c :: r => if ch_invisible c then c :: index_choices r i
              else (c <| ch_index := i |>) :: index_choices r (i + 1)
  end.
Definition get_current_choices : M (list choice) :=
  let* s := get_state in
  let* can := m_can_continue in
  if can then ret [] else
  let cs := index_choices (ss_choices s) 0 in
  let* _ := mod_state (fun s => ss_set_choices s cs) in
  ret (filter (fun c => negb (ch_invisible c)) cs).

Definition choose_choice_index (i : nat) : M unit :=
  let* choices := get_current_choices in
  match nth_error choices i with
  | None => fail BadArgument "choice out of range"
  | Some c =>
      match ch_thread c with
      | None => panic "choices.rs:choose_choice_index:get_thread_at_generation().unwrap()"
      | Some th =>
          let* _ := mod_state (fun s => ss_set_cs s (cs_set_current_thread (ss_cs s) th)) in
          choose_path I sw (ch_target c) true
      end
  end.

(* StoryState::validate_arguments *)
Definition validate_arguments (args : list value) : M unit :=
  mfor args (fun a =>
    match a with
    | VBool _ | VInt _ | VFloat _ | VList _ | VString _ => ret tt
    | _ => fail InvalidState "ink arguments when calling EvaluateFunction / ChoosePathStringWithParameters must be int, float, string, bool or InkList."
    end).

(* pass_arguments_to_evaluation_stack *)
Definition pass_arguments (args : list value) : M unit :=
  mfor args (fun a =>
    match a with
    | VBool _ | VInt _ | VFloat _ | VList _ | VString _ => push_eval I (OVal a)
    | _ => fail InvalidState "ink arguments when calling EvaluateFunction / ChoosePathStringWithParameters must be int, float, string, bool or InkList."
    end).

Definition choose_path_string (p : text) (reset_cs : bool) (args : list value) : M unit :=
  let* _ := if_async_we_cant in
  let target := path_of_string_gen cache_input (Some p) in
  let* _ := when (sw_path_validated_first sw)
              (let* root := gets root_of in
               let* _ := lift (pointer_at_path root target) in
               validate_arguments args) in
  let* _ :=
    (if reset_cs then
       (* reset_callstack *)
       let* _ := if_async_we_cant in m_state_res force_end
     else
       let* e := m_read (fun s => cs_cur_element (ss_cs s)) in
       if pushpop_eqb (el_type e) PFunction
       then fail InvalidState "Story was running a function when you called ChoosePathString"
       else ret tt) in
  let* _ := pass_arguments args in
  choose_path I sw target true.

Fixpoint eval_loop (fuel : nat) (acc : text) : M text :=
  match fuel with
  | O => fail InvalidState "VERIF: out of fuel"
  | S f =>
      let* can := m_can_continue in
      if can then
        (* the inner cont() is not a line delivered to the host *)
        let* t := story_cont in
        eval_loop f (acc ++ t)
      else ret acc
  end.

(* complete_function_evaluation_from_game *)
Fixpoint pop_down_to (fuel : nat) (h : N) (ret_obj : option obj) : M (option obj) :=
  match fuel with
  | O => ret ret_obj
  | S f =>
      let* s := get_state in
      if (h <? nlength (ss_eval s)) then
        let* o := pop_eval in
        pop_down_to f h (match ret_obj with None => Some o | r => r end)
      else ret ret_obj
  end.

Definition complete_function_evaluation_from_game : M (option value) :=
  let* e := m_read (fun s => cs_cur_element (ss_cs s)) in
  if negb (pushpop_eqb (el_type e) PFunctionEvalFromGame)
  then fail InvalidState "Expected external function evaluation to be complete."
  else
    let* s := get_state in
    let* r := pop_down_to (length (ss_eval s)) (el_evalh e) None in
    let* _ := m_cs_res (fun cs => cs_pop cs (Some PFunctionEvalFromGame)) in
    match r with
    | Some (OVal (VDivert p)) => ret (Some (VString (path_string p)))
    | Some (OVal v) => ret (Some v)
    | _ => ret None
    end.

Definition evaluate_function (name : text) (args : option (list value)) : M (option value * text) :=
  let* _ := if_async_we_cant in
  if (match trim name with [] => true | _ => false end)
  then fail InvalidState "Function is empty or white space." else
  let* root := gets root_of in
  match knot_container_with_name root name with
  | None => fail BadArgument "Function doesn't exist"
  | Some fp =>
      let* _ := when (sw_eval_args_first sw)
                  (validate_arguments (match args with Some a => a | None => [] end)) in
      let* s := get_state in
      let before := ss_out s in
      let* _ := mod_state (reset_output []) in
      (* start_function_evaluation_from_game *)
      let* _ := m_cs_res (fun cs => cs_push cs PFunctionEvalFromGame (nlength (ss_eval s)) 0%Z) in
      let* _ := m_state_res (fun s => ss_set_cur_pointer s (ptr_start_of fp)) in
      let* _ := pass_arguments (match args with Some a => a | None => [] end) in
      let* w := get in
      let* txt := eval_loop (step_budget w) [] in
      let* _ := mod_state (reset_output before) in
      let* r := complete_function_evaluation_from_game in
      ret (r, txt)
  end.

(* ---------- variables, observers ---------- *)
Definition set_variable (name : text) (v : value) : M unit :=
  let* _ := when (sw_guard_setvar sw) if_async_we_cant in
  let* s := get_state in
  let* defs := m_defs in
  let* (notify, s') := lift (vs_host_set I s name v) in
  let* _ := mod_state (fun _ => s') in
  when notify (notify_variable_changed name v).

Definition get_variable (name : text) : M (option value) :=
  let* s := get_state in ret (vs_host_get s name).

Definition observe_variable (name : text) (obs : text) : M unit :=
  let* _ := if_async_we_cant in
  let* s := get_state in
  if negb (vs_global_exists (ss_vars s) name)
  then fail BadArgument "Cannot observe variable because it wasn't declared in the ink story."
  else modify (fun w => w <| w_observers ::=
                 fun m => assoc_set name (match assoc name m with Some l => l ++ [obs] | None => [obs] end) m |>).

Fixpoint remove_first_text (x : text) (l : list text) : option (list text) :=
  match l with
  | [] => None
  | y :: r => if text_eqb x y then Some r
              else match remove_first_text x r with Some r' => Some (y :: r') | None => None end
  end.

(* remove_variable_observer: `position(..).unwrap()` panics when the observer
   is not registered for the variable.  [checked] is the regenerated fact that
   the code tests membership instead of unwrapping (after repair). *)
Definition remove_observer_from (obs : text) (m : list (text * list text)) (k : text) (l : list text)
  : Res (list (text * list text)) :=
  match remove_first_text obs l with
  | None => if sw_observer_removal_checked sw then Ok m
            else Panic (T "variable_observer.rs:remove_variable_observer:position().unwrap()")
  | Some [] => Ok (assoc_remove k m)
  | Some l' => Ok (assoc_set k l' m)
  end.
Definition remove_variable_observer (obs : text) (name : option text) : M unit :=
  let* _ := if_async_we_cant in
  let* w := get in
  let m := w_observers w in
  let* m' :=
    lift (match name with
          | Some n => match assoc n m with
                      | Some l => remove_observer_from obs m n l
                      | None => Ok m
                      end
          | None => foldM (fun acc kv => remove_observer_from obs acc (fst kv) (snd kv)) m m
          end) in
  modify (fun w => w <| w_observers := m' |>).

(* ---------- flows ---------- *)
Definition flow_new (name : text) : flow := mkFlow name cs_new [] [] false.

Definition switch_flow_internal (name : text) (s : sstate) : sstate :=
  if text_eqb name (fl_name (ss_flow s)) then s else
  let nf := match ss_named s with Some l => l | None => [] end in
  let next := match assoc name nf with Some f => f | None => flow_new name end in
  let nf1 := assoc_remove name nf in
  let cur := ss_flow s in
  (* a stale alias entry for the current flow is overwritten here *)
  let nf2 := assoc_set (fl_name cur) cur nf1 in
  s <| ss_flow := next <| fl_alias_cs := false |> |> <| ss_named := Some nf2 |>.

Definition switch_flow (name : text) : M unit :=
  let* _ := if_async_we_cant in mod_state (switch_flow_internal name).

Definition switch_to_default_flow_internal (s : sstate) : sstate :=
  match ss_named s with Some _ => switch_flow_internal DEFAULT_FLOW s | None => s end.
Definition switch_to_default_flow : M unit :=
  let* a := gets w_async in
  if sw_guard_switch_default sw && a then ret tt else mod_state switch_to_default_flow_internal.

(* remove_flow_internal: `self.named_flows.as_mut().unwrap()`.  [checked] is the
   regenerated fact that the code no longer unwraps a missing map. *)
Definition remove_flow (name : text) : M unit :=
  let* _ := when (sw_guard_remove_flow sw) if_async_we_cant in
  if text_eqb name DEFAULT_FLOW then fail BadArgument "Cannot destroy default flow" else
  let* _ := mod_state (fun s => if text_eqb (fl_name (ss_flow s)) name
                                then switch_to_default_flow_internal s else s) in
  let* s := get_state in
  match ss_named s with
  | None => if sw_remove_flow_checked sw then ret tt
            else panic "story_state.rs:remove_flow_internal:named_flows.unwrap()"
  | Some nf => mod_state (fun s => s <| ss_named := Some (assoc_remove name nf) |>)
  end.

(* ---------- reset ---------- *)
Definition reset_state (seed : Z) : M unit :=
  let* _ := if_async_we_cant in
  let* _ := mod_state (fun _ => sstate_new seed) in
  reset_globals.

(* ---------- counts, tags ---------- *)
Definition visit_count_at_path_string (p : text) : M Z :=
  let* w := get in
  let s := w_state w in
  match ss_patch s with
  | Some pa =>
      let r := content_at_path (root_of w) (path_of_string_gen cache_input (Some p)) in
      if negb (is_cont_at (root_of w) (sr_pos r)) then fail InvalidState "Content at path not found"
      else
        let* k := lift (path_text_of (root_of w) (sr_pos r)) in
        match assoc k (pa_visits pa) with
        | Some n => ret n
        | None => ret (match assoc p (ss_visits s) with Some n => n | None => 0%Z end)
        end
  | None => ret (match assoc p (ss_visits s) with Some n => n | None => 0%Z end)
  end.

(* tags_at_start_of_flow_container_with_path_string *)
Fixpoint first_leaf_container (fuel : nat) (root : container) (p : pos) : pos :=
  match fuel with
  | O => p
  | S f => match cont_at root p with
           | Some c => match c_content c with
                       | OCont _ :: _ => first_leaf_container f root (p ++ [SI 0])
                       | _ => p
                       end
           | None => p
           end
  end.
Fixpoint tags_scan (l : list obj) (in_tag : bool) (acc : list text) : Res (list text) :=
  match l with
  | [] => Ok acc
  | OCmd BeginTag :: r => tags_scan r true acc
  | OCmd EndTag :: r => tags_scan r false acc
  | OCmd _ :: r => tags_scan r in_tag acc
  | o :: r =>
      if in_tag then
        match o with
        | OVal (VString s) => tags_scan r in_tag (acc ++ [s])
        | _ => Err InvalidState (T "Tag contained non-text content.")
        end
      else Ok acc
  end.
Definition tags_for_content_at_path (p : text) : M (list text) :=
  let* root := gets root_of in
  let r := content_at_path root (path_of_string_gen cache_input (Some p)) in
  if negb (is_cont_at root (sr_pos r)) then panic "tags.rs:container().unwrap()" else
  let fp := first_leaf_container (S (container_depth root)) root (sr_pos r) in
  match cont_at root fp with
  | Some c => lift (tags_scan (c_content c) false [])
  | None => panic "model:tags:not a container"
  end.

End Api.
