(* Engine/SaveWitnessProofs.v — the behavioural half of C02 on the CURRENT sources:
   concrete stories on which the story restored from a save is distinguishable from
   the original (vm_compute on the model).  Every lemma is stated against the
   REGENERATED switches (Gen/EngineGen.v, Gen/SaveGen.v): it says that the witness
   distinguishes exactly when the corresponding defect is in the source, so the same
   lemma is re-proved (with the other truth value) once the defect is repaired. *)
From Coq Require Import Bool.
From Ink.Engine Require Import RunSave SaveWitness Tie.
From Ink.Gen Require Import EngineGen SaveGen.

Definition orc0 : oracles := mkOracles [] [] [].

Definition differs_on (sw : switches) (ssw : save_switches) (j : json) (script : list hostop2) : bool :=
  restored_differs sw orc0 ssite_panics ssw j 3 5000 script 1 10.

(* D10: a pending fallback choice.  Distinguishes unless the flag is written AND read. *)
Lemma wit_fallback_spec :
  differs_on sw_now save_switches_now wit_fallback_json wit_fallback_script
  = negb (choice_invisible_written && choice_invisible_read).
Proof. vm_compute; reflexivity. Qed.

(* D11: a list emptied at run time.  Distinguishes unless `origins` is written. *)
Lemma wit_lists_spec :
  differs_on sw_now save_switches_now wit_lists_json wit_lists_script = negb list_origins_written.
Proof. vm_compute; reflexivity. Qed.

(* D12: a second flow at a choice point.  Distinguishes iff the snapshot copy inserts
   the current flow into named_flows. *)
Lemma wit_flows_spec :
  differs_on sw_now save_switches_now wit_flows_json wit_flows_script = alias_current.
Proof. vm_compute; reflexivity. Qed.

(* the property "the restored story is indistinguishable" is refuted on the current
   sources as long as one of the three defects is present *)
Lemma save_load_equiv_refuted_lemma :
  (alias_current || negb (choice_invisible_written && choice_invisible_read) || negb list_origins_written) = true ->
  exists j script, differs_on sw_now save_switches_now j script = true.
Proof.
  intros H. apply orb_true_iff in H as [H|H]; [apply orb_true_iff in H as [H|H]|].
  - exists wit_flows_json, wit_flows_script. rewrite wit_flows_spec. exact H.
  - exists wit_fallback_json, wit_fallback_script. rewrite wit_fallback_spec. exact H.
  - exists wit_lists_json, wit_lists_script. rewrite wit_lists_spec. exact H.
Qed.

(* with the repaired format the two single-flow witnesses no longer distinguish *)
Lemma witnesses_repaired :
  differs_on sw_now save_switches_repaired wit_fallback_json wit_fallback_script = false
  /\ differs_on sw_now save_switches_repaired wit_lists_json wit_lists_script = false.
Proof. split; vm_compute; reflexivity. Qed.

(* the hypotheses of the round-trip theorems are met by reachable states: the three
   witness states are well-formed save points, and loading their saves into a fresh
   story of the same program succeeds *)
Definition wit_ok (j : json) (script : list hostop2) : bool :=
  match world_after sw_now orc0 ssite_panics save_switches_now j 3 5000 script,
        world_after sw_now orc0 ssite_panics save_switches_now j 3 5000 [] with
  | Some w, Some fresh =>
      wf_world_b w && at_save_point w && resave_hyp_b save_switches_now w
      && match write_state ssite_panics save_switches_now w with
         | Ok js => match load_state ssite_panics save_switches_now fresh js with
                    | (OOk _, _) => true
                    | _ => false
                    end
         | _ => false
         end
  | _, _ => false
  end.

Lemma witnesses_well_formed :
  wit_ok wit_fallback_json wit_fallback_script = true
  /\ wit_ok wit_lists_json wit_lists_script = true
  /\ wit_ok wit_flows_json wit_flows_script = true.
Proof. repeat split; vm_compute; reflexivity. Qed.
