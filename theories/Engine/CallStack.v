(* Engine/CallStack.v — model of runtime/src/callstack.rs (CallStack, Thread,
   Element operations) and the accessors StoryState has for them.  No proofs. *)
From Ink.Engine Require Export Iface.

Definition element_new (t : pushpop) (p : pointer) (inexpr : bool) : element :=
  mkElement p inexpr [] t 0 0%Z.
Definition thread_new : thread := mkThread [] ptr_null 0.

(* CallStack::reset / new *)
Definition cs_reset (cs : callstack) : callstack :=
  cs <| cs_threads := [mkThread [element_new PTunnel (ptr_start_of []) false] ptr_null 0] |>.
Definition cs_new : callstack := cs_reset (mkCallstack [] 0).

Definition cs_cur_thread (cs : callstack) : Res thread :=
  unwrap_or_panic "callstack.rs:get_current_thread:threads.last().unwrap()" (last_opt (cs_threads cs)).
Definition cs_cur_element (cs : callstack) : Res element :=
  do t <- cs_cur_thread cs;
  unwrap_or_panic "callstack.rs:get_current_element:callstack.last().unwrap()" (last_opt (th_cs t)).

Definition cs_set_cur_thread_raw (cs : callstack) (t : thread) : callstack :=
  cs <| cs_threads ::= fun l => set_last l t |>.
Definition cs_upd_cur_element (cs : callstack) (f : element -> element) : Res callstack :=
  do t <- cs_cur_thread cs;
  do e <- cs_cur_element cs;
  Ok (cs_set_cur_thread_raw cs (t <| th_cs ::= fun l => set_last l (f e) |>)).

(* get_current_element_index = callstack.len() - 1 (as i32) *)
Definition cs_cur_index (cs : callstack) : Res Z :=
  do t <- cs_cur_thread cs; Ok (Z.of_nat (length (th_cs t)) - 1)%Z.

Definition pushpop_eqb (a b : pushpop) : bool :=
  match a, b with
  | PTunnel, PTunnel | PFunction, PFunction | PFunctionEvalFromGame, PFunctionEvalFromGame => true
  | _, _ => false
  end.

Definition cs_elem_is_eval_from_game (cs : callstack) : Res bool :=
  do e <- cs_cur_element cs; Ok (pushpop_eqb (el_type e) PFunctionEvalFromGame).
Definition cs_can_pop_thread (cs : callstack) : Res bool :=
  if Nat.ltb 1 (length (cs_threads cs)) then
    do b <- cs_elem_is_eval_from_game cs; Ok (negb b)
  else Ok false.
Definition cs_pop_thread (cs : callstack) : Res callstack :=
  do b <- cs_can_pop_thread cs;
  if b then Ok (cs <| cs_threads ::= @removelast _ |>)
  else Err InvalidState (T "Can't pop thread").
Definition cs_push_thread (cs : callstack) : Res callstack :=
  do t <- cs_cur_thread cs;
  let n := cs_counter cs + 1 in
  Ok (cs <| cs_counter := n |> <| cs_threads ::= fun l => l ++ [t <| th_index := n |>] |>).
(* fork_thread: returns the forked thread, bumps the counter *)
Definition cs_fork_thread (cs : callstack) : Res (thread * callstack) :=
  do t <- cs_cur_thread cs;
  let n := cs_counter cs + 1 in
  Ok (t <| th_index := n |>, cs <| cs_counter := n |>).
(* set_current_thread: threads.clear(); threads.push(value) *)
Definition cs_set_current_thread (cs : callstack) (t : thread) : callstack :=
  cs <| cs_threads := [t] |>.

Definition cs_can_pop (cs : callstack) : Res bool :=
  do t <- cs_cur_thread cs; Ok (Nat.ltb 1 (length (th_cs t))).
Definition cs_can_pop_type (cs : callstack) (t : option pushpop) : Res bool :=
  do b <- cs_can_pop cs;
  if negb b then Ok false else
  match t with
  | None => Ok true
  | Some ty => do e <- cs_cur_element cs; Ok (pushpop_eqb (el_type e) ty)
  end.
Definition cs_pop (cs : callstack) (t : option pushpop) : Res callstack :=
  do b <- cs_can_pop_type cs t;
  if b then
    do th <- cs_cur_thread cs;
    Ok (cs_set_cur_thread_raw cs (th <| th_cs ::= @removelast _ |>))
  else Err InvalidState (T "Mismatched push/pop in Callstack").

(* CallStack::push *)
Definition cs_push (cs : callstack) (t : pushpop) (evalh : N) (outlen : Z) : Res callstack :=
  do e <- cs_cur_element cs;
  do th <- cs_cur_thread cs;
  let ne := (element_new t (el_ptr e) false) <| el_evalh := evalh |> <| el_fstart := outlen |> in
  Ok (cs_set_cur_thread_raw cs (th <| th_cs ::= fun l => l ++ [ne] |>)).

Definition cs_thread_with_index (cs : callstack) (i : N) : option thread :=
  find (fun t => N.eqb (th_index t) i) (cs_threads cs).

(* context_for_variable_named *)
Definition cs_context_for_variable (cs : callstack) (name : text) : Res Z :=
  do e <- cs_cur_element cs;
  if assoc_mem name (el_temps e) then do i <- cs_cur_index cs; Ok (i + 1)%Z else Ok 0%Z.

(* get_temporary_variable_with_name: `.get((ci-1) as usize)` then `.unwrap()` *)
Definition cs_get_temp (cs : callstack) (name : text) (ci : Z) : Res (option value) :=
  do ci' <- (if (ci =? -1)%Z then do i <- cs_cur_index cs; Ok (i + 1)%Z else Ok ci);
  do th <- cs_cur_thread cs;
  if (ci' - 1 <? 0)%Z then Panic (T "callstack.rs:get_temporary_variable_with_name:context_element.unwrap()")
  else
  match nth_error (th_cs th) (Z.to_nat (ci' - 1)) with
  | None => Panic (T "callstack.rs:get_temporary_variable_with_name:context_element.unwrap()")
  | Some e => Ok (assoc name (el_temps e))
  end.

(* set_temporary_variable; [retain] = Value::retain_list_origins_for_assignment *)
Definition cs_set_temp (retain : value -> value -> Res value) (cs : callstack) (name : text) (v : value)
           (declare_new : bool) (ci : Z) : Res callstack :=
  do ci' <- (if (ci =? -1)%Z then do i <- cs_cur_index cs; Ok (i + 1)%Z else Ok ci);
  do th <- cs_cur_thread cs;
  if (ci' - 1 <? 0)%Z then Panic (T "callstack.rs:set_temporary_variable:get_mut().unwrap()")
  else
  let k := Z.to_nat (ci' - 1) in
  match nth_error (th_cs th) k with
  | None => Panic (T "callstack.rs:set_temporary_variable:get_mut().unwrap()")
  | Some e =>
      if negb declare_new && negb (assoc_mem name (el_temps e))
      then Err InvalidState (T "Could not find temporary variable to set")
      else
        do v' <- match assoc name (el_temps e) with Some old => retain old v | None => Ok v end;
        let e' := e <| el_temps ::= assoc_set name v' |> in
        Ok (cs_set_cur_thread_raw cs (th <| th_cs ::= fun l => set_nth k l e' |>))
  end.

(* ---------- StoryState accessors ---------- *)
Definition ss_cs (s : sstate) : callstack := fl_cs (ss_flow s).
Definition ss_set_cs (s : sstate) (cs : callstack) : sstate :=
  s <| ss_flow ::= fun f => f <| fl_cs := cs |> |>.
Definition ss_out (s : sstate) : list obj := fl_out (ss_flow s).
Definition ss_set_out (s : sstate) (o : list obj) : sstate :=
  s <| ss_flow ::= fun f => f <| fl_out := o |> |>.
Definition ss_choices (s : sstate) : list choice := fl_choices (ss_flow s).
Definition ss_set_choices (s : sstate) (c : list choice) : sstate :=
  s <| ss_flow ::= fun f => f <| fl_choices := c |> |>.

Definition ss_cur_pointer (s : sstate) : Res pointer :=
  do e <- cs_cur_element (ss_cs s); Ok (el_ptr e).
Definition ss_set_cur_pointer (s : sstate) (p : pointer) : Res sstate :=
  do cs <- cs_upd_cur_element (ss_cs s) (fun e => e <| el_ptr := p |>); Ok (ss_set_cs s cs).
Definition ss_prev_pointer (s : sstate) : Res pointer :=
  do t <- cs_cur_thread (ss_cs s); Ok (th_prev t).
Definition ss_set_prev_pointer (s : sstate) (p : pointer) : Res sstate :=
  do t <- cs_cur_thread (ss_cs s);
  Ok (ss_set_cs s (cs_set_cur_thread_raw (ss_cs s) (t <| th_prev := p |>))).
Definition ss_in_expr (s : sstate) : Res bool :=
  do e <- cs_cur_element (ss_cs s); Ok (el_inexpr e).
Definition ss_set_in_expr (s : sstate) (b : bool) : Res sstate :=
  do cs <- cs_upd_cur_element (ss_cs s) (fun e => e <| el_inexpr := b |>); Ok (ss_set_cs s cs).

Definition ss_has_error (s : sstate) : bool := match ss_errors s with [] => false | _ => true end.
Definition ss_has_warning (s : sstate) : bool := match ss_warnings s with [] => false | _ => true end.
(* StoryState::can_continue *)
Definition ss_can_continue (s : sstate) : Res bool :=
  do p <- ss_cur_pointer s; Ok (negb (ptr_is_null p) && negb (ss_has_error s)).

(* monadic wrappers *)
Definition m_state_res (f : sstate -> Res sstate) : M unit :=
  let* s := get_state in let* s' := lift (f s) in mod_state (fun _ => s').
Definition m_read {A} (f : sstate -> Res A) : M A :=
  let* s := get_state in lift (f s).
Definition m_cs_res (f : callstack -> Res callstack) : M unit :=
  m_state_res (fun s => do cs <- f (ss_cs s); Ok (ss_set_cs s cs)).
