(* Engine/Output.v — output stream rules of story_state.rs (lines 160-700):
   current text / tags, whitespace cleaning, newline / glue / function-trim
   logic of push_to_output_stream.  No proofs. *)
From Ink.Engine Require Export CallStack.

Definition is_cmd (o : obj) (c : cmd) : bool :=
  match o with
  | OCmd c' => match c, c' with
               | BeginString, BeginString | EndString, EndString | BeginTag, BeginTag
               | EndTag, EndTag => true
               | _, _ => false
               end
  | _ => false
  end.
Definition is_any_cmd (o : obj) : bool := match o with OCmd _ => true | _ => false end.
Definition as_string (o : obj) : option text := match o with OVal (VString s) => Some s | _ => None end.
Definition is_glue (o : obj) : bool := match o with OGlue => true | _ => false end.

(* in_string_evaluation *)
Definition in_string_evaluation (s : sstate) : bool :=
  existsb (fun o => is_cmd o BeginString) (ss_out s).

(* clean_output_whitespace (char-indexed, as the Rust `chars().enumerate()`) *)
Fixpoint clean_ws_loop (l : text) (i : Z) (ws_start : Z) (line_start : Z) (acc : text) : text :=
  match l with
  | [] => rev acc
  | c :: r =>
      let inl := is_inline_ws c in
      let ws_start1 := if inl && (ws_start =? -1)%Z then i else ws_start in
      let acc1 := if negb inl then
                    (if negb (N.eqb c c_nl) && (0 <? ws_start1)%Z && negb (ws_start1 =? line_start)%Z
                     then c_space :: acc else acc)
                  else acc in
      let ws_start2 := if negb inl then (-1)%Z else ws_start1 in
      let line_start1 := if N.eqb c c_nl then (i + 1)%Z else line_start in
      let acc2 := if negb inl then c :: acc1 else acc1 in
      clean_ws_loop r (i + 1)%Z ws_start2 line_start1 acc2
  end.
Definition clean_output_whitespace (t : text) : text := clean_ws_loop t 0%Z (-1)%Z 0%Z [].

(* get_current_text *)
Fixpoint current_text_loop (l : list obj) (in_tag : bool) (acc : text) : text :=
  match l with
  | [] => acc
  | o :: r =>
      match (if in_tag then None else as_string o) with
      | Some t => current_text_loop r in_tag (acc ++ t)
      | None =>
          match o with
          | OCmd BeginTag => current_text_loop r true acc
          | OCmd EndTag => current_text_loop r false acc
          | _ => current_text_loop r in_tag acc
          end
      end
  end.
Definition current_text (s : sstate) : text :=
  clean_output_whitespace (current_text_loop (ss_out s) false []).

(* get_current_tags *)
Definition flush_tag (sb : text) (tags : list text) : list text :=
  match sb with [] => tags | _ => tags ++ [clean_output_whitespace sb] end.
Fixpoint current_tags_loop (l : list obj) (in_tag : bool) (sb : text) (tags : list text) : list text :=
  match l with
  | [] => flush_tag sb tags
  | o :: r =>
      match o with
      | OCmd BeginTag =>
          if in_tag && (match sb with [] => false | _ => true end)
          then current_tags_loop r true [] (flush_tag sb tags)
          else current_tags_loop r true sb tags
      | OCmd EndTag => current_tags_loop r false [] (flush_tag sb tags)
      | OCmd _ => current_tags_loop r in_tag sb tags
      | _ =>
          if in_tag then
            match o with
            | OVal (VString t) => current_tags_loop r in_tag (sb ++ t) tags
            | OTag t => current_tags_loop r in_tag sb (match t with [] => tags | _ => tags ++ [t] end)
            | _ => current_tags_loop r in_tag sb tags
            end
          else current_tags_loop r in_tag sb tags
      end
  end.
Definition current_tags (s : sstate) : list text := current_tags_loop (ss_out s) false [] [].

(* output_stream_ends_in_newline: scan from the end *)
Fixpoint ends_in_newline_rev (l : list obj) : bool :=
  match l with
  | [] => false
  | o :: r =>
      match o with
      | OCmd _ => false
      | OVal (VString t) =>
          if str_is_newline t then true
          else if str_is_non_ws t then false
          else ends_in_newline_rev r
      | _ => ends_in_newline_rev r
      end
  end.
Definition output_ends_in_newline (s : sstate) : bool := ends_in_newline_rev (rev (ss_out s)).

Definition output_contains_content (s : sstate) : bool :=
  existsb (fun o => match as_string o with Some _ => true | None => false end) (ss_out s).

(* ---------- try_splitting_head_tail_whitespace ---------- *)
Definition sub_text (t : text) (a b : Z) : text :=
  firstn (Z.to_nat (b - a)) (skipn (Z.to_nat a) t).

(* leading scan: returns (first newline idx, last newline idx) or -1 *)
Fixpoint head_scan (l : text) (i first last : Z) : Z * Z :=
  match l with
  | [] => (first, last)
  | c :: r =>
      if N.eqb c c_nl then head_scan r (i + 1)%Z (if (first =? -1)%Z then i else first) i
      else if is_inline_ws c then head_scan r (i + 1)%Z first last
      else (first, last)
  end.
(* trailing scan over the reversed text; ri = len - i - 1 *)
Fixpoint tail_scan (l : text) (len i last first : Z) : Z * Z :=
  match l with
  | [] => (last, first)
  | c :: r =>
      let ri := (len - i - 1)%Z in
      if N.eqb c c_nl then tail_scan r len (i + 1)%Z (if (last =? -1)%Z then ri else last) ri
      else if is_inline_ws c then tail_scan r len (i + 1)%Z last first
      else (last, first)
  end.

(* The Rust code mixes char indices (enumerate) and byte length (len()); both
   scans only ever advance over ASCII characters, so counting from the end in
   chars and in bytes coincide.  The model works in char indices. *)
Definition try_split_head_tail (t : text) : option (list text) :=
  let len := Z.of_nat (length t) in
  let '(hf, hl) := head_scan t 0%Z (-1)%Z (-1)%Z in
  let '(tl, tf) := tail_scan (rev t) len 0%Z (-1)%Z (-1)%Z in
  if (hf =? -1)%Z && (tl =? -1)%Z then None else
  let l1 := if negb (hf =? -1)%Z
            then (if (0 <? hf)%Z then [sub_text t 0 hf] else []) ++ [[c_nl]] else [] in
  let inner_start := if negb (hf =? -1)%Z then (hl + 1)%Z else 0%Z in
  let inner_end := if negb (tl =? -1)%Z then tf else len in
  let l2 := if (inner_start <? inner_end)%Z then [sub_text t inner_start inner_end] else [] in
  let l3 := if negb (tl =? -1)%Z && (hl <? tf)%Z
            then [[c_nl]] ++ (if (tl <? len - 1)%Z then [sub_text t (tl + 1) len] else [])
            else [] in
  Some (l1 ++ l2 ++ l3).

(* ---------- pushing ---------- *)
(* trim_newlines_from_output_stream *)
Fixpoint trim_find_rev (l : list obj) (i : Z) (remove_from : Z) : Z :=
  (* l is the reversed stream, i the index of its head in the original stream *)
  match l with
  | [] => remove_from
  | o :: r =>
      match o with
      | OCmd _ => remove_from
      | OVal (VString t) =>
          if str_is_non_ws t then remove_from
          else if str_is_newline t then trim_find_rev r (i - 1)%Z i
          else trim_find_rev r (i - 1)%Z remove_from
      | _ => trim_find_rev r (i - 1)%Z remove_from
      end
  end.
Definition trim_newlines (out : list obj) : list obj :=
  let n := Z.of_nat (length out) in
  let from := trim_find_rev (rev out) (n - 1)%Z (-1)%Z in
  if (from <? 0)%Z then out
  else firstn (Z.to_nat from) out
       ++ filter (fun o => match as_string o with Some _ => false | None => true end)
                 (skipn (Z.to_nat from) out).

(* remove_existing_glue: from the end, remove Glue until a ControlCommand *)
Fixpoint remove_glue_rev (l : list obj) : list obj :=
  match l with
  | [] => []
  | o :: r => if is_glue o then remove_glue_rev r
              else if is_any_cmd o then l
              else o :: remove_glue_rev r
  end.
Definition remove_existing_glue (out : list obj) : list obj := rev (remove_glue_rev (rev out)).

(* the backward scan of push_to_output_stream_individual: returns
   (glue_trim_index, function_trim_index') *)
Fixpoint glue_scan_rev (l : list obj) (i : Z) (ftrim : Z) : Z * Z :=
  match l with
  | [] => (-1, ftrim)%Z
  | o :: r =>
      match o with
      | OCmd BeginString => (-1, if (ftrim <=? i)%Z then -1 else ftrim)%Z
      | OCmd _ => glue_scan_rev r (i - 1)%Z ftrim
      | OGlue => (i, ftrim)
      | _ => glue_scan_rev r (i - 1)%Z ftrim
      end
  end.

(* reset function_start_in_output_stream of the topmost run of Function elements *)
Fixpoint clear_fstart_rev (l : list element) : list element :=
  match l with
  | [] => []
  | e :: r => if pushpop_eqb (el_type e) PFunction then (e <| el_fstart := (-1)%Z |>) :: clear_fstart_rev r
              else l
  end.

Definition push_individual (o : obj) (s : sstate) : Res sstate :=
  match o with
  | OGlue => Ok (ss_set_out s (trim_newlines (ss_out s) ++ [o]))
  | OVal (VString t) =>
      do cur <- cs_cur_element (ss_cs s);
      let ftrim0 := if pushpop_eqb (el_type cur) PFunction then el_fstart cur else (-1)%Z in
      let out := ss_out s in
      let '(gtrim, ftrim) := glue_scan_rev (rev out) (Z.of_nat (length out) - 1)%Z ftrim0 in
      let trim := if negb (gtrim =? -1)%Z && negb (ftrim =? -1)%Z then Z.min ftrim gtrim
                  else if negb (gtrim =? -1)%Z then gtrim else ftrim in
      if negb (trim =? -1)%Z then
        if str_is_newline t then Ok s
        else if str_is_non_ws t then
          let s1 := if (-1 <? gtrim)%Z then ss_set_out s (remove_existing_glue out) else s in
          do s2 <- (if (-1 <? ftrim)%Z then
                      do th <- cs_cur_thread (ss_cs s1);
                      Ok (ss_set_cs s1 (cs_set_cur_thread_raw (ss_cs s1)
                            (th <| th_cs ::= fun l => rev (clear_fstart_rev (rev l)) |>)))
                    else Ok s1);
          Ok (ss_set_out s2 (ss_out s2 ++ [o]))
        else Ok (ss_set_out s (out ++ [o]))
      else if str_is_newline t && (output_ends_in_newline s || negb (output_contains_content s))
      then Ok s
      else Ok (ss_set_out s (out ++ [o]))
  | _ => Ok (ss_set_out s (ss_out s ++ [o]))
  end.

(* push_to_output_stream *)
Definition push_to_output (o : obj) (s : sstate) : Res sstate :=
  match o with
  | OVal (VString t) =>
      match try_split_head_tail t with
      | Some parts => foldM (fun s' p => push_individual (OVal (VString p)) s') parts s
      | None => push_individual o s
      end
  | _ => push_individual o s
  end.

(* pop_from_output_stream *)
Definition pop_from_output (n : nat) (s : sstate) : sstate :=
  let out := ss_out s in
  if Nat.leb n (length out) then ss_set_out s (firstn (length out - n) out) else s.

(* reset_output *)
Definition reset_output (objs : list obj) (s : sstate) : sstate := ss_set_out s objs.

(* trim_whitespace_from_function_end: from the end down to function start,
   remove newline / inline-whitespace strings until a command or real text *)
Fixpoint trim_fn_end_rev (l : list obj) (i : Z) (start : Z) : list obj :=
  match l with
  | [] => []
  | o :: r =>
      if (i <? start)%Z then l else
      match o with
      | OCmd _ => l
      | OVal (VString t) =>
          if str_is_newline t || str_is_inline_ws t then trim_fn_end_rev r (i - 1)%Z start else l
      | _ => o :: trim_fn_end_rev r (i - 1)%Z start
      end
  end.
Definition trim_whitespace_from_function_end (s : sstate) : Res sstate :=
  do e <- cs_cur_element (ss_cs s);
  let start := if (el_fstart e =? -1)%Z then 0%Z else el_fstart e in
  let out := ss_out s in
  Ok (ss_set_out s (rev (trim_fn_end_rev (rev out) (Z.of_nat (length out) - 1)%Z start))).
