(* Engine/Tie.v — the switches the engine model is run with are the ones
   REGENERATED from /repo's sources (Gen/EngineGen.v).  The lemmas below are the
   facts about the current code that the shell theorems rest on; each stops
   compiling when the code loses the corresponding ordering / check. *)
From Ink.Engine Require Import Iface.
From Ink.Gen Require Import EngineGen.

Definition sw_now : switches :=
  mkSwitches alias_current warnings_cleared observer_removal_checked remove_flow_checked
             seed_ovf_panics cont_check_first path_validated_first eval_args_first ext_guard_fixed
             guard_setvar guard_remove_flow guard_switch_default guard_load counter_dec_first.

Lemma now_cont_check_first : sw_cont_check_first sw_now = true.          Proof. reflexivity. Qed.
Lemma now_path_validated_first : sw_path_validated_first sw_now = true.  Proof. reflexivity. Qed.
Lemma now_eval_args_first : sw_eval_args_first sw_now = true.            Proof. reflexivity. Qed.
Lemma now_observer_removal_checked : sw_observer_removal_checked sw_now = true. Proof. reflexivity. Qed.
Lemma now_remove_flow_checked : sw_remove_flow_checked sw_now = true.    Proof. reflexivity. Qed.
Lemma now_warnings_cleared : sw_warnings_cleared sw_now = true.          Proof. reflexivity. Qed.
Lemma now_ext_guard_fixed : sw_ext_guard_fixed sw_now = true.            Proof. reflexivity. Qed.
Lemma now_guard_setvar : sw_guard_setvar sw_now = true.                  Proof. reflexivity. Qed.
Lemma now_guard_remove_flow : sw_guard_remove_flow sw_now = true.        Proof. reflexivity. Qed.
Lemma now_guard_switch_default : sw_guard_switch_default sw_now = true.  Proof. reflexivity. Qed.
Lemma now_guard_load : sw_guard_load sw_now = true.                      Proof. reflexivity. Qed.
Lemma now_seed_wraps : sw_ovf_panics sw_now = false.                     Proof. reflexivity. Qed.
Lemma now_no_alias : sw_alias_current sw_now = false.                   Proof. reflexivity. Qed.
Lemma now_counter_dec_first : sw_counter_dec_first sw_now = true.       Proof. reflexivity. Qed.
