(* Engine/SaveProofs.v — lemmas about the save format model (Engine/Save.v):
   round trips of values, stream objects, dictionaries, call-stack elements,
   threads, call stacks, choices, variables, flows and whole states; the
   refutation witnesses for the behavioural half on the current sources.
   Statements used by Props/C02.v are at the end of each part. *)
From Coq Require Import Lia List Bool.
From Ink.Engine Require Import SaveWf.
From Ink.Data Require Import PathProofs PathTie InkList.
From Ink.Json Require Import StdLoad.
From Ink.Gen Require Import PathGen LoadGen CmdGen NativeGen SaveGen.
Import ListNotations.

(* ================================================================= *)
(*  generic list / monad lemmas                                       *)
(* ================================================================= *)
Lemma mapM_map_ok {A B C} (f : B -> Res C) (g : A -> B) (h : A -> C) l :
  (forall x, In x l -> f (g x) = Ok (h x)) -> mapM f (map g l) = Ok (map h l).
Proof.
  induction l as [|x l IH]; intros H; cbn; [reflexivity|].
  rewrite H by now left. cbn. rewrite IH by (intros y Hy; apply H; now right). reflexivity.
Qed.

Lemma mapM_ok_ext {A B} (f : A -> Res B) (h : A -> B) l :
  (forall x, In x l -> f x = Ok (h x)) -> mapM f l = Ok (map h l).
Proof.
  intros H. rewrite <- (map_id l) at 1. apply mapM_map_ok. exact H.
Qed.

Lemma forallb_In {A} (p : A -> bool) l x : forallb p l = true -> In x l -> p x = true.
Proof. intros H Hin. rewrite forallb_forall in H. now apply H. Qed.

Lemma andb_elim_l a b : a && b = true -> a = true.
Proof. intros H; now apply andb_true_iff in H. Qed.
Lemma andb_elim_r a b : a && b = true -> b = true.
Proof. intros H; now apply andb_true_iff in H. Qed.

(* ---------- association lists with distinct keys ---------- *)
Lemma assoc_mem_false_assoc {V} k (l : list (text * V)) : assoc_mem k l = false -> assoc k l = None.
Proof. unfold assoc_mem. destruct (assoc k l); [discriminate|reflexivity]. Qed.

Lemma assoc_app_none {V} k (a b : list (text * V)) : assoc k a = None -> assoc k (a ++ b) = assoc k b.
Proof.
  induction a as [|[k' v] a IH]; cbn; [reflexivity|].
  destruct (text_eqb k k'); [discriminate|exact IH].
Qed.

Lemma assoc_set_fresh {V} k (v : V) l : assoc k l = None -> assoc_set k v l = l ++ [(k, v)].
Proof.
  induction l as [|[k' v'] l IH]; cbn; [reflexivity|].
  destruct (text_eqb k k'); [discriminate|]. intros H. now rewrite IH.
Qed.

Lemma assoc_map_none {V W} (g : text * V -> W) k (l : list (text * V)) :
  assoc k l = None -> assoc k (map (fun kv => (fst kv, g kv)) l) = None.
Proof.
  induction l as [|[k' v] l IH]; cbn; [reflexivity|].
  destruct (text_eqb k k'); [discriminate|exact IH].
Qed.

(* folding Map::insert over a list with distinct keys rebuilds the list *)
Lemma fold_assoc_set_nodup {V W} (g : text * V -> W) (m : list (text * V)) :
  keys_nodup_b m = true ->
  forall acc, (forall kv, In kv m -> assoc (fst kv) acc = None) ->
  fold_left (fun a kv => assoc_set (fst kv) (g kv) a) m acc
  = acc ++ map (fun kv => (fst kv, g kv)) m.
Proof.
  induction m as [|[k v] m IH]; intros Hnd acc Hacc; cbn [fold_left map]; [now rewrite app_nil_r|].
  cbn in Hnd. apply andb_true_iff in Hnd as [Hk Hm]. apply negb_true_iff in Hk.
  cbn [fst]. rewrite assoc_set_fresh by (apply (Hacc (k, v)); now left).
  rewrite IH; [now rewrite <- app_assoc| assumption |].
  intros [k2 v2] Hin. cbn [fst]. rewrite assoc_app_none by (apply (Hacc (k2, v2)); now right).
  cbn. destruct (text_eqb k2 k) eqn:E; [|reflexivity].
  apply text_eqb_eq in E; subst k2. apply assoc_mem_false_assoc in Hk.
  exfalso. clear -Hk Hin. induction m as [|[k' v'] m IH]; [contradiction|].
  cbn in Hk. destruct (text_eqb k k') eqn:E; [discriminate|].
  destruct Hin as [Heq|Hin]; [inversion Heq; subst; now rewrite text_eqb_refl in E|now apply IH].
Qed.

Lemma fold_assoc_set_nodup0 {V W} (g : text * V -> W) (m : list (text * V)) :
  keys_nodup_b m = true ->
  fold_left (fun a kv => assoc_set (fst kv) (g kv) a) m [] = map (fun kv => (fst kv, g kv)) m.
Proof. intros H. now rewrite fold_assoc_set_nodup. Qed.

(* ================================================================= *)
(*  numbers                                                           *)
(* ================================================================= *)
Lemma in_i32_bounds z : in_i32 z = true -> (-2147483648 <= z <= 2147483647)%Z.
Proof. unfold in_i32, i32_min, i32_max. intros H. apply andb_true_iff in H as [H1 H2]. lia. Qed.

Lemma in_i32_as_i64 z : in_i32 z = true -> j_as_i64 (JInt z) = Some z.
Proof.
  intros H. apply in_i32_bounds in H. unfold j_as_i64, i64_min, i64_max.
  destruct (_ <=? z)%Z eqn:A; destruct (z <=? _)%Z eqn:B; cbn; try reflexivity; lia.
Qed.

Lemma wrap32_id z : in_i32 z = true -> wrap32 z = z.
Proof.
  intros H. apply in_i32_bounds in H. unfold wrap32, two31, two32.
  rewrite Z.mod_small by lia. lia.
Qed.

Lemma i64_to_i32_id z : in_i32 z = true -> i64_to_i32 z = Some z.
Proof. unfold i64_to_i32. now intros ->. Qed.

Lemma N_as_i64 n : (n <? 9223372036854775808)%N = true -> j_as_i64 (JInt (Z.of_N n)) = Some (Z.of_N n).
Proof.
  intros H. apply N.ltb_lt in H. unfold j_as_i64, i64_min, i64_max.
  destruct (_ <=? Z.of_N n)%Z eqn:A; destruct (Z.of_N n <=? _)%Z eqn:B; cbn; try reflexivity; lia.
Qed.

Lemma N_to_u64_id n : (n <? 9223372036854775808)%N = true -> Z.to_N (to_u64 (Z.of_N n)) = n.
Proof.
  intros H. apply N.ltb_lt in H. unfold to_u64, two64. rewrite Z.mod_small by lia. apply N2Z.id.
Qed.

(* ================================================================= *)
(*  paths                                                             *)
(* ================================================================= *)
Lemma no_dot_spec t : no_dot t = true -> ~ In c_dot t.
Proof.
  unfold no_dot. intros H Hin. apply negb_true_iff in H.
  assert (existsb (N.eqb c_dot) t = true) by (apply existsb_exists; exists c_dot; split; [assumption|apply N.eqb_refl]).
  congruence.
Qed.

Lemma wf_comp_b_spec c : wf_comp_b c = true -> wf_comp c.
Proof.
  destruct c as [i|n]; cbn; intros H.
  - now apply N.ltb_lt in H.
  - apply andb_true_iff in H as [H H3]. apply andb_true_iff in H as [H1 H2].
    split; [|split].
    + destruct n; [discriminate|discriminate].
    + now apply no_dot_spec.
    + destruct (parse_usize n); [discriminate|reflexivity].
Qed.

Lemma path_parse_string p : wf_path_b p = true -> path_parse (Some (path_string p)) = p.
Proof.
  destruct p as [cs rel cache]. unfold wf_path_b. cbn [p_cache p_comps p_rel]. intros H.
  apply andb_true_iff in H as [H Hne]. apply andb_true_iff in H as [Hc Hcs].
  destruct cache; [discriminate|].
  assert (Hwf : Forall wf_comp cs).
  { apply Forall_forall. intros c Hin. apply wf_comp_b_spec. eapply forallb_In; eassumption. }
  assert (Hne' : cs <> [] \/ rel = false).
  { apply orb_true_iff in Hne as [Hn|Hn]; [left; destruct cs; [discriminate|discriminate]|right; now apply negb_true_iff in Hn]. }
  unfold path_parse. rewrite cache_off.
  pose proof (roundtrip_nocache cs rel Hwf Hne') as [E1 E2].
  pose proof (parsed_nocache (Some (path_string (path_new cs rel)))) as E3.
  change (mkPath cs rel None) with (path_new cs rel).
  destruct (path_of_string_gen false (Some (path_string (path_new cs rel)))) as [cs' rel' c'].
  cbn in *. subst. reflexivity.
Qed.

(* ================================================================= *)
(*  values                                                            *)
(* ================================================================= *)
Section Values.
Variable sw : save_switches.

Lemma read_bool b : read_value (write_value sw (VBool b)) = Ok (VBool b).
Proof. reflexivity. Qed.

Lemma read_int z : in_i32 z = true -> read_value (write_value sw (VInt z)) = Ok (VInt z).
Proof.
  intros H. unfold read_value, write_value, jtoken_to_obj. cbn [jtoken_to_obj_gen].
  rewrite (in_i32_as_i64 z H). unfold StdLoad.site. rewrite (i64_to_i32_id z H). reflexivity.
Qed.

Lemma read_float b : f32_bits_finite b = true -> read_value (write_value sw (VFloat b)) = Ok (VFloat b).
Proof. intros H. unfold write_value. rewrite H. reflexivity. Qed.

Lemma read_string s : read_value (write_value sw (VString s)) = Ok (VString s).
Proof.
  unfold write_value. destruct (str_is_newline s) eqn:E.
  - unfold str_is_newline in E. apply text_eqb_eq in E. subst. vm_compute. reflexivity.
  - unfold read_value, jtoken_to_obj. cbn [jtoken_to_obj_gen]. unfold jstr_to_obj.
    change (c_caret =? c_caret) with true. cbn. reflexivity.
Qed.

Lemma read_divert p : wf_path_b p = true -> read_value (write_value sw (VDivert p)) = Ok (VDivert p).
Proof.
  intros H. unfold read_value, write_value, jtoken_to_obj. cbn [jtoken_to_obj_gen].
  unfold jobj_to_obj, jfield, aget. cbn [assoc]. rewrite text_eqb_refl. cbn [j_as_str bind].
  now rewrite path_parse_string.
Qed.

Lemma read_varptr n ci : in_i32 ci = true -> read_value (write_value sw (VVarPtr n ci)) = Ok (VVarPtr n ci).
Proof.
  intros H. unfold read_value, write_value, jtoken_to_obj. cbn [jtoken_to_obj_gen].
  unfold jobj_to_obj, jfield, aget.
  change (assoc (T "^->") [(T "^var", JStr n); (T "ci", JInt ci)]) with (@None json).
  change (assoc (T "^var") [(T "^var", JStr n); (T "ci", JInt ci)]) with (Some (JStr n)).
  change (assoc (T "ci") [(T "^var", JStr n); (T "ci", JInt ci)]) with (Some (JInt ci)).
  cbn [j_as_str]. unfold StdLoad.site. cbn [bind].
  rewrite (in_i32_as_i64 ci H). cbn [bind]. now rewrite wrap32_id.
Qed.

End Values.

(* ================================================================= *)
(*  list values                                                       *)
(* ================================================================= *)
Lemma fold_assoc_set_keyed {A W} (key : A -> text) (g : A -> W) (m : list A) :
  keys_nodup_b (map (fun x => (key x, tt)) m) = true ->
  forall acc, (forall x, In x m -> assoc (key x) acc = None) ->
  fold_left (fun a x => assoc_set (key x) (g x) a) m acc = acc ++ map (fun x => (key x, g x)) m.
Proof.
  induction m as [|x m IH]; intros Hnd acc Hacc; cbn [fold_left map]; [now rewrite app_nil_r|].
  cbn in Hnd. apply andb_true_iff in Hnd as [Hk Hm]. apply negb_true_iff in Hk.
  rewrite assoc_set_fresh by (apply Hacc; now left).
  rewrite IH; [now rewrite <- app_assoc| assumption |].
  intros y Hin. rewrite assoc_app_none by (apply Hacc; now right).
  cbn. destruct (text_eqb (key y) (key x)) eqn:E; [|reflexivity].
  apply text_eqb_eq in E. apply assoc_mem_false_assoc in Hk. exfalso. clear -Hk Hin E.
  induction m as [|z m IH]; [contradiction|].
  cbn in Hk. destruct (text_eqb (key x) (key z)) eqn:E2; [discriminate|].
  destruct Hin as [->|Hin]; [rewrite E, text_eqb_refl in E2; discriminate|now apply IH].
Qed.

Lemma std_item_eqb_eq a b : StdLoad.item_eqb a b = InkList.item_eqb a b.
Proof. reflexivity. Qed.

Lemma opt_text_eqb_eq a b : InkList.opt_text_eqb a b = true <-> a = b.
Proof.
  destruct a, b; cbn; split; intros H; try discriminate; try reflexivity.
  - apply text_eqb_eq in H. now subst.
  - inversion H. apply text_eqb_refl.
Qed.

Lemma item_eqb_eq a b : InkList.item_eqb a b = true <-> a = b.
Proof.
  unfold InkList.item_eqb. destruct a as [oa na], b as [ob nb]. cbn. split.
  - intros H. apply andb_true_iff in H as [H1 H2]. apply opt_text_eqb_eq in H1. apply text_eqb_eq in H2. now subst.
  - intros H. inversion H; subst. apply andb_true_iff. split; [now apply opt_text_eqb_eq|apply text_eqb_refl].
Qed.

Lemma item_full_name_roundtrip it : wf_item_b it = true ->
  StdLoad.item_of_full_name (InkList.item_full_name it) = it.
Proof.
  destruct it as [[o|] n]; unfold wf_item_b; cbn [it_origin it_name]; [|discriminate].
  intros H. apply andb_true_iff in H as [Ho Hn]. apply no_dot_spec in Ho. apply no_dot_spec in Hn.
  unfold StdLoad.item_of_full_name, InkList.item_full_name. cbn [it_origin it_name].
  change (o ++ [c_dot] ++ n) with (join_with [c_dot] [o; n]).
  rewrite split_join; [reflexivity|discriminate|]. repeat constructor; assumption.
Qed.

Lemma item_full_name_inj a b : wf_item_b a = true -> wf_item_b b = true ->
  InkList.item_full_name a = InkList.item_full_name b -> a = b.
Proof.
  intros Ha Hb E. rewrite <- (item_full_name_roundtrip a Ha), <- (item_full_name_roundtrip b Hb). now rewrite E.
Qed.

Lemma items_names_nodup (items : list (listitem * Z)) :
  forallb (fun kv : listitem * Z => wf_item_b (fst kv) && in_i32 (snd kv)) items = true ->
  items_nodup_b items = true ->
  keys_nodup_b (map (fun kv : listitem * Z => (InkList.item_full_name (fst kv), tt)) items) = true.
Proof.
  induction items as [|[k v] items IH]; intros Hwf Hnd; [reflexivity|].
  cbn in Hwf, Hnd |- *. apply andb_true_iff in Hwf as [Hk Hwf]. apply andb_true_iff in Hnd as [Hn Hnd].
  apply andb_true_iff in Hk as [Hk _].
  rewrite IH by assumption. rewrite andb_true_r. apply negb_true_iff. apply negb_true_iff in Hn.
  unfold assoc_mem. destruct (assoc _ _) eqn:E; [|reflexivity]. exfalso.
  clear IH Hnd. induction items as [|[k2 v2] items IH]; [discriminate|].
  cbn in E, Hn, Hwf. apply orb_false_iff in Hn as [Hn1 Hn2].
  apply andb_true_iff in Hwf as [Hk2 Hwf]. apply andb_true_iff in Hk2 as [Hk2 _].
  destruct (text_eqb _ _) eqn:E2.
  - apply text_eqb_eq in E2. apply item_full_name_inj in E2; [|assumption|assumption]. subst.
    assert (InkList.item_eqb k2 k2 = true) by now apply item_eqb_eq. congruence.
  - now apply IH.
Qed.

Lemma items_insert_fresh it v acc :
  existsb (fun kv : listitem * Z => InkList.item_eqb it (fst kv)) acc = false ->
  StdLoad.items_insert it v acc = acc ++ [(it, v)].
Proof.
  induction acc as [|[k w] acc IH]; cbn; [reflexivity|]. intros H. apply orb_false_iff in H as [H1 H2].
  rewrite std_item_eqb_eq, H1. now rewrite IH.
Qed.

Lemma read_items_loop (rest : list (listitem * Z)) :
  forallb (fun kv : listitem * Z => wf_item_b (fst kv) && in_i32 (snd kv)) rest = true ->
  items_nodup_b rest = true ->
  forall acc,
  (forall kv, In kv rest -> existsb (fun kv' : listitem * Z => InkList.item_eqb (fst kv) (fst kv')) acc = false) ->
  foldM (fun acc (kv : text * json) =>
           do z <- StdLoad.site lsite_panics L_list_item_val (j_as_i64 (snd kv));
           Ok (StdLoad.items_insert (StdLoad.item_of_full_name (fst kv)) (wrap32 z) acc))
        (map (fun kv : listitem * Z => (InkList.item_full_name (fst kv), JInt (snd kv))) rest) acc
  = Ok (acc ++ rest).
Proof.
  induction rest as [|[k v] rest IH]; intros Hwf Hnd acc Hacc; cbn [map foldM]; [now rewrite app_nil_r|].
  cbn in Hwf, Hnd. apply andb_true_iff in Hwf as [Hk Hwf]. apply andb_true_iff in Hnd as [Hn Hnd].
  apply andb_true_iff in Hk as [Hk Hv]. cbn [fst snd].
  rewrite (in_i32_as_i64 v Hv). unfold StdLoad.site at 1. cbn [bind].
  rewrite item_full_name_roundtrip by assumption. rewrite wrap32_id by assumption.
  pose proof (Hacc (k, v) (or_introl eq_refl)) as Hf. cbn [fst] in Hf. rewrite (items_insert_fresh _ _ _ Hf).
  rewrite IH; [now rewrite <- app_assoc|assumption|assumption|].
  intros [k2 v2] Hin. cbn [fst]. rewrite existsb_app.
  pose proof (Hacc (k2, v2) (or_intror Hin)) as Ha. cbn [fst] in Ha. rewrite Ha. cbn.
  rewrite orb_false_r. apply negb_true_iff in Hn.
  destruct (InkList.item_eqb k2 k) eqn:E; [|reflexivity].
  apply item_eqb_eq in E. subst k2. exfalso.
  assert (existsb (fun kv : listitem * Z => InkList.item_eqb k (fst kv)) rest = true).
  { apply existsb_exists. exists (k, v2). split; [assumption|now apply item_eqb_eq]. }
  congruence.
Qed.

Section ValuesL.
Variable sw : save_switches.

Lemma jobj_list_only a : jobj_to_obj lsite_panics [(T "list", a)] = jlist_to_obj lsite_panics [(T "list", a)] a.
Proof. reflexivity. Qed.
Lemma jobj_list_origins a b :
  jobj_to_obj lsite_panics [(T "list", a); (T "origins", b)]
  = jlist_to_obj lsite_panics [(T "list", a); (T "origins", b)] a.
Proof. reflexivity. Qed.

Lemma read_list l : wf_list_b l = true ->
  read_value (write_value sw (VList l)) = Ok (VList (norm_list sw l)).
Proof.
  intros H. unfold wf_list_b in H. apply andb_true_iff in H as [Hwf Hnd].
  unfold read_value, write_value, write_ink_list, jtoken_to_obj.
  rewrite (fold_assoc_set_keyed (fun kv : listitem * Z => InkList.item_full_name (fst kv))
             (fun kv : listitem * Z => JInt (snd kv)) (l_items l)
             (items_names_nodup _ Hwf Hnd) []) by reflexivity.
  cbn [app]. unfold norm_list.
  destruct (ssw_origins_written sw && is_nil (l_items l) && negb (is_nil (l_init_names l))) eqn:Eo.
  - apply andb_true_iff in Eo as [Eo Hnn]. rewrite Eo.
    cbn [jtoken_to_obj_gen]. unfold jfield. rewrite jobj_list_origins. unfold jlist_to_obj.
    cbn [j_as_obj]. unfold StdLoad.site at 1. cbn [bind].
    change (assoc (T "origins") [(T "list", JObj (map (fun x : listitem * Z => (InkList.item_full_name (fst x), JInt (snd x))) (l_items l)));
                                 (T "origins", JArr (map JStr (l_init_names l)))])
      with (Some (JArr (map JStr (l_init_names l)))).
    cbn [j_as_arr]. unfold StdLoad.site at 1. cbn [bind].
    rewrite (mapM_map_ok _ JStr (fun x => x)) by reflexivity. rewrite map_id. cbn [bind].
    rewrite read_items_loop; [reflexivity|assumption|assumption|intros; reflexivity].
  - cbn [jtoken_to_obj_gen]. unfold jfield. rewrite jobj_list_only. unfold jlist_to_obj.
    cbn [j_as_obj]. unfold StdLoad.site at 1. cbn [bind].
    change (assoc (T "origins") [(T "list", JObj (map (fun x : listitem * Z => (InkList.item_full_name (fst x), JInt (snd x))) (l_items l)))])
      with (@None json). cbn [bind].
    rewrite read_items_loop; [|assumption|assumption|intros; reflexivity].
    cbn [app bind]. do 3 f_equal.
    destruct (ssw_origins_written sw && is_nil (l_items l)) eqn:E2; [|reflexivity].
    cbn in Eo. apply negb_false_iff in Eo. destruct (l_init_names l); [reflexivity|discriminate].
Qed.

(* every value kind *)
Lemma value_roundtrip_lemma v : wf_value_b v = true ->
  read_value (write_value sw v) = Ok (norm_value sw v).
Proof.
  destruct v; cbn [wf_value_b norm_value]; intros H.
  - apply read_bool.
  - now apply read_int.
  - now apply read_float.
  - now apply read_list.
  - apply read_string.
  - now apply read_divert.
  - now apply read_varptr.
Qed.

End ValuesL.

(* ================================================================= *)
(*  stream objects, object lists, dictionaries                        *)
(* ================================================================= *)
Section Objects.
Variable sw : save_switches.

Lemma read_value_inv j v : read_value j = Ok v -> jtoken_to_obj j None = Ok (OVal v).
Proof.
  unfold read_value. destruct (jtoken_to_obj j None) as [o| |]; cbn; try discriminate.
  destruct o; try discriminate. intros H. now inversion H.
Qed.

Lemma value_token_roundtrip v : wf_value_b v = true ->
  jtoken_to_obj (write_value sw v) None = Ok (OVal (norm_value sw v)).
Proof. intros H. apply read_value_inv. now apply value_roundtrip_lemma. Qed.

Lemma cmd_name_roundtrip c : jtoken_to_obj (JStr (cmd_name c)) None = Ok (OCmd c).
Proof. destruct c; vm_compute; reflexivity. Qed.

Lemma nop_name_roundtrip op :
  jtoken_to_obj (JStr (let n := nop_name op in if text_eqb n (T "^") then T "L^" else n)) None = Ok (ONative op).
Proof. destruct op; vm_compute; reflexivity. Qed.

Lemma obj_roundtrip o : wf_stream_obj_b o = true ->
  exists j, write_rtobject sw o = Ok j /\ jtoken_to_obj j None = Ok (norm_obj sw o).
Proof.
  destruct o; cbn [wf_stream_obj_b]; intros H; try discriminate; cbn [write_rtobject norm_obj];
    eexists; (split; [reflexivity|]).
  - now apply value_token_roundtrip.
  - apply cmd_name_roundtrip.
  - apply nop_name_roundtrip.
  - reflexivity.
  - reflexivity.
  - reflexivity.
Qed.

Lemma objs_roundtrip l : forallb wf_stream_obj_b l = true ->
  exists js, write_list_rt_objs sw l = Ok (JArr js)
             /\ jarray_to_obj_list js false = Ok (map (norm_obj sw) l).
Proof.
  unfold write_list_rt_objs, jarray_to_obj_list, jarray_to_obj_list_gen.
  induction l as [|o l IH]; intros H.
  - exists []. split; reflexivity.
  - cbn in H. apply andb_true_iff in H as [Ho Hl].
    destruct (obj_roundtrip o Ho) as (j & Hw & Hr). destruct (IH Hl) as (js & Hws & Hrs).
    exists (j :: js). cbn [mapM map]. rewrite Hw. cbn [bind].
    destruct (mapM (write_rtobject sw) l) as [js'| |]; cbn in Hws; try discriminate.
    inversion Hws; subst js'. cbn [bind]. split; [reflexivity|].
    change (jtoken_to_obj_gen lsite_panics j None) with (jtoken_to_obj j None). rewrite Hr. cbn [bind].
    rewrite Hrs. reflexivity.
Qed.

(* ---------- HashMap<String, Rc<Value>> ---------- *)
Lemma write_dictionary_nodup m : keys_nodup_b m = true ->
  write_dictionary_values sw m = JObj (map (fun kv : text * value => (fst kv, write_value sw (snd kv))) m).
Proof. intros H. unfold write_dictionary_values. now rewrite fold_assoc_set_nodup0. Qed.

Lemma keys_nodup_tail {V} k (v : V) m : keys_nodup_b ((k, v) :: m) = true ->
  assoc k m = None /\ keys_nodup_b m = true.
Proof.
  cbn. intros H. apply andb_true_iff in H as [H1 H2]. apply negb_true_iff in H1.
  split; [now apply assoc_mem_false_assoc|assumption].
Qed.

Lemma assoc_none_not_in {V} k (m : list (text * V)) : assoc k m = None -> forall v, ~ In (k, v) m.
Proof.
  induction m as [|[k' v'] m IH]; cbn; intros H v Hin; [assumption|].
  destruct (text_eqb k k') eqn:E; [discriminate|].
  destruct Hin as [Heq|Hin]; [inversion Heq; subst; now rewrite text_eqb_refl in E|now apply (IH H v)].
Qed.

Lemma read_valmap_loop (rest : list (text * value)) :
  keys_nodup_b rest = true ->
  forallb (fun kv : text * value => wf_value_b (snd kv)) rest = true ->
  forall acc, (forall kv, In kv rest -> assoc (fst kv) acc = None) ->
  foldM (fun acc (kv : text * json) =>
           do ob <- jtoken_to_obj_gen lsite_panics (snd kv) None;
           do v <- StdLoad.site lsite_panics L_hashmap_value (match ob with OVal v => Some v | _ => None end);
           Ok (assoc_set (fst kv) v acc))
        (map (fun kv : text * value => (fst kv, write_value sw (snd kv))) rest) acc
  = Ok (acc ++ norm_valmap sw rest).
Proof.
  induction rest as [|[k v] rest IH]; intros Hnd Hwf acc Hacc; cbn [map foldM norm_valmap]; [now rewrite app_nil_r|].
  apply keys_nodup_tail in Hnd as [Hk Hnd]. cbn in Hwf. apply andb_true_iff in Hwf as [Hv Hwf].
  cbn [fst snd].
  change (jtoken_to_obj_gen lsite_panics (write_value sw v) None) with (jtoken_to_obj (write_value sw v) None).
  rewrite value_token_roundtrip by assumption. cbn [bind]. unfold StdLoad.site at 1. cbn [bind].
  pose proof (Hacc (k, v) (or_introl eq_refl)) as Hf. cbn [fst] in Hf. rewrite (assoc_set_fresh _ _ _ Hf).
  fold (norm_valmap sw rest).
  rewrite IH; [now rewrite <- app_assoc|assumption|assumption|].
  intros [k2 v2] Hin. cbn [fst]. rewrite assoc_app_none by (apply (Hacc (k2, v2)); now right).
  cbn. destruct (text_eqb k2 k) eqn:E; [|reflexivity].
  apply text_eqb_eq in E. subst. exfalso. exact (assoc_none_not_in _ _ Hk _ Hin).
Qed.

Lemma valmap_roundtrip m : wf_valmap_b m = true ->
  exists o, write_dictionary_values sw m = JObj o /\ jobject_to_hashmap_values o = Ok (norm_valmap sw m).
Proof.
  unfold wf_valmap_b. intros H. apply andb_true_iff in H as [Hnd Hwf].
  eexists. split; [now apply write_dictionary_nodup|].
  unfold jobject_to_hashmap_values, jobject_to_hashmap_values_gen.
  rewrite read_valmap_loop; [reflexivity|assumption|assumption|intros; reflexivity].
Qed.

(* ---------- HashMap<String, i32> ---------- *)
Lemma read_intmap_loop (rest : list (text * Z)) :
  keys_nodup_b rest = true ->
  forallb (fun kv : text * Z => in_i32 (snd kv)) rest = true ->
  forall acc, (forall kv, In kv rest -> assoc (fst kv) acc = None) ->
  foldM (fun acc (kv : text * json) =>
           do z <- StdLoad.site lsite_panics L_int_hashmap_val (j_as_i64 (snd kv));
           Ok (assoc_set (fst kv) (wrap32 z) acc))
        (map (fun kv : text * Z => (fst kv, JInt (snd kv))) rest) acc
  = Ok (acc ++ rest).
Proof.
  induction rest as [|[k v] rest IH]; intros Hnd Hwf acc Hacc; cbn [map foldM]; [now rewrite app_nil_r|].
  apply keys_nodup_tail in Hnd as [Hk Hnd]. cbn in Hwf. apply andb_true_iff in Hwf as [Hv Hwf].
  cbn [fst snd]. rewrite (in_i32_as_i64 v Hv). unfold StdLoad.site at 1. cbn [bind].
  rewrite wrap32_id by assumption.
  pose proof (Hacc (k, v) (or_introl eq_refl)) as Hf. cbn [fst] in Hf. rewrite (assoc_set_fresh _ _ _ Hf).
  rewrite IH; [now rewrite <- app_assoc|assumption|assumption|].
  intros [k2 v2] Hin. cbn [fst]. rewrite assoc_app_none by (apply (Hacc (k2, v2)); now right).
  cbn. destruct (text_eqb k2 k) eqn:E; [|reflexivity].
  apply text_eqb_eq in E. subst. exfalso. exact (assoc_none_not_in _ _ Hk _ Hin).
Qed.

Lemma intmap_roundtrip m : wf_intmap_b m = true ->
  exists o, write_int_dictionary m = JObj o /\ jobject_to_int_hashmap o = Ok m.
Proof.
  unfold wf_intmap_b. intros H. apply andb_true_iff in H as [Hnd Hwf].
  eexists. split.
  - unfold write_int_dictionary. now rewrite fold_assoc_set_nodup0.
  - unfold jobject_to_int_hashmap, jobject_to_int_hashmap_gen.
    rewrite read_intmap_loop; [reflexivity|assumption|assumption|intros; reflexivity].
Qed.

End Objects.

(* ================================================================= *)
(*  call-stack elements, threads, call stacks                         *)
(* ================================================================= *)
Lemma pstep_eqb_eq a b : pstep_eqb a b = true -> a = b.
Proof.
  destruct a, b; cbn; intros H; try discriminate.
  - apply Nat.eqb_eq in H. now subst.
  - apply text_eqb_eq in H. now subst.
Qed.
Lemma pos_eqb_eq a b : pos_eqb a b = true -> a = b.
Proof.
  revert b. induction a as [|x a IH]; destruct b as [|y b]; cbn; intros H; try discriminate; [reflexivity|].
  apply andb_true_iff in H as [H1 H2]. apply pstep_eqb_eq in H1. apply IH in H2. now subst.
Qed.

Lemma pushpop_roundtrip t :
  (do ty <- or_bad "Invalid push/pop type" (j_as_i64 (JInt (pushpop_ord t))); pushpop_from_value (to_u64 ty)) = Ok t.
Proof. destruct t; reflexivity. Qed.

Section Stack.
Variable panics : ssite -> bool.
Variable sw : save_switches.
Variable root : container.

(* the shapes of an element object, read back with abstract field values *)
Definition read_el_tail (ptr : Res pointer) (ex ty : json) (fs : Z) (temps : Res (list (text * value))) : Res (option element) :=
  do t <- or_bad "Invalid push/pop type" (j_as_i64 ty);
  do pp <- pushpop_from_value (to_u64 t);
  do p <- ptr;
  do tm <- temps;
  Ok (Some (mkElement p (match j_as_bool ex with Some b => b | None => false end) tm pp 0 fs)).

Definition read_el_ptr (cps : text) (ij : json) : Res pointer :=
  let r := content_at_path root (path_parse (Some cps)) in
  let c := if is_cont_at root (sr_pos r) then Some (sr_pos r) else None in
  do idx <- or_bad "Invalid pointer index" (j_as_i64 ij);
  Ok (mkPtr c (wrap32 idx)).

(* the optional "fnStart" entry and what the loader makes of it *)
Definition fs_field (fsx : option json) : list (text * json) :=
  match fsx with Some j => [(T "fnStart", j)] | None => [] end.
Definition fs_read (fsx : option json) : Z :=
  if ssw_fstart_saved sw
  then match obind fsx j_as_i64 with Some z => wrap32 z | None => 0%Z end
  else 0%Z.

Lemma read_el_shape_00 ex ty fsx :
  read_element sw root (JObj ((T "exp", ex) :: (T "type", ty) :: fs_field fsx))
  = read_el_tail (Ok ptr_null) ex ty (fs_read fsx) (Ok []).
Proof. destruct fsx; reflexivity. Qed.
Lemma read_el_shape_01 ex ty fsx tm :
  read_element sw root (JObj ((T "exp", ex) :: (T "type", ty) :: fs_field fsx ++ [(T "temp", JObj tm)]))
  = read_el_tail (Ok ptr_null) ex ty (fs_read fsx) (jobject_to_hashmap_values tm).
Proof. destruct fsx; reflexivity. Qed.
Lemma read_el_shape_10 cps ij ex ty fsx :
  read_element sw root (JObj ((T "cPath", JStr cps) :: (T "idx", ij) :: (T "exp", ex) :: (T "type", ty) :: fs_field fsx))
  = read_el_tail (read_el_ptr cps ij) ex ty (fs_read fsx) (Ok []).
Proof. destruct fsx; reflexivity. Qed.
Lemma read_el_shape_11 cps ij ex ty fsx tm :
  read_element sw root (JObj ((T "cPath", JStr cps) :: (T "idx", ij) :: (T "exp", ex) :: (T "type", ty)
                              :: fs_field fsx ++ [(T "temp", JObj tm)]))
  = read_el_tail (read_el_ptr cps ij) ex ty (fs_read fsx) (jobject_to_hashmap_values tm).
Proof. destruct fsx; reflexivity. Qed.

(* the entry as write_element produces it *)
Definition fs_written (fstart : Z) : option json :=
  if ssw_fstart_saved sw && negb (fstart =? 0)%Z then Some (JInt fstart) else None.
Lemma fs_written_field fstart :
  (if ssw_fstart_saved sw && negb (fstart =? 0)%Z then [jfield "fnStart" (JInt fstart)] else [])
  = fs_field (fs_written fstart).
Proof. unfold fs_written. destruct (ssw_fstart_saved sw && negb (fstart =? 0)%Z); reflexivity. Qed.
Lemma fs_written_read fstart : in_i32 fstart = true ->
  fs_read (fs_written fstart) = if ssw_fstart_saved sw then fstart else 0%Z.
Proof.
  intros H. unfold fs_read, fs_written. destruct (ssw_fstart_saved sw); [|reflexivity]. cbn [andb].
  destruct (fstart =? 0)%Z eqn:E; cbn [negb obind].
  - apply Z.eqb_eq in E. now subst.
  - rewrite (in_i32_as_i64 _ H). now rewrite wrap32_id.
Qed.

Lemma element_roundtrip e : wf_element_b root e = true ->
  exists j, write_element sw root e = Ok j /\ read_element sw root j = Ok (Some (norm_element sw e)).
Proof.
  unfold wf_element_b. intros H. apply andb_true_iff in H as [H Hfs]. apply andb_true_iff in H as [Hp Ht].
  destruct e as [[pc pi] inexpr temps ty evalh fstart]. cbn [el_ptr el_temps el_fstart] in *.
  unfold write_element, norm_element, norm_ptr, ptr_is_null.
  cbn [el_ptr el_inexpr el_temps el_type el_fstart ptr_c ptr_i].
  rewrite fs_written_field. rewrite <- (fs_written_read fstart Hfs).
  destruct (valmap_roundtrip sw temps Ht) as (tm & Hwd & Hrd).
  unfold elem_ptr_ok_b in Hp. cbn [ptr_c ptr_i] in Hp.
  destruct pc as [cp|].
  - apply andb_true_iff in Hp as [Hi Hp].
    destruct (get_path root cp) as [pa| |] eqn:Egp; try discriminate.
    apply andb_true_iff in Hp as [Hpos Hcont]. apply pos_eqb_eq in Hpos.
    cbn [bind]. unfold jfield.
    assert (Hptr : read_el_ptr (path_string pa) (JInt pi) = Ok (mkPtr (Some cp) pi)).
    { unfold read_el_ptr. rewrite Hpos, Hcont. rewrite (in_i32_as_i64 pi Hi). cbn. now rewrite wrap32_id. }
    destruct temps as [|t0 temps'].
    + eexists. split; [reflexivity|]. cbn [is_nil]. rewrite app_nil_r. cbn [app].
      rewrite read_el_shape_10, Hptr. destruct ty; reflexivity.
    + eexists. split; [reflexivity|]. cbn [is_nil]. rewrite Hwd. cbn [app].
      rewrite read_el_shape_11, Hptr, Hrd. destruct ty; reflexivity.
  - cbn [bind]. unfold jfield.
    destruct temps as [|t0 temps'].
    + eexists. split; [reflexivity|]. cbn [is_nil]. rewrite app_nil_r. cbn [app].
      rewrite read_el_shape_00. destruct ty; reflexivity.
    + eexists. split; [reflexivity|]. cbn [is_nil]. rewrite Hwd. cbn [app].
      rewrite read_el_shape_01, Hrd. destruct ty; reflexivity.
Qed.

Lemma elements_roundtrip l : forallb (wf_element_b root) l = true ->
  exists js, mapM (write_element sw root) l = Ok js /\ read_elements sw root js = Ok (map (norm_element sw) l).
Proof.
  induction l as [|e l IH]; intros H.
  - exists []. split; reflexivity.
  - cbn in H. apply andb_true_iff in H as [He Hl].
    destruct (element_roundtrip e He) as (j & Hw & Hr). destruct (IH Hl) as (js & Hws & Hrs).
    exists (j :: js). cbn [mapM map read_elements]. rewrite Hw, Hws, Hr, Hrs. split; reflexivity.
Qed.

Lemma read_thread_shape_0 js ti :
  read_thread sw root [(T "callstack", JArr js); (T "threadIndex", ti)]
  = (do i <- or_bad "Invalid thread index" (j_as_i64 ti);
     do els <- read_elements sw root js;
     do _ <- (if ssw_empty_thread_rejected sw && is_nil els
              then bad_json "Thread without call stack elements" else Ok tt);
     Ok (mkThread els ptr_null (Z.to_N (to_u64 i)))).
Proof. reflexivity. Qed.
Lemma read_thread_shape_1 js ti p :
  read_thread sw root [(T "callstack", JArr js); (T "threadIndex", ti); (T "previousContentObject", JStr p)]
  = (do i <- or_bad "Invalid thread index" (j_as_i64 ti);
     do els <- read_elements sw root js;
     do _ <- (if ssw_empty_thread_rejected sw && is_nil els
              then bad_json "Thread without call stack elements" else Ok tt);
     do prev <- pointer_at_path root (path_parse (Some p));
     Ok (mkThread els prev (Z.to_N (to_u64 i)))).
Proof. reflexivity. Qed.

Lemma thread_roundtrip_lemma t : wf_thread_b root t = true ->
  exists o, write_thread panics sw root t = Ok (JObj o) /\ read_thread sw root o = Ok (norm_thread sw root t).
Proof.
  unfold wf_thread_b. intros H. apply andb_true_iff in H as [H Hi]. apply andb_true_iff in H as [H Hprev].
  apply andb_true_iff in H as [Hne Hels].
  destruct t as [els prev idx]. cbn [th_cs th_prev th_index] in *.
  destruct (elements_roundtrip els Hels) as (js & Hws & Hrs).
  assert (Hne' : (if ssw_empty_thread_rejected sw && is_nil (map (norm_element sw) els)
                  then bad_json "Thread without call stack elements" else Ok tt) = Ok tt).
  { destruct els; [discriminate|]. cbn [map is_nil]. now rewrite andb_false_r. }
  unfold write_thread, norm_thread, norm_prev. cbn [th_cs th_prev th_index]. rewrite Hws. cbn [bind].
  unfold prev_ok_b in Hprev. unfold reload_prev in *.
  destruct (ptr_is_null prev) eqn:En.
  - cbn [bind app]. eexists. split; [reflexivity|]. unfold jfield. rewrite read_thread_shape_0.
    rewrite (N_as_i64 idx Hi). cbn [or_bad bind]. rewrite Hrs. cbn [bind]. rewrite Hne'. cbn [bind]. now rewrite N_to_u64_id.
  - destruct (ptr_resolve root prev) as [pos|] eqn:Er; [|discriminate].
    cbn [ssite_res bind]. destruct (get_path root pos) as [pa| |] eqn:Eg; try discriminate.
    cbn [bind] in *. destruct (pointer_at_path root (path_parse (Some (path_string pa)))) as [q| |] eqn:Ep; try discriminate.
    eexists. split; [reflexivity|]. unfold jfield. cbn [app]. rewrite read_thread_shape_1.
    rewrite (N_as_i64 idx Hi). cbn [or_bad bind]. rewrite Hrs. cbn [bind]. rewrite Hne'. cbn [bind]. rewrite Ep. cbn [bind].
    now rewrite N_to_u64_id.
Qed.

(* CallStack::write_json / load_json *)
Lemma threads_roundtrip l : forallb (wf_thread_b root) l = true ->
  exists js, mapM (write_thread panics sw root) l = Ok js
             /\ forall acc, read_threads_into panics sw root js acc = (Ok tt, acc ++ map (norm_thread sw root) l).
Proof.
  induction l as [|t l IH]; intros H.
  - exists []. split; [reflexivity|]. intros acc. cbn. now rewrite app_nil_r.
  - cbn in H. apply andb_true_iff in H as [Ht Hl].
    destruct (thread_roundtrip_lemma t Ht) as (o & Hw & Hr). destruct (IH Hl) as (js & Hws & Hrs).
    exists (JObj o :: js). cbn [mapM]. rewrite Hw, Hws. split; [reflexivity|].
    intros acc. cbn [read_threads_into j_as_obj ssite_res]. rewrite Hr, Hrs. cbn [map]. now rewrite <- app_assoc.
Qed.

Lemma load_callstack_shape cs0 ts tc :
  load_callstack panics sw root cs0 [(T "threads", JArr ts); (T "threadCounter", tc)]
  = (let '(r, l) := read_threads_into panics sw root ts [] in
     let cs1 := (cs0 <| cs_threads := [] |>) <| cs_threads := l |> in
     match r with
     | Ok _ => if ssw_no_threads_rejected sw && is_nil l
               then (Err BadJson (T "Call stack without threads"), cs1) else
               match ssite_res panics S_cs_counter_i64 (j_as_i64 tc) with
               | Ok n => (Ok tt, cs1 <| cs_counter := Z.to_N (to_u64 n) |>)
               | Err k m => (Err k m, cs1)
               | Panic s => (Panic s, cs1)
               end
     | Err k m => (Err k m, cs1)
     | Panic s => (Panic s, cs1)
     end).
Proof. reflexivity. Qed.

Lemma callstack_roundtrip cs : wf_callstack_b root cs = true ->
  exists o, write_callstack panics sw root cs = Ok (JObj o)
            /\ forall cs0, load_callstack panics sw root cs0 o = (Ok tt, norm_callstack sw root cs).
Proof.
  unfold wf_callstack_b. intros H. apply andb_true_iff in H as [H Hc]. apply andb_true_iff in H as [Hne Hts].
  destruct (threads_roundtrip (cs_threads cs) Hts) as (js & Hws & Hrs).
  unfold write_callstack. rewrite Hws. cbn [bind]. eexists. split; [reflexivity|].
  intros cs0. unfold jfield. rewrite load_callstack_shape, Hrs. cbn [app].
  assert (Hne' : ssw_no_threads_rejected sw && is_nil (map (norm_thread sw root) (cs_threads cs)) = false).
  { destruct (cs_threads cs); [discriminate|]. cbn [map is_nil]. apply andb_false_r. }
  rewrite Hne'.
  rewrite (N_as_i64 _ Hc). cbn [ssite_res]. rewrite N_to_u64_id by assumption.
  destruct cs0; reflexivity.
Qed.

End Stack.

(* ================================================================= *)
(*  pending choices                                                   *)
(* ================================================================= *)
Lemma show_N_inj a b : a < 18446744073709551616 -> b < 18446744073709551616 -> show_N a = show_N b -> a = b.
Proof.
  intros Ha Hb E. pose proof (parse_usize_show a Ha) as Pa. pose proof (parse_usize_show b Hb) as Pb.
  rewrite E in Pa. congruence.
Qed.

Lemma assoc_assoc_set {V} k k' (v : V) l :
  assoc k (assoc_set k' v l) = if text_eqb k k' then Some v else assoc k l.
Proof.
  induction l as [|[k2 v2] l IH]; cbn.
  - destruct (text_eqb k k'); reflexivity.
  - destruct (text_eqb k' k2) eqn:E.
    + apply text_eqb_eq in E. subst. cbn. destruct (text_eqb k k2); reflexivity.
    + cbn. destruct (text_eqb k k2) eqn:E2.
      * destruct (text_eqb k k') eqn:E3; [|reflexivity].
        apply text_eqb_eq in E2. apply text_eqb_eq in E3. subst. now rewrite text_eqb_refl in E.
      * exact IH.
Qed.

Lemma tags_roundtrip tags :
  mapM (fun t => StdLoad.site lsite_panics L_tag_str (j_as_str t)) (map JStr tags) = Ok tags.
Proof. rewrite (mapM_map_ok _ JStr (fun x => x)) by reflexivity. now rewrite map_id. Qed.

Section Choices.
Variable panics : ssite -> bool.
Variable sw : save_switches.
Variable root : container.

Definition saved_of (c : choice) (idx : N) : saved_choice :=
  mkSavedChoice (ch_text c) (Z.of_N (ch_index c)) (ch_source c) (Z.of_N idx) (ch_target c) (ch_tags c).

Definition choice_fields (tx ix sp oi tp tg : json) : list (text * json) :=
  [(T "text", tx); (T "index", ix); (T "originalChoicePath", sp); (T "originalThreadIndex", oi);
   (T "targetPath", tp); (T "tags", tg)].

Definition read_choice_fields (tx ix sp oi tp tg : json) : Res obj :=
  do text_ <- StdLoad.site lsite_panics L_choice_text_str (j_as_str tx);
  do index <- StdLoad.site lsite_panics L_choice_index_u64 (j_as_u64 ix);
  do source <- StdLoad.site lsite_panics L_choice_ocp_str (j_as_str sp);
  do oti <- StdLoad.site lsite_panics L_choice_oti_i64 (j_as_i64 oi);
  do target <- StdLoad.site lsite_panics L_choice_tp_str (j_as_str tp);
  do tags <- (do arr <- StdLoad.site lsite_panics L_tags_arr (j_as_arr tg);
              mapM (fun t => StdLoad.site lsite_panics L_tag_str (j_as_str t)) arr);
  Ok (OChoice (mkSavedChoice text_ index source (to_u64 oti) (path_parse (Some target)) tags)).

Lemma choice_shape_6 tx ix sp oi tp tg :
  jtoken_to_obj (JObj (choice_fields tx ix sp oi tp tg)) None = read_choice_fields tx ix sp oi tp tg.
Proof. reflexivity. Qed.
Lemma choice_shape_7 tx ix sp oi tp tg b :
  jtoken_to_obj (JObj (choice_fields tx ix sp oi tp tg ++ [(T "isInvisibleDefault", b)])) None
  = read_choice_fields tx ix sp oi tp tg.
Proof. reflexivity. Qed.

Lemma N_as_u64 n : (n <? 18446744073709551616)%N = true -> j_as_u64 (JInt (Z.of_N n)) = Some (Z.of_N n).
Proof.
  intros H. apply N.ltb_lt in H. unfold j_as_u64, u64_max.
  destruct (0 <=? Z.of_N n)%Z eqn:A; destruct (Z.of_N n <=? _)%Z eqn:B; cbn; try reflexivity; lia.
Qed.

Lemma u64_of_N_small n : (n <? 9223372036854775808)%N = true -> to_u64 (Z.of_N n) = Z.of_N n.
Proof. intros H. apply N.ltb_lt in H. unfold to_u64, two64. apply Z.mod_small. lia. Qed.

Lemma choice_token_roundtrip c idx :
  wf_path_b (ch_target c) = true -> (ch_index c <? 18446744073709551616)%N = true ->
  (idx <? 9223372036854775808)%N = true ->
  jtoken_to_obj (write_choice sw c idx) None = Ok (OChoice (saved_of c idx)).
Proof.
  intros Hp Hi Hx. unfold write_choice, jfield.
  change [(T "text", JStr (ch_text c)); (T "index", JInt (Z.of_N (ch_index c)));
          (T "originalChoicePath", JStr (ch_source c)); (T "originalThreadIndex", JInt (Z.of_N idx));
          (T "targetPath", JStr (path_string (ch_target c))); (T "tags", JArr (map JStr (ch_tags c)))]
    with (choice_fields (JStr (ch_text c)) (JInt (Z.of_N (ch_index c))) (JStr (ch_source c))
                        (JInt (Z.of_N idx)) (JStr (path_string (ch_target c))) (JArr (map JStr (ch_tags c)))).
  assert (E : read_choice_fields (JStr (ch_text c)) (JInt (Z.of_N (ch_index c))) (JStr (ch_source c))
                (JInt (Z.of_N idx)) (JStr (path_string (ch_target c))) (JArr (map JStr (ch_tags c)))
              = Ok (OChoice (saved_of c idx))).
  { unfold read_choice_fields. cbn [j_as_str j_as_arr]. rewrite (N_as_u64 _ Hi), (N_as_i64 _ Hx).
    unfold StdLoad.site. cbn [bind]. change (fun t => match j_as_str t with Some a => Ok a | None => _ end)
      with (fun t => StdLoad.site lsite_panics L_tag_str (j_as_str t)).
    rewrite tags_roundtrip. cbn [bind]. rewrite path_parse_string by assumption.
    now rewrite u64_of_N_small. }
  destruct (ssw_invis_written sw && ch_invisible c).
  - rewrite choice_shape_7. exact E.
  - rewrite app_nil_r, choice_shape_6. exact E.
Qed.

(* the flag as the loader sees it in the raw token *)
Lemma choice_flag_read c idx :
  (if ssw_invis_read sw
   then match obind (jget "isInvisibleDefault" (write_choice sw c idx)) j_as_bool with Some b => b | None => false end
   else false)
  = ssw_invis_written sw && ssw_invis_read sw && ch_invisible c.
Proof.
  unfold write_choice. destruct (ssw_invis_read sw), (ssw_invis_written sw), (ch_invisible c); reflexivity.
Qed.

End Choices.

(* ================================================================= *)
(*  flows                                                             *)
(* ================================================================= *)
Lemma find_map {A B} (p : B -> bool) (f : A -> B) l :
  find p (map f l) = option_map f (find (fun x => p (f x)) l).
Proof. induction l as [|x l IH]; cbn; [reflexivity|]. destruct (p (f x)); [reflexivity|exact IH]. Qed.

Section Flows.
Variable panics : ssite -> bool.
Variable sw : save_switches.
Variable root : container.

Lemma thread_with_index_norm cs i :
  cs_thread_with_index (norm_callstack sw root cs) i
  = option_map (norm_thread sw root) (cs_thread_with_index cs i).
Proof. unfold cs_thread_with_index, norm_callstack. cbn [cs_threads]. now rewrite find_map. Qed.

(* a choice as read_choices returns it (thread not yet attached) *)
Definition loaded_choice (c : choice) : choice :=
  mkChoice (ch_target c) (ch_source c) (ssw_invis_written sw && ssw_invis_read sw && ch_invisible c)
           (ch_tags c) None (choice_tidx c) (ch_text c) (ch_index c).

Lemma wf_choice_thread c : wf_choice_b root c = true ->
  exists th, ch_thread c = Some th /\ wf_thread_b root th = true /\ wf_path_b (ch_target c) = true
             /\ (ch_index c <? 18446744073709551616)%N = true /\ choice_tidx c = th_index th
             /\ (th_index th <? 9223372036854775808)%N = true.
Proof.
  unfold wf_choice_b, choice_tidx. destruct (ch_thread c) as [th|]; [|discriminate]. intros H.
  apply andb_true_iff in H as [H Hi]. apply andb_true_iff in H as [Ht Hp].
  exists th. repeat split; try assumption.
  unfold wf_thread_b in Ht. now apply andb_true_iff in Ht as [_ Ht].
Qed.

Lemma choices_of_objs_roundtrip dc choices :
  forallb (wf_choice_b root) choices = true ->
  choices_of_objs panics sw dc
    (map (fun cn : choice * N => write_choice sw (fst cn) (snd cn)) (map (fun c => (c, choice_tidx c)) choices))
    (map (fun c => OChoice (saved_of c (choice_tidx c))) choices)
  = Ok (map loaded_choice choices).
Proof.
  induction choices as [|c l IH]; intros H; [reflexivity|].
  cbn in H. apply andb_true_iff in H as [Hc Hl]. cbn [map choices_of_objs fst snd ssite_res bind].
  rewrite IH by assumption. cbn [bind]. do 2 f_equal.
  unfold choice_of_saved, loaded_choice, saved_of.
  cbn [sc_target sc_source_path sc_tags sc_orig_thread sc_text sc_index].
  rewrite choice_flag_read, !N2Z.id. reflexivity.
Qed.

Lemma read_choices_roundtrip dc choices :
  forallb (wf_choice_b root) choices = true ->
  read_choices panics sw dc
    (map (fun cn : choice * N => write_choice sw (fst cn) (snd cn)) (map (fun c => (c, choice_tidx c)) choices))
  = Ok (map loaded_choice choices).
Proof.
  intros H. unfold read_choices, jarray_to_obj_list, jarray_to_obj_list_gen.
  rewrite map_map. cbn [fst snd].
  rewrite (mapM_map_ok _ _ (fun c => OChoice (saved_of c (choice_tidx c)))).
  - cbn [bind]. rewrite <- (map_map (fun c => (c, choice_tidx c)) (fun cn : choice * N => write_choice sw (fst cn) (snd cn))).
    now apply choices_of_objs_roundtrip.
  - intros c Hin. pose proof (forallb_In _ _ _ H Hin) as Hc.
    destruct (wf_choice_thread c Hc) as (th & _ & _ & Hp & Hi & -> & Hx).
    change (jtoken_to_obj_gen lsite_panics ?j None) with (jtoken_to_obj j None).
    now apply choice_token_roundtrip.
Qed.

(* ---------- the choiceThreads loop of Flow::write_json ---------- *)
Definition wct_step (cs : callstack) (acc : list (text * json) * list (choice * N)) (c : choice)
  : Res (list (text * json) * list (choice * N)) :=
  let '(jct, done) := acc in
  do th <- ssite_res panics S_w_choice_thread (ch_thread c);
  let idx := th_index th in
  do jct' <- match cs_thread_with_index cs idx with
             | Some _ => Ok jct
             | None => do jt <- write_thread panics sw root th; Ok (assoc_set (show_N idx) jt jct)
             end;
  Ok (jct', done ++ [(c, idx)]).

Lemma wct_unfold cs choices :
  write_choice_threads panics sw root cs choices = foldM (wct_step cs) choices ([], []).
Proof. reflexivity. Qed.

Lemma tidx_lt c : wf_choice_b root c = true -> choice_tidx c < 18446744073709551616.
Proof.
  intros H. destruct (wf_choice_thread c H) as (th & _ & _ & _ & _ & -> & Hx). apply N.ltb_lt in Hx. lia.
Qed.

Lemma wct_loop cs choices :
  forallb (wf_choice_b root) choices = true ->
  nodup_N_b (map choice_tidx choices) = true ->
  forall jct0 done0,
  exists jct,
    foldM (wct_step cs) choices (jct0, done0) = Ok (jct, done0 ++ map (fun c => (c, choice_tidx c)) choices)
    /\ (forall k, (forall c, In c choices -> k <> show_N (choice_tidx c)) -> assoc k jct = assoc k jct0)
    /\ (forall c, In c choices -> cs_thread_with_index cs (choice_tidx c) = None ->
        exists th o, ch_thread c = Some th /\ assoc (show_N (choice_tidx c)) jct = Some (JObj o)
                     /\ read_thread sw root o = Ok (norm_thread sw root th)).
Proof.
  induction choices as [|c l IH]; intros Hwf Hnd jct0 done0.
  - exists jct0. cbn. rewrite app_nil_r. split; [reflexivity|]. split; [reflexivity|]. intros c [].
  - cbn in Hwf, Hnd. apply andb_true_iff in Hwf as [Hc Hl]. apply andb_true_iff in Hnd as [Hn Hnd].
    apply negb_true_iff in Hn.
    destruct (wf_choice_thread c Hc) as (th & Eth & Hth & _ & _ & Eidx & Hx).
    destruct (thread_roundtrip_lemma panics sw root th Hth) as (o & Hw & Hr).
    assert (Hfresh : forall c2, In c2 l -> show_N (choice_tidx c) <> show_N (choice_tidx c2)).
    { intros c2 Hin E. apply show_N_inj in E; [|now apply tidx_lt|apply tidx_lt; eapply forallb_In; eassumption].
      assert (existsb (N.eqb (choice_tidx c)) (map choice_tidx l) = true).
      { apply existsb_exists. exists (choice_tidx c2). split; [now apply in_map|rewrite E; apply N.eqb_refl]. }
      congruence. }
    cbn [foldM]. unfold wct_step at 1. rewrite Eth. cbn [ssite_res bind]. rewrite <- Eidx.
    destruct (cs_thread_with_index cs (choice_tidx c)) as [t|] eqn:Ecs.
    + cbn [bind]. destruct (IH Hl Hnd jct0 (done0 ++ [(c, choice_tidx c)])) as (jct & Hf & Hpres & Hspec).
      exists jct. rewrite Hf. cbn [map]. rewrite <- app_assoc. cbn [app]. split; [reflexivity|]. split.
      * intros k Hk. apply Hpres. intros c2 Hin. apply Hk. now right.
      * intros c2 [<-|Hin] Hnone; [congruence|now apply Hspec].
    + rewrite Hw. cbn [bind].
      destruct (IH Hl Hnd (assoc_set (show_N (choice_tidx c)) (JObj o) jct0) (done0 ++ [(c, choice_tidx c)]))
        as (jct & Hf & Hpres & Hspec).
      exists jct. rewrite Hf. cbn [map]. rewrite <- app_assoc. cbn [app]. split; [reflexivity|]. split.
      * intros k Hk. rewrite Hpres by (intros c2 Hin; apply Hk; now right).
        rewrite assoc_assoc_set. destruct (text_eqb k (show_N (choice_tidx c))) eqn:E; [|reflexivity].
        apply text_eqb_eq in E. exfalso. apply (Hk c); [now left|assumption].
      * intros c2 [<-|Hin] Hnone; [|now apply Hspec].
        exists th, o. split; [assumption|]. split; [|assumption].
        rewrite Hpres by (intros c2 Hin; now apply Hfresh).
        rewrite assoc_assoc_set. now rewrite text_eqb_refl.
Qed.

(* ---------- Flow::load_flow_choice_threads on the result ---------- *)
Lemma load_choice_threads_roundtrip cs jcto choices :
  forallb (wf_choice_b root) choices = true ->
  (forall c, In c choices -> cs_thread_with_index cs (choice_tidx c) = None ->
     exists th o, ch_thread c = Some th /\ obind jcto (jget_t (show_N (choice_tidx c))) = Some (JObj o)
                  /\ read_thread sw root o = Ok (norm_thread sw root th)) ->
  load_flow_choice_threads panics sw root (norm_callstack sw root cs) jcto (map loaded_choice choices)
  = Ok (map (norm_choice sw root (norm_callstack sw root cs)) choices).
Proof.
  intros Hwf Hspec. unfold load_flow_choice_threads. rewrite (mapM_map_ok _ _ (norm_choice sw root (norm_callstack sw root cs))); [reflexivity|].
  intros c Hin. pose proof (forallb_In _ _ _ Hwf Hin) as Hc.
  destruct (wf_choice_thread c Hc) as (th & Eth & _ & _ & _ & Eidx & _).
  unfold load_choice_thread, norm_choice. rewrite Eth. unfold loaded_choice at 1. cbn [ch_orig_thread].
  rewrite <- Eidx. rewrite thread_with_index_norm.
  destruct (cs_thread_with_index cs (choice_tidx c)) as [t|] eqn:Ecs; cbn [option_map].
  - reflexivity.
  - destruct (Hspec c Hin Ecs) as (th' & o & Eth' & Ea & Hr). rewrite Eth in Eth'. inversion Eth'; subst th'.
    unfold loaded_choice at 1. cbn [ch_orig_thread]. rewrite Ea. cbn [ssite_res bind j_as_obj]. rewrite Hr. reflexivity.
Qed.

(* ---------- Flow::from_json on the two shapes of a written flow ---------- *)
Definition flow_read_tail (name : text) (jcs jout jch : json) (jcto : option json) : Res flow :=
  do oa <- ssite_res panics S_flow_out_arr (j_as_arr jout);
  do out <- jarray_to_obj_list oa false;
  do ca <- ssite_res panics S_flow_choices_arr (j_as_arr jch);
  do choices <- read_choices panics sw S_flow_choice_downcast ca;
  do cso <- ssite_res panics S_flow_cs_obj (j_as_obj jcs);
  do cs <- load_callstack_res panics sw root cso;
  do choices' <- load_flow_choice_threads panics sw root cs jcto choices;
  Ok (mkFlow name cs out choices' false).

Lemma flow_shape_0 name jcs jout jch :
  flow_from_json panics sw root name [(T "callstack", jcs); (T "outputStream", jout); (T "currentChoices", jch)]
  = flow_read_tail name jcs jout jch None.
Proof. reflexivity. Qed.
Lemma flow_shape_1 name jcs jout jct jch :
  flow_from_json panics sw root name
    [(T "callstack", jcs); (T "outputStream", jout); (T "choiceThreads", jct); (T "currentChoices", jch)]
  = flow_read_tail name jcs jout jch (Some jct).
Proof. reflexivity. Qed.

Lemma flow_roundtrip_lemma cur_cs name f : wf_flow_b root cur_cs f = true ->
  exists o, write_flow panics sw root cur_cs f = Ok (JObj o)
            /\ flow_from_json panics sw root name o = Ok (norm_flow sw root cur_cs name f).
Proof.
  unfold wf_flow_b. intros H. apply andb_true_iff in H as [H Hnd]. apply andb_true_iff in H as [H Hch].
  apply andb_true_iff in H as [Hcs Hout].
  unfold write_flow, norm_flow.
  set (cs := if fl_alias_cs f then cur_cs else fl_cs f) in *.
  destruct (callstack_roundtrip panics sw root cs Hcs) as (ocs & Hwcs & Hrcs).
  destruct (objs_roundtrip sw (fl_out f) Hout) as (jouts & Hwo & Hro).
  rewrite wct_unfold.
  destruct (wct_loop cs (fl_choices f) Hch Hnd [] []) as (jct & Hf & _ & Hspec).
  rewrite Hwcs, Hwo, Hf. cbn [bind app]. unfold jfield.
  assert (Hcsres : load_callstack_res panics sw root ocs = Ok (norm_callstack sw root cs)).
  { unfold load_callstack_res. rewrite Hrcs. reflexivity. }
  destruct jct as [|kv jct'] eqn:Ej.
  - eexists. split; [reflexivity|]. cbn [is_nil app]. rewrite flow_shape_0. unfold flow_read_tail.
    cbn [j_as_arr j_as_obj ssite_res bind]. rewrite Hro. cbn [bind].
    rewrite read_choices_roundtrip by assumption. cbn [bind]. rewrite Hcsres. cbn [bind].
    rewrite load_choice_threads_roundtrip; [reflexivity|assumption|].
    intros c Hin Hnone. destruct (Hspec c Hin Hnone) as (th & o & _ & Ea & _). discriminate.
  - eexists. split; [reflexivity|]. cbn [is_nil app]. rewrite flow_shape_1. unfold flow_read_tail.
    cbn [j_as_arr j_as_obj ssite_res bind]. rewrite Hro. cbn [bind].
    rewrite read_choices_roundtrip by assumption. cbn [bind]. rewrite Hcsres. cbn [bind].
    rewrite load_choice_threads_roundtrip; [reflexivity|assumption|].
    intros c Hin Hnone. destruct (Hspec c Hin Hnone) as (th & o & Eth & Ea & Hr).
    exists th, o. repeat split; assumption.
Qed.

End Flows.

(* ================================================================= *)
(*  global variables                                                  *)
(* ================================================================= *)
Section Vars.
Variable panics : ssite -> bool.
Variable sw : save_switches.

(* what write_json puts under key k for a global with value v *)
Definition var_written (defaults : list (text * value)) (k : text) (v : value) : option json :=
  match assoc k defaults with
  | Some d => if val_equal sw v d then None else Some (write_value sw v)
  | None => Some (write_value sw v)
  end.

Definition write_vars_step (defaults : list (text * value)) (acc : list (text * json)) (kv : text * value) :=
  match assoc (fst kv) defaults with
  | Some d => if val_equal sw (snd kv) d then acc else assoc_set (fst kv) (write_value sw (snd kv)) acc
  | None => assoc_set (fst kv) (write_value sw (snd kv)) acc
  end.

Lemma write_vars_assoc defaults rest :
  keys_nodup_b rest = true ->
  forall acc, (forall kv, In kv rest -> assoc (fst kv) acc = None) ->
  forall k, assoc k (fold_left (write_vars_step defaults) rest acc)
            = match assoc k rest with Some v => var_written defaults k v | None => assoc k acc end.
Proof.
  induction rest as [|[k0 v0] rest IH]; intros Hnd acc Hacc k; [reflexivity|].
  apply keys_nodup_tail in Hnd as [Hk0 Hnd]. cbn [fold_left].
  assert (Hacc' : forall kv, In kv rest -> assoc (fst kv) (write_vars_step defaults acc (k0, v0)) = None).
  { intros [k2 v2] Hin. cbn [fst].
    assert (Hne : text_eqb k2 k0 = false).
    { destruct (text_eqb k2 k0) eqn:E; [|reflexivity]. apply text_eqb_eq in E. subst.
      exfalso. exact (assoc_none_not_in _ _ Hk0 _ Hin). }
    pose proof (Hacc (k2, v2) (or_intror Hin)) as Ha. cbn [fst] in Ha.
    unfold write_vars_step. cbn [fst snd].
    destruct (assoc k0 defaults) as [d|]; [destruct (val_equal sw v0 d)|]; try assumption;
      rewrite assoc_assoc_set, Hne; assumption. }
  rewrite (IH Hnd _ Hacc' k). cbn [assoc].
  destruct (text_eqb k k0) eqn:E.
  - apply text_eqb_eq in E. subst k. rewrite Hk0.
    pose proof (Hacc (k0, v0) (or_introl eq_refl)) as Ha. cbn [fst] in Ha.
    unfold write_vars_step, var_written. cbn [fst snd].
    destruct (assoc k0 defaults) as [d|]; [destruct (val_equal sw v0 d)|]; try assumption;
      rewrite assoc_assoc_set, text_eqb_refl; reflexivity.
  - destruct (assoc k rest); [reflexivity|].
    unfold write_vars_step. cbn [fst snd].
    destruct (assoc k0 defaults) as [d|]; [destruct (val_equal sw v0 d)|]; try reflexivity;
      rewrite assoc_assoc_set, E; reflexivity.
Qed.

Lemma write_vars_unfold v :
  write_vars sw v = JObj (fold_left (write_vars_step (vs_defaults v)) (vs_globals v) []).
Proof. reflexivity. Qed.

Lemma nodup_in_assoc {V} k (d : V) l : keys_nodup_b l = true -> In (k, d) l -> assoc k l = Some d.
Proof.
  induction l as [|[k' d'] l IH]; intros Hnd Hin; [contradiction|].
  apply keys_nodup_tail in Hnd as [Hk Hnd]. cbn.
  destruct Hin as [Heq|Hin].
  - inversion Heq; subst. now rewrite text_eqb_refl.
  - destruct (text_eqb k k') eqn:E; [|now apply IH].
    apply text_eqb_eq in E. subst. exfalso. exact (assoc_none_not_in _ _ Hk _ Hin).
Qed.

Definition norm_globals_step (globals : list (text * value)) (acc : list (text * value)) (kd : text * value) :=
  assoc_set (fst kd)
    (match assoc (fst kd) globals with
     | Some v => if val_equal sw v (snd kd) then snd kd else norm_value sw v
     | None => snd kd
     end) acc.

Lemma norm_globals_unfold defaults globals :
  norm_globals sw defaults globals = fold_left (norm_globals_step globals) defaults [].
Proof. reflexivity. Qed.

Lemma load_vars_roundtrip defaults globals :
  wf_valmap_b globals = true -> keys_nodup_b defaults = true ->
  forall o, (forall k, assoc k o = match assoc k globals with Some v => var_written defaults k v | None => None end) ->
  forall rest acc, (forall kd, In kd rest -> In kd defaults) ->
  load_vars_loop panics rest o acc = (Ok tt, fold_left (norm_globals_step globals) rest acc).
Proof.
  intros Hg Hd o Ho. unfold wf_valmap_b in Hg. apply andb_true_iff in Hg as [Hgn Hgw].
  induction rest as [|[k d] rest IH]; intros acc Hsub; [reflexivity|].
  cbn [load_vars_loop fold_left]. rewrite Ho.
  pose proof (nodup_in_assoc k d defaults Hd (Hsub (k, d) (or_introl eq_refl))) as Ekd.
  unfold norm_globals_step at 2. cbn [fst snd].
  destruct (assoc k globals) as [v|] eqn:Eg.
  - unfold var_written. rewrite Ekd. destruct (val_equal sw v d).
    + apply IH. intros kd Hin. apply Hsub. now right.
    + assert (Hv : wf_value_b v = true).
      { clear -Eg Hgw. induction globals as [|[k' v'] g IH]; [discriminate|]. cbn in Eg, Hgw.
        apply andb_true_iff in Hgw as [H1 H2]. destruct (text_eqb k k'); [inversion Eg; now subst|now apply IH]. }
      rewrite (value_token_roundtrip sw v Hv). cbn [bind ssite_res].
      apply IH. intros kd Hin. apply Hsub. now right.
  - apply IH. intros kd Hin. apply Hsub. now right.
Qed.

Lemma vars_roundtrip_lemma v defaults_t :
  wf_valmap_b (vs_globals v) = true -> keys_nodup_b (vs_defaults v) = true ->
  defaults_t = vs_defaults v ->
  exists o, write_vars sw v = JObj o
            /\ load_vars_loop panics defaults_t o [] = (Ok tt, norm_globals sw defaults_t (vs_globals v)).
Proof.
  intros Hg Hd ->. eexists. split; [apply write_vars_unfold|].
  rewrite norm_globals_unfold. apply (load_vars_roundtrip (vs_defaults v)); try assumption.
  - intros k. unfold wf_valmap_b in Hg. apply andb_true_iff in Hg as [Hgn _].
    rewrite (write_vars_assoc (vs_defaults v) (vs_globals v) Hgn []) by reflexivity.
    destruct (assoc k (vs_globals v)); reflexivity.
  - intros kd Hin. exact Hin.
Qed.

End Vars.

(* ================================================================= *)
(*  whole states                                                      *)
(* ================================================================= *)
Lemma mbind_ok {A B} (m : M A) (f : A -> M B) w a w' : m w = (OOk a, w') -> mbind m f w = f a w'.
Proof. unfold mbind. now intros ->. Qed.

Section State.
Variable panics : ssite -> bool.
Variable sw : save_switches.

(* load_json_obj with the field lookups already done *)
Definition load_flows_core (fj : json) (cn : option json) : M unit :=
  let* fd := lift (or_bad "Invalid flows object" (j_as_obj fj)) in
  let single := Nat.eqb (length fd) 1 in
  let* _ := set_named (if single then None else Some []) in
  let* _ := load_flows_loop panics sw single fd in
  let* s := get_state in
  match ss_named s with
  | Some nf =>
      if Nat.ltb 1 (length nf) then
        match obind cn j_as_str with
        | Some c =>
            match assoc c nf with
            | Some f => let* _ := set_flow f in set_named (Some (assoc_remove c nf))
            | None => ret tt
            end
        | None => ret tt
        end
      else ret tt
  | None => ret tt
  end.

Definition load_i32 (x : json) (msg : string) (set : Z -> sstate -> sstate) : M unit :=
  let* z := lift (or_bad msg (j_as_i64 x)) in mod_state (set (wrap32 z)).

Definition load_fields (jfl jcn jvars jeval : json) (jdiv : option json)
           (jvis jtur jti jseed jprev jsv : json) : M unit :=
  let* _ := lift (match j_as_i64 jsv with
                  | Some v => if (v <? min_compatible_load_version)%Z
                              then bad_json "Ink save format isn't compatible with the current version"
                              else Ok tt
                  | None => Ok tt
                  end) in
  let* _ := load_flows_core jfl (Some jcn) in
  let* _ := (let* vo := lift (or_bad "Invalid variables state object" (j_as_obj jvars)) in
             let* s := get_state in
             let '(r, g) := load_vars_loop panics (vs_defaults (ss_vars s)) vo [] in
             let* _ := mod_state (fun s => s <| ss_vars ::= fun v => v <| vs_globals := g |> |>) in
             lift r) in
  let* _ := (let* ea := lift (ssite_res panics S_eval_arr (j_as_arr jeval)) in
             let* ev := lift (jarray_to_obj_list ea false) in
             mod_state (fun s => s <| ss_eval := ev |>)) in
  let* _ := (match jdiv with
             | Some dj =>
                 let* root := gets root_of in
                 let* p := lift (pointer_at_path root (path_parse (j_as_str dj))) in
                 mod_state (fun s => s <| ss_diverted := p |>)
             | None => ret tt
             end) in
  let* _ := (let* vo := lift (or_bad "Invalid visit counts object" (j_as_obj jvis)) in
             let* m := lift (jobject_to_int_hashmap vo) in
             mod_state (fun s => s <| ss_visits := m |>)) in
  let* _ := (let* vo := lift (or_bad "Invalid turn indices object" (j_as_obj jtur)) in
             let* m := lift (jobject_to_int_hashmap vo) in
             mod_state (fun s => s <| ss_turns := m |>)) in
  let* _ := load_i32 jti "Invalid current turn index" (fun z s => s <| ss_turn := z |>) in
  let* _ := load_i32 jseed "Invalid story seed" (fun z s => s <| ss_seed := z |>) in
  let* z := lift (or_bad "Invalid previous random value" (j_as_i64 jprev)) in
  mod_state (fun s => s <| ss_prev_random := wrap32 z |>).

Definition state_fields (jfl jcn jvars jeval : json) (jdiv : list (text * json))
           (jvis jtur jti jseed jprev jsv jfv : json) : list (text * json) :=
  [(T "flows", jfl); (T "currentFlowName", jcn); (T "variablesState", jvars); (T "evalStack", jeval)]
  ++ jdiv
  ++ [(T "visitCounts", jvis); (T "turnIndices", jtur); (T "turnIdx", jti); (T "storySeed", jseed);
      (T "previousRandom", jprev); (T "inkSaveVersion", jsv); (T "inkFormatVersion", jfv)].

Lemma load_shape_0 jfl jcn jvars jeval jvis jtur jti jseed jprev jsv jfv :
  load_json_obj panics sw (JObj (state_fields jfl jcn jvars jeval [] jvis jtur jti jseed jprev jsv jfv))
  = load_fields jfl jcn jvars jeval None jvis jtur jti jseed jprev jsv.
Proof. reflexivity. Qed.
Lemma load_shape_1 jfl jcn jvars jeval jd jvis jtur jti jseed jprev jsv jfv :
  load_json_obj panics sw (JObj (state_fields jfl jcn jvars jeval [(T "currentDivertTarget", jd)]
                                              jvis jtur jti jseed jprev jsv jfv))
  = load_fields jfl jcn jvars jeval (Some jd) jvis jtur jti jseed jprev jsv.
Proof. reflexivity. Qed.

End State.

(* ---------- worlds: replacing the state ---------- *)
Definition set_st (w : world) (s : sstate) : world :=
  mkWorld (w_story w) s (w_rcc w) (w_async w) (w_snapshot w) (w_observers w) (w_validated w)
          (w_fallbacks w) (w_saw_unsafe w) (w_externals w) (w_handler w) (w_events w) (w_lines w)
          (w_fuel w) (w_pauses w) (w_pause_left w).

Lemma mod_state_run f w : mod_state f w = (OOk tt, set_st w (f (w_state w))).
Proof. destruct w; reflexivity. Qed.
Lemma get_state_run w : get_state w = (OOk (w_state w), w).
Proof. reflexivity. Qed.
Lemma set_st_eq w s : set_st w s = w <| w_state := s |>.
Proof. destruct w; reflexivity. Qed.
Lemma set_st_twice w a b : set_st (set_st w a) b = set_st w b.
Proof. reflexivity. Qed.
Lemma lift_ok_run {A} (a : A) w : lift (Ok a) w = (OOk a, w).
Proof. reflexivity. Qed.

(* sstate updates on the fields the loader writes *)
Definition st_flow (s : sstate) (f : flow) : sstate := s <| ss_flow := f |>.
Definition st_named (s : sstate) (n : option (list (text * flow))) : sstate := s <| ss_named := n |>.
Lemma st_named_named s n : ss_named (st_named s n) = n.
Proof. destruct s; reflexivity. Qed.
Lemma st_named_twice s n m : st_named (st_named s n) m = st_named s m.
Proof. destruct s; reflexivity. Qed.
Lemma st_flow_named s f : ss_named (st_flow s f) = ss_named s.
Proof. destruct s; reflexivity. Qed.

Section StateFlows.
Variable panics : ssite -> bool.
Variable sw : save_switches.
Variable root : container.

Definition flow_rel (kj : text * json) (kf : text * flow) : Prop :=
  fst kj = fst kf /\ exists o, snd kj = JObj o /\ flow_from_json panics sw root (fst kj) o = Ok (snd kf).

Lemma forall2_assoc_set k v v' l l' :
  Forall2 flow_rel l l' -> flow_rel (k, v) (k, v') ->
  Forall2 flow_rel (assoc_set k v l) (assoc_set k v' l').
Proof.
  intros H Hr. induction H as [|[k1 j1] [k2 f2] l l' Hh Ht IH]; cbn.
  - constructor; [assumption|constructor].
  - destruct Hh as [Hk Ho]. cbn in Hk. subst k2. destruct (text_eqb k k1).
    + constructor; assumption.
    + constructor; [split; [reflexivity|exact Ho]|exact IH].
Qed.

Lemma write_flows_rel ccs named :
  forallb (fun kf : text * flow => wf_flow_b root ccs (snd kf)) named = true ->
  forall accj accf, Forall2 flow_rel accj accf ->
  exists fd,
    foldM (fun acc (kf : text * flow) =>
             do j <- write_flow panics sw root ccs (snd kf); Ok (assoc_set (fst kf) j acc)) named accj = Ok fd
    /\ Forall2 flow_rel fd
         (fold_left (fun acc (kf : text * flow) => assoc_set (fst kf) (norm_flow sw root ccs (fst kf) (snd kf)) acc)
                    named accf).
Proof.
  induction named as [|[k f] named IH]; intros Hwf accj accf Hrel.
  - exists accj. split; [reflexivity|assumption].
  - cbn in Hwf. apply andb_true_iff in Hwf as [Hf Hn].
    destruct (flow_roundtrip_lemma panics sw root ccs k f Hf) as (o & Hw & Hr).
    cbn [foldM fold_left fst snd]. rewrite Hw. cbn [bind].
    apply IH; [assumption|]. apply forall2_assoc_set; [assumption|].
    split; [reflexivity|]. exists o. split; [reflexivity|exact Hr].
Qed.

Lemma keys_nodup_assoc_set {V} k (v : V) l : keys_nodup_b l = true -> keys_nodup_b (assoc_set k v l) = true.
Proof.
  induction l as [|[k' v'] l IH]; intros H; [reflexivity|].
  apply keys_nodup_tail in H as [Hk Hl]. cbn [assoc_set].
  destruct (text_eqb k k') eqn:E.
  - apply text_eqb_eq in E. subst. cbn. unfold assoc_mem. rewrite Hk. now rewrite Hl.
  - cbn. unfold assoc_mem. rewrite assoc_assoc_set.
    assert (E2 : text_eqb k' k = false).
    { destruct (text_eqb k' k) eqn:E2; [|reflexivity]. apply text_eqb_eq in E2. subst. now rewrite text_eqb_refl in E. }
    rewrite E2, Hk. cbn. now apply IH.
Qed.

Lemma flows_as_saved_nodup s : keys_nodup_b (flows_as_saved sw root s) = true.
Proof.
  unfold flows_as_saved.
  set (named := match ss_named s with Some nf => nf | None => [] end).
  generalize (norm_flow sw root (fl_cs (ss_flow s)) (fl_name (ss_flow s)) (ss_flow s)). intros f0.
  assert (H0 : keys_nodup_b [(fl_name (ss_flow s), f0)] = true) by reflexivity.
  revert H0. generalize [(fl_name (ss_flow s), f0)]. clearbody named.
  induction named as [|kf named IH]; intros acc H; [assumption|].
  cbn [fold_left]. apply IH. now apply keys_nodup_assoc_set.
Qed.

(* the per-flow loop of the loader, multi-flow mode *)
Lemma load_flows_loop_multi fd fl : Forall2 flow_rel fd fl ->
  forall w nf0, root_of w = root -> ss_named (w_state w) = Some nf0 ->
  load_flows_loop panics sw false fd w
  = (OOk tt, set_st w (st_named (w_state w)
                         (Some (fold_left (fun acc (kf : text * flow) => assoc_set (fst kf) (snd kf) acc) fl nf0)))).
Proof.
  induction 1 as [|[k j] [k' f] fd fl Hh Ht IH]; intros w nf0 Hroot Hn.
  - cbn [load_flows_loop fold_left]. unfold ret. f_equal. destruct w as [st s]; cbn in *. destruct s; cbn in *. now subst.
  - destruct Hh as [Hk (o & Hj & Hf)]. cbn [fst snd] in *. subst k' j.
    cbn [load_flows_loop]. cbn [j_as_obj or_bad].
    rewrite (mbind_ok _ _ w o w) by reflexivity.
    rewrite (mbind_ok _ _ w root w) by (unfold gets; now rewrite Hroot).
    rewrite Hf. rewrite (mbind_ok _ _ w f w) by reflexivity.
    rewrite (mbind_ok _ _ w tt (set_st w (st_named (w_state w) (Some (assoc_set k f nf0))))).
    + rewrite (IH _ (assoc_set k f nf0)); [|exact Hroot|apply st_named_named].
      cbn [fold_left fst snd w_state set_st]. rewrite st_named_twice. reflexivity.
    + rewrite (mbind_ok _ _ w (w_state w) w) by reflexivity. rewrite Hn.
      unfold set_named. apply mod_state_run.
Qed.

End StateFlows.

Section StateMain.
Variable panics : ssite -> bool.
Variable sw : save_switches.
Variable root : container.

Definition flows_loaded (s0 : sstate) (fl : list (text * flow)) (cur : text) : sstate :=
  if Nat.eqb (length fl) 1 then
    match fl with
    | (_, f) :: _ => st_flow (st_named s0 None) f
    | [] => st_named s0 None
    end
  else
    match assoc cur fl with
    | Some f => st_named (st_flow (st_named s0 (Some fl)) f) (Some (assoc_remove cur fl))
    | None => st_named s0 (Some fl)
    end.

Lemma fold_assoc_set_id {V} (l : list (text * V)) : keys_nodup_b l = true ->
  fold_left (fun acc (kf : text * V) => assoc_set (fst kf) (snd kf) acc) l [] = l.
Proof.
  intros H. rewrite (fold_assoc_set_nodup0 (fun kv : text * V => snd kv) l H).
  induction l as [|[k v] l IH]; [reflexivity|]. cbn. f_equal. apply IH. now apply keys_nodup_tail in H as [_ H].
Qed.

Lemma forall2_length {A B} (R : A -> B -> Prop) l l' : Forall2 R l l' -> length l = length l'.
Proof. induction 1; cbn; congruence. Qed.

Lemma load_flows_core_run fd fl cur w :
  Forall2 (flow_rel panics sw root) fd fl -> keys_nodup_b fl = true -> root_of w = root ->
  load_flows_core panics sw (JObj fd) (Some (JStr cur)) w
  = (OOk tt, set_st w (flows_loaded (w_state w) fl cur)).
Proof.
  intros Hrel Hnd Hroot. unfold load_flows_core. cbn [j_as_obj or_bad].
  rewrite (mbind_ok _ _ w fd w) by reflexivity.
  pose proof (forall2_length _ _ _ Hrel) as Hlen. unfold flows_loaded. rewrite <- Hlen.
  destruct (Nat.eqb (length fd) 1) eqn:Es.
  - (* single flow *)
    destruct Hrel as [|[k j] [k' f] fd' fl' Hh Ht]; [discriminate|].
    destruct Ht; [|discriminate]. destruct Hh as [Hk (o & Hj & Hf)]. cbn [fst snd] in *. subst k' j.
    unfold set_named at 1. rewrite (mbind_ok _ _ w tt _ (mod_state_run _ w)).
    set (w1 := set_st w _).
    assert (Hloop : load_flows_loop panics sw true [(k, JObj o)] w1 = (OOk tt, set_st w1 (st_flow (w_state w1) f))).
    { cbn [load_flows_loop j_as_obj or_bad].
      rewrite (mbind_ok _ _ w1 o w1) by reflexivity.
      rewrite (mbind_ok _ _ w1 root w1) by (unfold gets; subst w1; cbn; now rewrite <- Hroot).
      rewrite Hf. rewrite (mbind_ok _ _ w1 f w1) by reflexivity.
      unfold set_flow. rewrite (mbind_ok _ _ w1 tt _ (mod_state_run _ w1)). reflexivity. }
    rewrite (mbind_ok _ _ w1 tt _ Hloop).
    rewrite (mbind_ok _ _ _ _ _ (get_state_run _)).
    subst w1. cbn [w_state set_st]. unfold st_flow, st_named. destruct (w_state w); reflexivity.
  - (* several flows (or none) *)
    unfold set_named at 1. rewrite (mbind_ok _ _ w tt _ (mod_state_run _ w)).
    set (w1 := set_st w _).
    assert (Hn1 : ss_named (w_state w1) = Some []) by (subst w1; cbn [w_state set_st]; destruct (w_state w); reflexivity).
    assert (Hr1 : root_of w1 = root) by (subst w1; exact Hroot).
    rewrite (mbind_ok _ _ w1 tt _ (load_flows_loop_multi panics sw root fd fl Hrel w1 [] Hr1 Hn1)).
    rewrite (fold_assoc_set_id fl Hnd).
    rewrite (mbind_ok _ _ _ _ _ (get_state_run _)).
    cbn [w_state set_st]. rewrite st_named_named.
    subst w1. cbn [w_state set_st].
    change (w_state w <| ss_named := Some [] |>) with (st_named (w_state w) (Some [])).
    rewrite st_named_twice, set_st_twice.
    destruct (Nat.ltb 1 (length fl)) eqn:El.
    + cbn [obind j_as_str]. destruct (assoc cur fl) as [f|] eqn:Ea; [|reflexivity].
      unfold set_flow. rewrite (mbind_ok _ _ _ tt _ (mod_state_run _ _)).
      unfold set_named. rewrite mod_state_run. reflexivity.
    + (* length fl = 0 *)
      assert (fl = []).
      { apply Nat.ltb_ge in El. apply Nat.eqb_neq in Es. rewrite Hlen in Es. destruct fl as [|? [|? ?]]; cbn in *; [reflexivity|congruence|lia]. }
      subst fl. reflexivity.
Qed.

Lemma pointer_eqb_eq p q : pointer_eqb p q = true -> p = q.
Proof.
  destruct p as [pc pi], q as [qc qi]. unfold pointer_eqb. cbn. intros H. apply andb_true_iff in H as [H1 H2].
  apply Z.eqb_eq in H2. subst. destruct pc, qc; try discriminate; [apply pos_eqb_eq in H1; now subst|reflexivity].
Qed.

Lemma load_i32_run z msg set w : in_i32 z = true ->
  load_i32 (JInt z) msg set w = (OOk tt, set_st w (set z (w_state w))).
Proof.
  intros H. unfold load_i32. rewrite (in_i32_as_i64 z H). cbn [or_bad].
  rewrite (mbind_ok _ _ w z w) by reflexivity. rewrite wrap32_id by assumption. apply mod_state_run.
Qed.

(* the state after all the stores of load_json_obj *)
Definition state_loaded (s0 : sstate) (s : sstate) : sstate :=
  let s1 := flows_loaded s0 (flows_as_saved sw root s) (fl_name (ss_flow s)) in
  let s2 := s1 <| ss_vars ::= fun v => v <| vs_globals := norm_globals sw (vs_defaults (ss_vars s0)) (vs_globals (ss_vars s)) |> |> in
  let s3 := s2 <| ss_eval := map (norm_obj sw) (ss_eval s) |> in
  let s4 := if ptr_is_null (ss_diverted s) then s3 else s3 <| ss_diverted := ss_diverted s |> in
  let s5 := s4 <| ss_visits := ss_visits s |> in
  let s6 := s5 <| ss_turns := ss_turns s |> in
  let s7 := s6 <| ss_turn := ss_turn s |> in
  let s8 := s7 <| ss_seed := ss_seed s |> in
  s8 <| ss_prev_random := ss_prev_random s |>.

Lemma state_loaded_norm s0 s : state_loaded s0 s = norm_sstate sw root s0 s.
Proof.
  unfold state_loaded, norm_sstate, flows_loaded, st_flow, st_named.
  destruct s0 as [fl0 se0 [g0 d0 b0 c0 p0] ev0 er0 wa0 pa0 nm0 dv0 vi0 tu0 ti0 sd0 pr0].
  cbn [ss_vars vs_defaults ss_flow].
  destruct (Nat.eqb (length (flows_as_saved sw root s)) 1).
  - destruct (flows_as_saved sw root s) as [|[k f] r]; destruct (ptr_is_null (ss_diverted s)); reflexivity.
  - destruct (assoc (fl_name (ss_flow s)) (flows_as_saved sw root s));
      destruct (ptr_is_null (ss_diverted s)); reflexivity.
Qed.

End StateMain.

Section StateFinal.
Variable panics : ssite -> bool.
Variable sw : save_switches.

Lemma w_state_set_st w s : w_state (set_st w s) = s.
Proof. reflexivity. Qed.
Lemma root_of_set_st w s : root_of (set_st w s) = root_of w.
Proof. reflexivity. Qed.

Lemma flows_loaded_vars s0 fl cur : ss_vars (flows_loaded s0 fl cur) = ss_vars s0.
Proof.
  unfold flows_loaded, st_flow, st_named. destruct s0.
  destruct (Nat.eqb (length fl) 1); [destruct fl as [|[? ?] ?]; reflexivity|].
  destruct (assoc cur fl); reflexivity.
Qed.

(* the stages of load_fields after the flows *)
Lemma vars_stage ov g w :
  load_vars_loop panics (vs_defaults (ss_vars (w_state w))) ov [] = (Ok tt, g) ->
  (let* vo := lift (or_bad "Invalid variables state object" (j_as_obj (JObj ov))) in
   let* s := get_state in
   let '(r, g) := load_vars_loop panics (vs_defaults (ss_vars s)) vo [] in
   let* _ := mod_state (fun s => s <| ss_vars ::= fun v => v <| vs_globals := g |> |>) in
   lift r) w
  = (OOk tt, set_st w ((w_state w) <| ss_vars ::= fun v => v <| vs_globals := g |> |>)).
Proof.
  intros H. cbn [j_as_obj or_bad]. rewrite (mbind_ok _ _ w ov w) by reflexivity.
  rewrite (mbind_ok _ _ w _ w (get_state_run w)). rewrite H.
  rewrite (mbind_ok _ _ w tt _ (mod_state_run _ w)). reflexivity.
Qed.

Lemma eval_stage jev ev w :
  jarray_to_obj_list jev false = Ok ev ->
  (let* ea := lift (ssite_res panics S_eval_arr (j_as_arr (JArr jev))) in
   let* ev := lift (jarray_to_obj_list ea false) in
   mod_state (fun s => s <| ss_eval := ev |>)) w
  = (OOk tt, set_st w ((w_state w) <| ss_eval := ev |>)).
Proof.
  intros H. cbn [j_as_arr ssite_res]. rewrite (mbind_ok _ _ w jev w) by reflexivity.
  rewrite H. rewrite (mbind_ok _ _ w ev w) by reflexivity. apply mod_state_run.
Qed.

Lemma intmap_stage (msg : string) o m (set : list (text * Z) -> sstate -> sstate) w :
  jobject_to_int_hashmap o = Ok m ->
  (let* vo := lift (or_bad msg (j_as_obj (JObj o))) in
   let* m := lift (jobject_to_int_hashmap vo) in
   mod_state (set m)) w
  = (OOk tt, set_st w (set m (w_state w))).
Proof.
  intros H. cbn [j_as_obj or_bad]. rewrite (mbind_ok _ _ w o w) by reflexivity.
  rewrite H. rewrite (mbind_ok _ _ w m w) by reflexivity. apply mod_state_run.
Qed.

Theorem save_load_norm_lemma t w :
  wf_world_b w = true -> root_of t = root_of w ->
  vs_defaults (ss_vars (w_state t)) = vs_defaults (ss_vars (w_state w)) ->
  exists j, write_state panics sw w = Ok j
            /\ load_state panics sw t j = (OOk tt, norm_save sw (root_of w) t w).
Proof.
  intros Hwf Hroot Hdef.
  unfold wf_world_b, wf_sstate_b in Hwf.
  set (root := root_of w) in *. set (s := w_state w) in *.
  apply andb_true_iff in Hwf as [Hwf Hprev]. apply andb_true_iff in Hwf as [Hwf Hseed].
  apply andb_true_iff in Hwf as [Hwf Hturn]. apply andb_true_iff in Hwf as [Hwf Htur].
  apply andb_true_iff in Hwf as [Hwf Hvis]. apply andb_true_iff in Hwf as [Hwf Hdiv].
  apply andb_true_iff in Hwf as [Hwf Hev]. apply andb_true_iff in Hwf as [Hwf Hd].
  apply andb_true_iff in Hwf as [Hwf Hg]. apply andb_true_iff in Hwf as [Hcur Hnamed].
  set (ccs := fl_cs (ss_flow s)) in *. set (cur := fl_name (ss_flow s)).
  set (named := match ss_named s with Some nf => nf | None => [] end).
  assert (Hnamed' : forallb (fun kf : text * flow => wf_flow_b root ccs (snd kf)) named = true).
  { subst named. destruct (ss_named s); [now apply andb_true_iff in Hnamed as [Hn _]|reflexivity]. }
  destruct (flow_roundtrip_lemma panics sw root ccs cur (ss_flow s) Hcur) as (ocur & Hwc & Hrc).
  assert (Hrel0 : Forall2 (flow_rel panics sw root) [(cur, JObj ocur)] [(cur, norm_flow sw root ccs cur (ss_flow s))]).
  { constructor; [|constructor]. split; [reflexivity|]. exists ocur. split; [reflexivity|exact Hrc]. }
  destruct (write_flows_rel panics sw root ccs named Hnamed' _ _ Hrel0) as (fd & Hfd & Hrel).
  change (fold_left _ named _) with (flows_as_saved sw root s) in Hrel.
  destruct (objs_roundtrip sw (ss_eval s) Hev) as (jev & Hwe & Hre).
  destruct (vars_roundtrip_lemma panics sw (ss_vars s) _ Hg Hd Hdef) as (ov & Hwv & Hrv).
  destruct (intmap_roundtrip (ss_visits s) Hvis) as (ovi & Hwvi & Hrvi).
  destruct (intmap_roundtrip (ss_turns s) Htur) as (otu & Hwtu & Hrtu).
  assert (Hver : lift (match j_as_i64 (JInt ink_save_state_version) with
                       | Some v => if (v <? min_compatible_load_version)%Z
                                   then bad_json "Ink save format isn't compatible with the current version"
                                   else Ok tt
                       | None => Ok tt
                       end) t = (OOk tt, t)) by reflexivity.
  assert (Hnd : keys_nodup_b (flows_as_saved sw root s) = true) by apply flows_as_saved_nodup.
  (* everything after the flows and the diverted pointer, on any world *)
  assert (Htail : forall w0 : world,
    vs_defaults (ss_vars (w_state w0)) = vs_defaults (ss_vars (w_state t)) -> root_of w0 = root ->
    forall (jdiv : option json) (sdiv : sstate -> sstate),
    (forall w1, root_of w1 = root -> (match jdiv with
                 | Some dj => let* root := gets root_of in
                              let* p := lift (pointer_at_path root (path_parse (j_as_str dj))) in
                              mod_state (fun s => s <| ss_diverted := p |>)
                 | None => ret tt
                 end) w1 = (OOk tt, set_st w1 (sdiv (w_state w1)))) ->
    (let* _ := (let* vo := lift (or_bad "Invalid variables state object" (j_as_obj (JObj ov))) in
                let* s := get_state in
                let '(r, g) := load_vars_loop panics (vs_defaults (ss_vars s)) vo [] in
                let* _ := mod_state (fun s => s <| ss_vars ::= fun v => v <| vs_globals := g |> |>) in
                lift r) in
     let* _ := (let* ea := lift (ssite_res panics S_eval_arr (j_as_arr (JArr jev))) in
                let* ev := lift (jarray_to_obj_list ea false) in
                mod_state (fun s => s <| ss_eval := ev |>)) in
     let* _ := (match jdiv with
                | Some dj => let* root := gets root_of in
                             let* p := lift (pointer_at_path root (path_parse (j_as_str dj))) in
                             mod_state (fun s => s <| ss_diverted := p |>)
                | None => ret tt
                end) in
     let* _ := (let* vo := lift (or_bad "Invalid visit counts object" (j_as_obj (JObj ovi))) in
                let* m := lift (jobject_to_int_hashmap vo) in
                mod_state (fun s => s <| ss_visits := m |>)) in
     let* _ := (let* vo := lift (or_bad "Invalid turn indices object" (j_as_obj (JObj otu))) in
                let* m := lift (jobject_to_int_hashmap vo) in
                mod_state (fun s => s <| ss_turns := m |>)) in
     let* _ := load_i32 (JInt (ss_turn s)) "Invalid current turn index" (fun z s => s <| ss_turn := z |>) in
     let* _ := load_i32 (JInt (ss_seed s)) "Invalid story seed" (fun z s => s <| ss_seed := z |>) in
     let* z := lift (or_bad "Invalid previous random value" (j_as_i64 (JInt (ss_prev_random s)))) in
     mod_state (fun s => s <| ss_prev_random := wrap32 z |>)) w0
    = (OOk tt,
       set_st w0
         ((((((sdiv (((w_state w0) <| ss_vars ::= fun v => v <| vs_globals :=
                         norm_globals sw (vs_defaults (ss_vars (w_state t))) (vs_globals (ss_vars s)) |> |>)
                      <| ss_eval := map (norm_obj sw) (ss_eval s) |>))
               <| ss_visits := ss_visits s |>) <| ss_turns := ss_turns s |>) <| ss_turn := ss_turn s |>)
            <| ss_seed := ss_seed s |>) <| ss_prev_random := ss_prev_random s |>))).
  { intros w0 Hd0 Hroot0 jdiv sdiv Hdivrun.
    rewrite (mbind_ok _ _ w0 tt _ (vars_stage ov _ w0 ltac:(rewrite Hd0; exact Hrv))).
    rewrite (mbind_ok _ _ _ tt _ (eval_stage jev _ _ Hre)). rewrite set_st_twice, w_state_set_st.
    match goal with |- mbind _ _ (set_st w0 ?X) = _ =>
      rewrite (mbind_ok _ _ (set_st w0 X) tt _ (Hdivrun (set_st w0 X) Hroot0)) end.
    rewrite set_st_twice, w_state_set_st.
    rewrite (mbind_ok _ _ _ tt _ (intmap_stage _ ovi _ (fun m s => s <| ss_visits := m |>) _ Hrvi)).
    rewrite set_st_twice, w_state_set_st.
    rewrite (mbind_ok _ _ _ tt _ (intmap_stage _ otu _ (fun m s => s <| ss_turns := m |>) _ Hrtu)).
    rewrite set_st_twice, w_state_set_st.
    rewrite (mbind_ok _ _ _ tt _ (load_i32_run _ _ _ _ Hturn)). rewrite set_st_twice, w_state_set_st.
    rewrite (mbind_ok _ _ _ tt _ (load_i32_run _ _ _ _ Hseed)). rewrite set_st_twice, w_state_set_st.
    rewrite (in_i32_as_i64 _ Hprev). cbn [or_bad]. rewrite (mbind_ok _ _ _ (ss_prev_random s) _ (lift_ok_run _ _)).
    rewrite mod_state_run, set_st_twice, w_state_set_st. now rewrite wrap32_id. }
  unfold write_state, write_sstate. fold root s ccs cur named.
  rewrite Hwc. cbn [bind]. rewrite Hfd. cbn [bind]. rewrite Hwe. cbn [bind].
  unfold load_state.
  pose proof (load_flows_core_run panics sw root fd _ cur t Hrel Hnd Hroot) as Hflows.
  set (w2 := set_st t (flows_loaded (w_state t) (flows_as_saved sw root s) cur)) in *.
  assert (Hd2 : vs_defaults (ss_vars (w_state w2)) = vs_defaults (ss_vars (w_state t))).
  { subst w2. rewrite w_state_set_st, flows_loaded_vars. reflexivity. }
  destruct (ptr_is_null (ss_diverted s)) eqn:En.
  - cbn [bind app]. rewrite Hwv, Hwvi, Hwtu. unfold jfield.
    eexists. split; [reflexivity|].
    change (JObj _) with (JObj (state_fields (JObj fd) (JStr cur) (JObj ov) (JArr jev) [] (JObj ovi) (JObj otu)
                                   (JInt (ss_turn s)) (JInt (ss_seed s)) (JInt (ss_prev_random s))
                                   (JInt ink_save_state_version) (JInt INK_VERSION_CURRENT_))).
    rewrite load_shape_0. unfold load_fields.
    rewrite (mbind_ok _ _ t tt t Hver). rewrite (mbind_ok _ _ t tt _ Hflows).
    rewrite (Htail w2 Hd2 Hroot None (fun x => x)) by (intros w1 _; destruct w1; reflexivity).
    subst w2. rewrite set_st_twice, w_state_set_st.
    unfold norm_save. rewrite <- set_st_eq. f_equal. f_equal.
    rewrite <- state_loaded_norm. unfold state_loaded. fold root s. rewrite En. reflexivity.
  - unfold diverted_ok_b, reload_diverted in Hdiv.
    destruct (ptr_path root (ss_diverted s)) as [[pa|]| |] eqn:Ep; cbn [bind] in Hdiv; try discriminate.
    + destruct (pointer_at_path root (path_parse (Some (path_string pa)))) as [q| |] eqn:Eq; try discriminate.
      apply pointer_eqb_eq in Hdiv. subst q.
      cbn [bind app]. rewrite Hwv, Hwvi, Hwtu. unfold jfield.
      eexists. split; [reflexivity|].
      change (JObj _) with (JObj (state_fields (JObj fd) (JStr cur) (JObj ov) (JArr jev)
                                     [(T "currentDivertTarget", JStr (path_string pa))] (JObj ovi) (JObj otu)
                                     (JInt (ss_turn s)) (JInt (ss_seed s)) (JInt (ss_prev_random s))
                                     (JInt ink_save_state_version) (JInt INK_VERSION_CURRENT_))).
      rewrite load_shape_1. unfold load_fields.
      rewrite (mbind_ok _ _ t tt t Hver). rewrite (mbind_ok _ _ t tt _ Hflows).
      rewrite (Htail w2 Hd2 Hroot (Some (JStr (path_string pa))) (fun x => x <| ss_diverted := ss_diverted s |>)).
      * subst w2. rewrite set_st_twice, w_state_set_st.
        unfold norm_save. rewrite <- set_st_eq. f_equal. f_equal.
        rewrite <- state_loaded_norm. unfold state_loaded. fold root s. rewrite En. reflexivity.
      * intros w1 Hr1. rewrite (mbind_ok _ _ w1 (root_of w1) w1) by reflexivity.
        cbn [j_as_str]. rewrite Hr1, Eq. rewrite (mbind_ok _ _ w1 _ w1 (lift_ok_run _ _)).
        apply mod_state_run.
    + (* a non-null pointer has a path *)
      exfalso. unfold ptr_path in Ep. unfold ptr_is_null in En. destruct (ptr_c (ss_diverted s)); [|discriminate].
      destruct (get_path root p); cbn in Ep; try discriminate. destruct (0 <=? ptr_i (ss_diverted s))%Z; discriminate.
Qed.

End StateFinal.

(* ================================================================= *)
(*  pointers into a well-formed content tree (uses Data/TreeProofs.v) *)
(* ================================================================= *)
From Ink.Data Require Import Tree TreeProofs.

Lemma pstep_eqb_refl a : pstep_eqb a a = true.
Proof. destruct a; cbn; [apply Nat.eqb_refl|apply text_eqb_refl]. Qed.
Lemma pos_eqb_refl p : pos_eqb p p = true.
Proof. induction p as [|x p IH]; cbn; [reflexivity|]. now rewrite pstep_eqb_refl, IH. Qed.

Lemma wf_comp_b_complete c : wf_comp c -> wf_comp_b c = true.
Proof.
  destruct c as [i|n]; cbn.
  - intros H. now apply N.ltb_lt.
  - intros (H1 & H2 & H3). rewrite H3. destruct n; [congruence|]. cbn [is_nil negb andb].
    rewrite andb_true_r. unfold no_dot. apply negb_true_iff. destruct (existsb _ _) eqn:E; [|reflexivity].
    apply existsb_exists in E as (x & Hin & Hx). apply N.eqb_eq in Hx. subst. contradiction.
Qed.

(* the path of a position of a well-formed tree survives printing and parsing *)
Lemma own_path_reparse root p path :
  wf_tree root = true -> valid_pos root p -> get_path root p = Ok path ->
  path_parse (Some (path_string path)) = path.
Proof.
  intros Hwf Hv Hg. destruct (get_path_wf_lemma root p path Hwf Hv Hg) as [Hc Hr].
  apply path_parse_string. unfold get_path in Hg. destruct (get_path_comps root p) as [cs| |]; try discriminate.
  inversion Hg; subst path. unfold wf_path_b, path_new. cbn [p_cache p_comps p_rel] in *.
  rewrite orb_true_r, andb_true_r. apply forallb_forall. intros c Hin. apply wf_comp_b_complete.
  rewrite Forall_forall in Hc. now apply Hc.
Qed.

(* callstack elements: cPath / idx denote the pointer that was written *)
Lemma pointer_roundtrip_lemma2 root cp c i :
  wf_tree root = true -> cont_at root cp = Some c -> in_i32 i = true ->
  elem_ptr_ok_b root (mkPtr (Some cp) i) = true.
Proof.
  intros Hwf Hc Hi. unfold elem_ptr_ok_b. cbn [ptr_c ptr_i]. rewrite Hi. cbn [andb].
  assert (Hv : valid_pos root cp).
  { unfold valid_pos, cont_at in *. destruct (obj_at root cp); [discriminate|discriminate]. }
  destruct (path_resolves_to_self_lemma root cp Hwf Hv) as (path & Hg & Hr).
  rewrite Hg. rewrite (own_path_reparse root cp path Hwf Hv Hg). rewrite Hr. cbn [sr_pos].
  rewrite pos_eqb_refl. unfold is_cont_at, cont_at in *. destruct (obj_at root cp) as [[]|]; try discriminate. reflexivity.
Qed.

(* ================================================================= *)
(*  re-saving a loaded state                                          *)
(* ================================================================= *)
Section Resave.
Variable panics : ssite -> bool.
Variable sw : save_switches.
Variable root : container.

Lemma write_value_norm v : write_value sw (norm_value sw v) = write_value sw v.
Proof.
  destruct v; try reflexivity. cbn [norm_value write_value]. unfold write_ink_list, norm_list. cbn [l_items l_init_names].
  destruct (ssw_origins_written sw) eqn:Eo; destruct (is_nil (l_items l)) eqn:En; cbn; try reflexivity.
Qed.

Lemma write_rtobject_norm o : write_rtobject sw (norm_obj sw o) = write_rtobject sw o.
Proof. destruct o; try reflexivity. cbn [norm_obj write_rtobject]. now rewrite write_value_norm. Qed.

Lemma write_list_rt_objs_norm l : write_list_rt_objs sw (map (norm_obj sw) l) = write_list_rt_objs sw l.
Proof.
  unfold write_list_rt_objs. f_equal. induction l as [|o l IH]; [reflexivity|].
  cbn [map mapM]. now rewrite write_rtobject_norm, IH.
Qed.

Lemma write_dictionary_norm m : write_dictionary_values sw (norm_valmap sw m) = write_dictionary_values sw m.
Proof.
  unfold write_dictionary_values. f_equal. generalize (@nil (text * json)).
  induction m as [|[k v] m IH]; intros acc; [reflexivity|].
  cbn [norm_valmap map fold_left fst snd]. rewrite write_value_norm. apply IH.
Qed.

Lemma is_nil_norm_valmap m : is_nil (norm_valmap sw m) = is_nil m.
Proof. destruct m; reflexivity. Qed.

Lemma write_element_norm e : write_element sw root (norm_element sw e) = write_element sw root e.
Proof.
  destruct e as [[pc pi] inexpr temps ty evalh fstart]. unfold write_element, norm_element, norm_ptr, ptr_is_null.
  cbn [el_ptr el_inexpr el_temps el_type el_fstart ptr_c ptr_i]. rewrite is_nil_norm_valmap, write_dictionary_norm.
  destruct (ssw_fstart_saved sw); destruct pc; reflexivity.
Qed.

Lemma mapM_ext_in {A B} (f g : A -> Res B) l : (forall x, In x l -> f x = g x) -> mapM f l = mapM g l.
Proof.
  induction l as [|x l IH]; intros H; [reflexivity|]. cbn. rewrite H by now left.
  destruct (g x); try reflexivity. cbn. rewrite IH; [reflexivity|]. intros y Hy. apply H. now right.
Qed.

Lemma mapM_map {A B C} (f : B -> Res C) (g : A -> B) l : mapM f (map g l) = mapM (fun x => f (g x)) l.
Proof. induction l as [|x l IH]; [reflexivity|]. cbn. now rewrite IH. Qed.

Lemma write_thread_norm t : wf_thread_b root t = true ->
  write_thread panics sw root (norm_thread sw root t) = write_thread panics sw root t.
Proof.
  unfold wf_thread_b. intros H. apply andb_true_iff in H as [H _]. apply andb_true_iff in H as [_ Hprev].
  destruct t as [els prev idx]. unfold write_thread, norm_thread. cbn [th_cs th_prev th_index] in *.
  rewrite mapM_map. rewrite (mapM_ext_in _ (write_element sw root)) by (intros; apply write_element_norm).
  destruct (mapM (write_element sw root) els); try reflexivity. cbn [bind].
  unfold prev_ok_b in Hprev. unfold norm_prev.
  destruct (reload_prev root prev) as [q| |] eqn:Er; rewrite ?Er in Hprev; try discriminate.
  unfold reload_prev in Er. destruct (ptr_is_null prev) eqn:En.
  - inversion Er; subst q. reflexivity.
  - destruct (ptr_resolve root prev) as [pos|] eqn:Ep; [|discriminate].
    rewrite ?Ep in Hprev.
    destruct (ptr_resolve root q) as [pos'|] eqn:Eq; rewrite ?Eq in Hprev; cbn in Hprev; [|discriminate].
    apply pos_eqb_eq in Hprev. subst pos'.
    assert (Hq : ptr_is_null q = false).
    { unfold ptr_is_null, ptr_resolve in *. destruct (ptr_c q); [reflexivity|discriminate]. }
    rewrite Hq. reflexivity.
Qed.

Lemma write_callstack_norm cs : wf_callstack_b root cs = true ->
  write_callstack panics sw root (norm_callstack sw root cs) = write_callstack panics sw root cs.
Proof.
  unfold wf_callstack_b. intros H. apply andb_true_iff in H as [H _]. apply andb_true_iff in H as [_ Hts].
  unfold write_callstack, norm_callstack. cbn [cs_threads cs_counter]. rewrite mapM_map.
  rewrite (mapM_ext_in _ (write_thread panics sw root)); [reflexivity|].
  intros t Hin. apply write_thread_norm. eapply forallb_In; eassumption.
Qed.

(* the choiceThreads loop on the reloaded choices *)
Lemma find_index_some cs i t : cs_thread_with_index cs i = Some t -> th_index t = i.
Proof.
  unfold cs_thread_with_index. intros H. apply find_some in H as [_ H]. now apply N.eqb_eq in H.
Qed.

Hypothesis Hflag : ssw_invis_written sw = ssw_invis_read sw.

Lemma write_choice_norm ncs c idx : wf_choice_b root c = true ->
  write_choice sw (norm_choice sw root ncs c) idx = write_choice sw c idx.
Proof.
  intros H. destruct (wf_choice_thread root c H) as (th & Eth & _).
  unfold norm_choice. rewrite Eth. unfold write_choice.
  cbn [ch_text ch_index ch_source ch_target ch_tags ch_invisible].
  rewrite <- Hflag. destruct (ssw_invis_written sw), (ch_invisible c); reflexivity.
Qed.

Definition nc_pair (ncs : callstack) (cn : choice * N) : choice * N := (norm_choice sw root ncs (fst cn), snd cn).

Lemma wct_norm cs choices : forallb (wf_choice_b root) choices = true ->
  forall jct0 done0,
  foldM (wct_step panics sw root (norm_callstack sw root cs))
        (map (norm_choice sw root (norm_callstack sw root cs)) choices)
        (jct0, map (nc_pair (norm_callstack sw root cs)) done0)
  = (do r <- foldM (wct_step panics sw root cs) choices (jct0, done0);
     Ok (fst r, map (nc_pair (norm_callstack sw root cs)) (snd r))).
Proof.
  set (ncs := norm_callstack sw root cs).
  induction choices as [|c l IH]; intros Hwf jct0 done0; [reflexivity|].
  cbn in Hwf. apply andb_true_iff in Hwf as [Hc Hl].
  destruct (wf_choice_thread root c Hc) as (th & Eth & Hth & _ & _ & Eidx & _).
  cbn [map foldM]. unfold wct_step at 1 3. rewrite Eth.
  unfold norm_choice at 1. rewrite Eth. cbn [ch_thread ssite_res bind].
  assert (Hlook : cs_thread_with_index ncs (th_index th) = option_map (norm_thread sw root) (cs_thread_with_index cs (th_index th)))
    by apply thread_with_index_norm.
  destruct (cs_thread_with_index cs (th_index th)) as [t|] eqn:Ecs; cbn [option_map] in Hlook; rewrite Hlook.
  - (* the thread is on the call stack: nothing is written, before and after *)
    assert (Hi : th_index (norm_thread sw root t) = th_index th) by (cbn; now apply find_index_some in Ecs).
    rewrite Hi, Hlook. cbn [bind].
    change (map (nc_pair ncs) done0 ++ [(norm_choice sw root ncs c, th_index th)])
      with (map (nc_pair ncs) done0 ++ map (nc_pair ncs) [(c, th_index th)]).
    rewrite <- map_app. apply (IH Hl).
  - change (th_index (norm_thread sw root th)) with (th_index th). rewrite Hlook.
    rewrite (write_thread_norm th Hth).
    destruct (write_thread panics sw root th) as [jt| |]; cbn [bind]; try reflexivity.
    change (map (nc_pair ncs) done0 ++ [(norm_choice sw root ncs c, th_index th)])
      with (map (nc_pair ncs) done0 ++ map (nc_pair ncs) [(c, th_index th)]).
    rewrite <- map_app. apply (IH Hl).
Qed.

Lemma write_flow_norm ccs name f : wf_flow_b root ccs f = true ->
  forall any_cs,
  write_flow panics sw root any_cs (norm_flow sw root ccs name f) = write_flow panics sw root ccs f.
Proof.
  unfold wf_flow_b. intros H any_cs. apply andb_true_iff in H as [H Hnd]. apply andb_true_iff in H as [H Hch].
  apply andb_true_iff in H as [Hcs Hout].
  unfold write_flow, norm_flow. cbn [fl_alias_cs fl_cs fl_out fl_choices].
  set (cs := if fl_alias_cs f then ccs else fl_cs f) in *.
  rewrite (write_callstack_norm cs Hcs). destruct (write_callstack panics sw root cs); try reflexivity. cbn [bind].
  rewrite write_list_rt_objs_norm. destruct (write_list_rt_objs sw (fl_out f)); try reflexivity. cbn [bind].
  rewrite !wct_unfold. pose proof (wct_norm cs (fl_choices f) Hch [] []) as Hw. cbn [map] in Hw. rewrite Hw.
  destruct (wct_loop panics sw root cs (fl_choices f) Hch Hnd [] []) as (jct & Hf & _). rewrite Hf. cbn [bind fst snd app].
  rewrite !map_map. cbn [fst snd nc_pair].
  assert (Hm : map (fun x : choice => write_choice sw (norm_choice sw root (norm_callstack sw root cs) x) (choice_tidx x))
                   (fl_choices f)
               = map (fun x : choice => write_choice sw x (choice_tidx x)) (fl_choices f)).
  { apply map_ext_in. intros c Hin. apply write_choice_norm. eapply forallb_In; eassumption. }
  rewrite Hm. reflexivity.
Qed.

End Resave.

Section ResaveState.
Variable panics : ssite -> bool.
Variable sw : save_switches.
Variable root : container.
Hypothesis Hflag : ssw_invis_written sw = ssw_invis_read sw.
Hypothesis Hlist : ssw_list_eq_origins sw = true -> ssw_origins_written sw = true.

(* ---------- the "flows" object ---------- *)
Definition write_flows_part (s : sstate) : Res (list (text * json)) :=
  let cur := ss_flow s in
  let ccs := fl_cs cur in
  do jcur <- write_flow panics sw root ccs cur;
  foldM (fun acc (kf : text * flow) =>
           do j <- write_flow panics sw root ccs (snd kf); Ok (assoc_set (fst kf) j acc))
        (match ss_named s with Some nf => nf | None => [] end)
        [(fl_name cur, jcur)].

(* a saved flow entry and the flow it is reloaded as *)
Definition resave_rel (kj : text * json) (kf : text * flow) : Prop :=
  fst kj = fst kf /\ fl_name (snd kf) = fst kf
  /\ forall any_cs, write_flow panics sw root any_cs (snd kf) = Ok (snd kj).

Lemma forall2_assoc_set_gen {A B} (R : text * A -> text * B -> Prop) k v v' l l' :
  (forall kj kf, R kj kf -> fst kj = fst kf) ->
  Forall2 R l l' -> R (k, v) (k, v') -> Forall2 R (assoc_set k v l) (assoc_set k v' l').
Proof.
  intros Hkey H Hr. induction H as [|[k1 j1] [k2 f2] l l' Hh Ht IH]; cbn.
  - constructor; [assumption|constructor].
  - pose proof (Hkey _ _ Hh) as Hk. cbn in Hk. subst k2. destruct (text_eqb k k1).
    + constructor; assumption.
    + constructor; [exact Hh|exact IH].
Qed.

Lemma write_flows_resave_rel ccs named :
  forallb (fun kf : text * flow => wf_flow_b root ccs (snd kf)) named = true ->
  forall accj accf, Forall2 resave_rel accj accf ->
  forall fd,
    foldM (fun acc (kf : text * flow) =>
             do j <- write_flow panics sw root ccs (snd kf); Ok (assoc_set (fst kf) j acc)) named accj = Ok fd ->
    Forall2 resave_rel fd
         (fold_left (fun acc (kf : text * flow) => assoc_set (fst kf) (norm_flow sw root ccs (fst kf) (snd kf)) acc)
                    named accf).
Proof.
  induction named as [|[k f] named IH]; intros Hwf accj accf Hrel fd Hfd.
  - cbn in Hfd. inversion Hfd; subst. exact Hrel.
  - cbn in Hwf. apply andb_true_iff in Hwf as [Hf Hn].
    cbn [foldM fold_left fst snd] in *.
    destruct (write_flow panics sw root ccs f) as [j| |] eqn:Hw; cbn [bind] in Hfd; try discriminate.
    eapply IH; [assumption| |exact Hfd].
    apply forall2_assoc_set_gen; [intros kj kf (H & _); exact H|assumption|].
    split; [reflexivity|]. split; [reflexivity|]. intros any_cs. cbn [snd].
    rewrite (write_flow_norm panics sw root Hflag ccs k f Hf any_cs). exact Hw.
Qed.

Lemma assoc_set_head {V} k (v : V) k0 v0 l :
  exists v1, assoc_set k v ((k0, v0) :: l) = (k0, v1) :: match (if text_eqb k k0 then None else Some tt) with
                                                         | None => l | Some _ => assoc_set k v l end.
Proof. cbn. destruct (text_eqb k k0) eqn:E; [apply text_eqb_eq in E; subst; eexists; reflexivity|eexists; reflexivity]. Qed.

Lemma flows_as_saved_head s : exists f0 rest, flows_as_saved sw root s = (fl_name (ss_flow s), f0) :: rest.
Proof.
  unfold flows_as_saved. generalize (match ss_named s with Some nf => nf | None => [] end). intros named.
  generalize (norm_flow sw root (fl_cs (ss_flow s)) (fl_name (ss_flow s)) (ss_flow s)). intros f0.
  generalize (@nil (text * flow)). revert f0.
  induction named as [|[k f] named IH]; intros f0 tl; [eexists; eexists; reflexivity|].
  cbn [fold_left fst snd]. destruct (assoc_set_head k (norm_flow sw root (fl_cs (ss_flow s)) k f) (fl_name (ss_flow s)) f0 tl) as (v1 & ->).
  apply IH.
Qed.

(* appending distinct keys with the monadic fold *)
Lemma foldM_resave ccs' rest_f : forall rest_j acc,
  Forall2 resave_rel rest_j rest_f ->
  keys_nodup_b rest_f = true -> (forall kf, In kf rest_f -> assoc (fst kf) acc = None) ->
  foldM (fun acc (kf : text * flow) =>
           do j <- write_flow panics sw root ccs' (snd kf); Ok (assoc_set (fst kf) j acc)) rest_f acc
  = Ok (acc ++ rest_j).
Proof.
  induction rest_f as [|[k f] rest_f IH]; intros rest_j acc Hrel Hnd Hacc.
  - inversion Hrel; subst. cbn. now rewrite app_nil_r.
  - inversion Hrel as [|[k' j] ? rj ? Hh Ht]; subst. destruct Hh as (Hk & _ & Hw). cbn [fst snd] in *. subst k'.
    apply keys_nodup_tail in Hnd as [Hk0 Hnd].
    cbn [foldM fst snd]. rewrite (Hw ccs'). cbn [bind].
    pose proof (Hacc (k, f) (or_introl eq_refl)) as Hf. cbn [fst] in Hf. rewrite (assoc_set_fresh _ _ _ Hf).
    rewrite (IH rj); [now rewrite <- app_assoc|assumption|assumption|].
    intros [k2 f2] Hin. cbn [fst]. rewrite assoc_app_none by (apply (Hacc (k2, f2)); now right).
    cbn. destruct (text_eqb k2 k) eqn:E; [|reflexivity].
    apply text_eqb_eq in E. subst. exfalso. exact (assoc_none_not_in _ _ Hk0 _ Hin).
Qed.

Lemma assoc_remove_none {V} k (l : list (text * V)) : assoc k l = None -> assoc_remove k l = l.
Proof.
  induction l as [|[k' v] l IH]; cbn; [reflexivity|]. destruct (text_eqb k k'); [discriminate|].
  intros H. now rewrite IH.
Qed.

Lemma assoc_remove_head {V} k (v : V) l : assoc_remove k ((k, v) :: l) = assoc_remove k l.
Proof. cbn. now rewrite text_eqb_refl. Qed.

Lemma write_flows_part_norm t s :
  wf_flow_b root (fl_cs (ss_flow s)) (ss_flow s) = true ->
  forallb (fun kf : text * flow => wf_flow_b root (fl_cs (ss_flow s)) (snd kf))
          (match ss_named s with Some nf => nf | None => [] end) = true ->
  write_flows_part (norm_sstate sw root t s) = write_flows_part s.
Proof.
  intros Hcur Hnamed. unfold write_flows_part at 2.
  set (ccs := fl_cs (ss_flow s)) in *. set (cur := fl_name (ss_flow s)).
  destruct (write_flow panics sw root ccs (ss_flow s)) as [jcur| |] eqn:Hwc.
  2,3: destruct (flow_roundtrip_lemma panics sw root ccs cur (ss_flow s) Hcur) as (o & Hw & _); congruence.
  cbn [bind].
  set (named := match ss_named s with Some nf => nf | None => [] end) in *.
  destruct (write_flows_rel panics sw root ccs named Hnamed [(cur, jcur)] [(cur, norm_flow sw root ccs cur (ss_flow s))]) as (fd & Hfd & _).
  { destruct (flow_roundtrip_lemma panics sw root ccs cur (ss_flow s) Hcur) as (o & Hw & Hr).
    rewrite Hwc in Hw. inversion Hw; subst jcur.
    constructor; [|constructor]. split; [reflexivity|]. exists o. split; [reflexivity|exact Hr]. }
  rewrite Hfd.
  assert (Hrel0 : Forall2 resave_rel [(cur, jcur)] [(cur, norm_flow sw root ccs cur (ss_flow s))]).
  { constructor; [|constructor]. split; [reflexivity|]. split; [reflexivity|]. intros any_cs. cbn [snd].
    rewrite (write_flow_norm panics sw root Hflag ccs cur (ss_flow s) Hcur any_cs). exact Hwc. }
  pose proof (write_flows_resave_rel ccs named Hnamed _ _ Hrel0 fd Hfd) as Hrel.
  change (fold_left _ named _) with (flows_as_saved sw root s) in Hrel.
  pose proof (flows_as_saved_nodup sw root s) as Hnd.
  destruct (flows_as_saved_head s) as (f0 & rest & Hhead). fold cur in Hhead.
  unfold write_flows_part, norm_sstate. fold cur. rewrite Hhead in *.
  inversion Hrel as [|[k0 j0] ? rest_j ? Hh Ht]; subst. destruct Hh as (Hk & Hname & Hw0). cbn [fst snd] in *. subst k0.
  apply keys_nodup_tail in Hnd as [Hcur_rest Hnd_rest].
  destruct rest as [|r0 rest'].
  - (* a single flow *)
    inversion Ht; subst. cbn [length Nat.eqb]. cbn [ss_flow ss_named]. rewrite Hname, (Hw0 (fl_cs f0)). reflexivity.
  - cbn [length Nat.eqb assoc]. rewrite text_eqb_refl. cbn [ss_flow ss_named].
    rewrite assoc_remove_head, (assoc_remove_none _ _ Hcur_rest).
    rewrite Hname, (Hw0 (fl_cs f0)). cbn [bind].
    rewrite (foldM_resave (fl_cs f0) (r0 :: rest') rest_j [(cur, j0)] Ht Hnd_rest); [reflexivity|].
    intros [k2 f2] Hin. cbn. destruct (text_eqb k2 cur) eqn:E; [|reflexivity].
    apply text_eqb_eq in E. subst. exfalso. exact (assoc_none_not_in _ _ Hcur_rest _ Hin).
Qed.


(* ---------- variables ---------- *)
Lemma val_equal_norm v d : val_equal sw (norm_value sw v) d = val_equal sw v d.
Proof.
  destruct v; try reflexivity. destruct d; try reflexivity.
  cbn [norm_value val_equal]. unfold list_val_equal, norm_list, list_eqb. cbn [l_items l_init_names].
  f_equal. destruct (ssw_list_eq_origins sw) eqn:E; [|reflexivity].
  rewrite (Hlist eq_refl). cbn [andb]. destruct (is_nil (l_items l)); reflexivity.
Qed.

Definition reloaded_value (G : list (text * value)) (kd : text * value) : value :=
  match assoc (fst kd) G with
  | Some v => if val_equal sw v (snd kd) then snd kd else norm_value sw v
  | None => snd kd
  end.

Lemma norm_globals_map D G : keys_nodup_b D = true ->
  norm_globals sw D G = map (fun kd : text * value => (fst kd, reloaded_value G kd)) D.
Proof.
  intros H. unfold norm_globals.
  exact (fold_assoc_set_nodup0 (fun kd : text * value => reloaded_value G kd) D H).
Qed.

Lemma write_vars_fold_resave D G : forall gl dl acc,
  map fst gl = map fst dl ->
  (forall kd, In kd dl -> assoc (fst kd) D = Some (snd kd)) ->
  (forall kv, In kv gl -> assoc (fst kv) G = Some (snd kv)) ->
  (forall kd, In kd dl -> val_equal sw (snd kd) (snd kd) = true) ->
  fold_left (write_vars_step sw D) (map (fun kd : text * value => (fst kd, reloaded_value G kd)) dl) acc
  = fold_left (write_vars_step sw D) gl acc.
Proof.
  induction gl as [|[k v] gl IH]; intros [|[k' d] dl] acc Hk HD HG Hrefl; try discriminate; [reflexivity|].
  cbn in Hk. inversion Hk; subst k'. cbn [map fold_left fst snd].
  assert (Estep : write_vars_step sw D acc (k, reloaded_value G (k, d)) = write_vars_step sw D acc (k, v)).
  { unfold write_vars_step, reloaded_value. cbn [fst snd].
    pose proof (HD (k, d) (or_introl eq_refl)) as E1. pose proof (HG (k, v) (or_introl eq_refl)) as E2.
    cbn [fst snd] in E1, E2. rewrite E1, E2.
    destruct (val_equal sw v d) eqn:E.
    - pose proof (Hrefl (k, d) (or_introl eq_refl)) as E3. cbn [snd] in E3. now rewrite E3.
    - now rewrite val_equal_norm, E, write_value_norm. }
  rewrite Estep. apply IH; [assumption| | |]; intros x Hx; [apply HD|apply HG|apply Hrefl]; now right.
Qed.

Lemma write_vars_resave v defaults_t :
  wf_valmap_b (vs_globals v) = true -> keys_nodup_b (vs_defaults v) = true ->
  defaults_t = vs_defaults v ->
  map fst (vs_globals v) = map fst (vs_defaults v) ->
  forallb (fun kd : text * value => val_equal sw (snd kd) (snd kd)) (vs_defaults v) = true ->
  forall b c p,
  write_vars sw (mkVarstate (norm_globals sw defaults_t (vs_globals v)) defaults_t b c p) = write_vars sw v.
Proof.
  intros Hg Hd -> Hkeys Hrefl b c p. unfold write_vars. cbn [vs_globals vs_defaults]. f_equal.
  rewrite (norm_globals_map _ _ Hd).
  change (fun (acc : list (text * json)) (kv : text * value) => _) with (write_vars_step sw (vs_defaults v)).
  apply write_vars_fold_resave.
  - exact Hkeys.
  - intros [k d] Hin. cbn [fst snd]. now apply nodup_in_assoc.
  - intros [k x] Hin. cbn [fst snd]. apply nodup_in_assoc; [|assumption].
    unfold wf_valmap_b in Hg. now apply andb_true_iff in Hg as [Hg _].
  - intros kd Hin. eapply forallb_In in Hrefl; eassumption.
Qed.

(* ---------- the whole state ---------- *)
Definition write_rest (s : sstate) (flows : list (text * json)) : Res json :=
  do jeval <- write_list_rt_objs sw (ss_eval s);
  do jdiv <- (if ptr_is_null (ss_diverted s) then Ok []
              else do p <- ptr_path root (ss_diverted s);
                   match p with
                   | Some pa => Ok [jfield "currentDivertTarget" (JStr (path_string pa))]
                   | None => Panic (T "model:write_json:get_path of a non-null pointer")
                   end);
  Ok (JObj ([jfield "flows" (JObj flows);
             jfield "currentFlowName" (JStr (fl_name (ss_flow s)));
             jfield "variablesState" (write_vars sw (ss_vars s));
             jfield "evalStack" jeval]
            ++ jdiv
            ++ [jfield "visitCounts" (write_int_dictionary (ss_visits s));
                jfield "turnIndices" (write_int_dictionary (ss_turns s));
                jfield "turnIdx" (JInt (ss_turn s));
                jfield "storySeed" (JInt (ss_seed s));
                jfield "previousRandom" (JInt (ss_prev_random s));
                jfield "inkSaveVersion" (JInt ink_save_state_version);
                jfield "inkFormatVersion" (JInt INK_VERSION_CURRENT_)])).

Lemma write_sstate_split s :
  write_sstate panics sw root s = (do flows <- write_flows_part s; write_rest s flows).
Proof.
  unfold write_sstate, write_flows_part, write_rest.
  destruct (write_flow panics sw root (fl_cs (ss_flow s)) (ss_flow s)); reflexivity.
Qed.

Lemma flows_as_saved_names s : Forall (fun kf : text * flow => fl_name (snd kf) = fst kf) (flows_as_saved sw root s).
Proof.
  unfold flows_as_saved. generalize (match ss_named s with Some nf => nf | None => [] end). intros named.
  assert (H0 : Forall (fun kf : text * flow => fl_name (snd kf) = fst kf)
                 [(fl_name (ss_flow s), norm_flow sw root (fl_cs (ss_flow s)) (fl_name (ss_flow s)) (ss_flow s))])
    by (constructor; [reflexivity|constructor]).
  revert H0. generalize [(fl_name (ss_flow s), norm_flow sw root (fl_cs (ss_flow s)) (fl_name (ss_flow s)) (ss_flow s))].
  induction named as [|[k f] named IH]; intros acc H; [assumption|].
  cbn [fold_left fst snd]. apply IH. clear IH.
  induction acc as [|[k' f'] acc IHa]; cbn.
  - constructor; [reflexivity|constructor].
  - inversion H; subst. destruct (text_eqb k k'); constructor; try assumption; [reflexivity|now apply IHa].
Qed.

Lemma norm_sstate_flow_name t s : fl_name (ss_flow (norm_sstate sw root t s)) = fl_name (ss_flow s).
Proof.
  destruct (flows_as_saved_head s) as (f0 & rest & Hhead).
  pose proof (flows_as_saved_names s) as Hn. unfold norm_sstate. rewrite Hhead in *.
  inversion Hn; subst. cbn [fst snd] in *.
  destruct rest; cbn [length Nat.eqb ss_flow assoc]; [assumption|]. now rewrite text_eqb_refl.
Qed.

Theorem resave_equiv_lemma t w :
  wf_world_b w = true -> root_of w = root -> root_of t = root ->
  vs_defaults (ss_vars (w_state t)) = vs_defaults (ss_vars (w_state w)) ->
  ptr_is_null (ss_diverted (w_state t)) = true ->
  map fst (vs_globals (ss_vars (w_state w))) = map fst (vs_defaults (ss_vars (w_state w))) ->
  forallb (fun kd : text * value => val_equal sw (snd kd) (snd kd)) (vs_defaults (ss_vars (w_state w))) = true ->
  write_state panics sw (norm_save sw root t w) = write_state panics sw w.
Proof.
  intros Hwf Hrw Hrt Hdef Hdiv0 Hkeys Hrefl.
  unfold write_state, norm_save. rewrite <- set_st_eq. rewrite root_of_set_st, w_state_set_st, Hrw, Hrt.
  unfold wf_world_b, wf_sstate_b in Hwf. rewrite Hrw in Hwf. set (s := w_state w) in *.
  apply andb_true_iff in Hwf as [Hwf _]. apply andb_true_iff in Hwf as [Hwf _].
  apply andb_true_iff in Hwf as [Hwf _]. apply andb_true_iff in Hwf as [Hwf _].
  apply andb_true_iff in Hwf as [Hwf _]. apply andb_true_iff in Hwf as [Hwf _].
  apply andb_true_iff in Hwf as [Hwf _]. apply andb_true_iff in Hwf as [Hwf Hd].
  apply andb_true_iff in Hwf as [Hwf Hg]. apply andb_true_iff in Hwf as [Hcur Hnamed].
  assert (Hnamed' : forallb (fun kf : text * flow => wf_flow_b root (fl_cs (ss_flow s)) (snd kf))
                            (match ss_named s with Some nf => nf | None => [] end) = true).
  { destruct (ss_named s); [now apply andb_true_iff in Hnamed as [Hn _]|reflexivity]. }
  rewrite !write_sstate_split. rewrite (write_flows_part_norm (w_state t) s Hcur Hnamed').
  destruct (write_flows_part s) as [flows| |]; try reflexivity. cbn [bind].
  unfold write_rest. rewrite norm_sstate_flow_name.
  assert (Hev : ss_eval (norm_sstate sw root (w_state t) s) = map (norm_obj sw) (ss_eval s)).
  { unfold norm_sstate. destruct (Nat.eqb _ 1); [reflexivity|]. destruct (assoc _ _); reflexivity. }
  assert (Hdv : ss_diverted (norm_sstate sw root (w_state t) s)
                = if ptr_is_null (ss_diverted s) then ss_diverted (w_state t) else ss_diverted s).
  { unfold norm_sstate. destruct (Nat.eqb _ 1); [reflexivity|]. destruct (assoc _ _); reflexivity. }
  assert (Hvs : ss_vars (norm_sstate sw root (w_state t) s)
                = mkVarstate (norm_globals sw (vs_defaults (ss_vars (w_state t))) (vs_globals (ss_vars s)))
                             (vs_defaults (ss_vars (w_state t))) (vs_batch (ss_vars (w_state t)))
                             (vs_changed (ss_vars (w_state t))) (vs_patch (ss_vars (w_state t)))).
  { unfold norm_sstate. destruct (Nat.eqb _ 1); [reflexivity|]. destruct (assoc _ _); reflexivity. }
  assert (Hot : ss_visits (norm_sstate sw root (w_state t) s) = ss_visits s
                /\ ss_turns (norm_sstate sw root (w_state t) s) = ss_turns s
                /\ ss_turn (norm_sstate sw root (w_state t) s) = ss_turn s
                /\ ss_seed (norm_sstate sw root (w_state t) s) = ss_seed s
                /\ ss_prev_random (norm_sstate sw root (w_state t) s) = ss_prev_random s).
  { unfold norm_sstate. destruct (Nat.eqb _ 1); [repeat split|]. destruct (assoc _ _); repeat split. }
  destruct Hot as (H1 & H2 & H3 & H4 & H5). rewrite Hev, Hdv, Hvs, H1, H2, H3, H4, H5.
  rewrite write_list_rt_objs_norm.
  rewrite (write_vars_resave (ss_vars s) _ Hg Hd Hdef Hkeys Hrefl).
  destruct (ptr_is_null (ss_diverted s)) eqn:En; [rewrite Hdiv0|rewrite En]; reflexivity.
Qed.

End ResaveState.

Lemma texts_eq_b_eq a b : texts_eq_b a b = true -> a = b.
Proof.
  revert b. induction a as [|x a IH]; destruct b as [|y b]; cbn; intros H; try discriminate; [reflexivity|].
  apply andb_true_iff in H as [H1 H2]. apply text_eqb_eq in H1. apply IH in H2. now subst.
Qed.

(* the re-save theorem with its executable hypotheses *)
Theorem resave_equiv_b panics sw t w :
  ssw_invis_written sw = ssw_invis_read sw ->
  (ssw_list_eq_origins sw = true -> ssw_origins_written sw = true) ->
  wf_world_b w = true -> resave_hyp_b sw w = true ->
  root_of t = root_of w ->
  vs_defaults (ss_vars (w_state t)) = vs_defaults (ss_vars (w_state w)) ->
  ptr_is_null (ss_diverted (w_state t)) = true ->
  write_state panics sw (norm_save sw (root_of w) t w) = write_state panics sw w.
Proof.
  intros Hf Hl Hwf Hh Hroot Hdef Hdiv. unfold resave_hyp_b in Hh.
  apply andb_true_iff in Hh as [Hh _]. apply andb_true_iff in Hh as [Hk Hr].
  apply (resave_equiv_lemma panics sw (root_of w) Hf Hl t w); try assumption; try reflexivity.
  now apply texts_eq_b_eq.
Qed.

Lemma switches_coherent_now :
  ssw_invis_written save_switches_now = ssw_invis_read save_switches_now
  /\ (ssw_list_eq_origins save_switches_now = true -> ssw_origins_written save_switches_now = true).
Proof. split; [reflexivity|]. cbn. intros H. first [exact H|reflexivity|discriminate]. Qed.

(* ================================================================= *)
(*  every flow survives (C10 / C02)                                   *)
(* ================================================================= *)
Section AllFlows.
Variable sw : save_switches.
Variable root : container.

(* Story-level view: the flow registered under a name *)
Definition flow_of (s : sstate) (k : text) : option flow :=
  if text_eqb k (fl_name (ss_flow s)) then Some (ss_flow s)
  else match ss_named s with Some nf => assoc k nf | None => None end.

Definition named_of (s : sstate) : list (text * flow) :=
  match ss_named s with Some nf => nf | None => [] end.

(* no stale entry under the current flow's own name (the D12 situation) *)
Definition no_alias_entry_b (s : sstate) : bool :=
  negb (assoc_mem (fl_name (ss_flow s)) (named_of s)) && keys_nodup_b (named_of s).

Lemma flows_as_saved_no_alias s : no_alias_entry_b s = true ->
  flows_as_saved sw root s
  = (fl_name (ss_flow s), norm_flow sw root (fl_cs (ss_flow s)) (fl_name (ss_flow s)) (ss_flow s))
    :: map (fun kf : text * flow => (fst kf, norm_flow sw root (fl_cs (ss_flow s)) (fst kf) (snd kf))) (named_of s).
Proof.
  unfold no_alias_entry_b, flows_as_saved. fold (named_of s). intros H. apply andb_true_iff in H as [Hc Hnd].
  apply negb_true_iff in Hc. apply assoc_mem_false_assoc in Hc.
  rewrite (fold_assoc_set_keyed (fun kf : text * flow => fst kf)
             (fun kf : text * flow => norm_flow sw root (fl_cs (ss_flow s)) (fst kf) (snd kf)) (named_of s)).
  - reflexivity.
  - clear Hc. induction (named_of s) as [|[k f] l IH]; [reflexivity|].
    apply keys_nodup_tail in Hnd as [Hk Hl]. cbn [map fst keys_nodup_b]. rewrite (IH Hl), andb_true_r.
    apply negb_true_iff. unfold assoc_mem. rewrite (assoc_map_none (fun _ => tt)); [reflexivity|exact Hk].
  - intros [k f] Hin. cbn [fst assoc]. destruct (text_eqb k (fl_name (ss_flow s))) eqn:E; [|reflexivity].
    apply text_eqb_eq in E. subst. exfalso. exact (assoc_none_not_in _ _ Hc _ Hin).
Qed.

Lemma assoc_map_val {A B} (g : text -> A -> B) k (l : list (text * A)) :
  assoc k (map (fun kf : text * A => (fst kf, g (fst kf) (snd kf))) l) = option_map (g k) (assoc k l).
Proof.
  induction l as [|[k' a] l IH]; cbn; [reflexivity|]. destruct (text_eqb k k') eqn:E; [|exact IH].
  apply text_eqb_eq in E. now subst.
Qed.

Lemma assoc_remove_map_fresh {A B} (g : text * A -> text * B) k (l : list (text * A)) :
  (forall x, fst (g x) = fst x) -> assoc k l = None -> assoc_remove k (map g l) = map g l.
Proof.
  intros Hg H. apply assoc_remove_none. induction l as [|[k' a] l IH]; [reflexivity|].
  cbn in H |- *. pose proof (Hg (k', a)) as E. destruct (g (k', a)) as [k2 b]. cbn in E. subst k2.
  destruct (text_eqb k k'); [discriminate|now apply IH].
Qed.

Theorem all_flows_preserved_lemma t s : no_alias_entry_b s = true ->
  forall k f, flow_of s k = Some f ->
  flow_of (norm_sstate sw root t s) k = Some (norm_flow sw root (fl_cs (ss_flow s)) k f).
Proof.
  intros Hna k f Hk. pose proof (flows_as_saved_no_alias s Hna) as Hfl.
  unfold no_alias_entry_b in Hna. apply andb_true_iff in Hna as [Hc Hnd].
  apply negb_true_iff in Hc. apply assoc_mem_false_assoc in Hc.
  set (cur := fl_name (ss_flow s)) in *. set (ccs := fl_cs (ss_flow s)) in *.
  unfold flow_of in *. fold cur in Hk.
  unfold norm_sstate. fold cur. rewrite Hfl.
  destruct (named_of s) as [|kf0 rest] eqn:En.
  - (* a single flow *)
    cbn [map length Nat.eqb ss_flow ss_named]. cbn [fl_name norm_flow].
    destruct (text_eqb k cur) eqn:E.
    + apply text_eqb_eq in E. subst k. inversion Hk; subst f. reflexivity.
    + unfold named_of in En. destruct (ss_named s) as [nf|]; [subst nf; discriminate|discriminate].
  - cbn [map length Nat.eqb assoc]. rewrite text_eqb_refl. cbn [ss_flow ss_named fl_name norm_flow].
    rewrite assoc_remove_head.
    destruct (text_eqb k cur) eqn:E.
    + apply text_eqb_eq in E. subst k. inversion Hk; subst f. reflexivity.
    + change ((fst kf0, norm_flow sw root ccs (fst kf0) (snd kf0))
               :: map (fun kf : text * flow => (fst kf, norm_flow sw root ccs (fst kf) (snd kf))) rest)
        with (map (fun kf : text * flow => (fst kf, norm_flow sw root ccs (fst kf) (snd kf))) (kf0 :: rest)).
      rewrite (assoc_remove_map_fresh (fun kf : text * flow => (fst kf, norm_flow sw root ccs (fst kf) (snd kf))))
        by (try reflexivity; exact Hc).
      rewrite (assoc_map_val (fun k f => norm_flow sw root ccs k f)).
      unfold named_of in En. destruct (ss_named s) as [nf|]; [|discriminate]. subst nf. now rewrite Hk.
Qed.

End AllFlows.

(* ================================================================= *)
(*  what the host can read right after a load                         *)
(* ================================================================= *)
Section Immediate.
Variable sw : save_switches.
Variable root : container.

Lemma norm_sstate_current_flow t s : no_alias_entry_b s = true ->
  ss_flow (norm_sstate sw root t s)
  = norm_flow sw root (fl_cs (ss_flow s)) (fl_name (ss_flow s)) (ss_flow s).
Proof.
  intros Hna. pose proof (all_flows_preserved_lemma sw root t s Hna (fl_name (ss_flow s)) (ss_flow s)) as H.
  unfold flow_of in H. rewrite text_eqb_refl in H. specialize (H eq_refl).
  rewrite norm_sstate_flow_name, text_eqb_refl in H. now inversion H.
Qed.

Lemma last_opt_map {A B} (f : A -> B) l : last_opt (map f l) = option_map f (last_opt l).
Proof.
  unfold last_opt. induction l as [|x l IH]; [reflexivity|]. cbn [map].
  destruct l as [|y l]; [reflexivity|]. exact IH.
Qed.

(* the current pointer: the same position; a null pointer stays null *)
Lemma cur_pointer_norm cs :
  (do e <- cs_cur_element (norm_callstack sw root cs); Ok (el_ptr e))
  = (do e <- cs_cur_element cs; Ok (norm_ptr (el_ptr e))).
Proof.
  unfold cs_cur_element, cs_cur_thread, norm_callstack. cbn [cs_threads].
  rewrite last_opt_map. destruct (last_opt (cs_threads cs)) as [t|]; [|reflexivity].
  cbn [option_map unwrap_or_panic bind]. unfold norm_thread. cbn [th_cs]. rewrite last_opt_map.
  destruct (last_opt (th_cs t)); reflexivity.
Qed.

Lemma norm_choice_fields ncs c : ch_thread c <> None ->
  ch_text (norm_choice sw root ncs c) = ch_text c
  /\ ch_tags (norm_choice sw root ncs c) = ch_tags c
  /\ ch_index (norm_choice sw root ncs c) = ch_index c
  /\ ch_target (norm_choice sw root ncs c) = ch_target c
  /\ ch_source (norm_choice sw root ncs c) = ch_source c
  /\ ch_invisible (norm_choice sw root ncs c) = ssw_invis_written sw && ssw_invis_read sw && ch_invisible c.
Proof. unfold norm_choice. destruct (ch_thread c); [|congruence]. intros _. repeat split. Qed.

(* Right after a load the restored story shows what the original showed: every field
   the host getters read (output stream -> text and tags, pending choices and their
   visibility, the current pointer -> can_continue, counters, seeds) is the original's,
   values up to [norm_value].  Errors and warnings are the target's own. *)
Theorem restored_state_immediate_lemma t s :
  no_alias_entry_b s = true ->
  forallb (fun c => match ch_thread c with Some _ => true | None => false end) (fl_choices (ss_flow s)) = true ->
  let s' := norm_sstate sw root t s in
  fl_name (ss_flow s') = fl_name (ss_flow s)
  /\ fl_out (ss_flow s') = map (norm_obj sw) (fl_out (ss_flow s))
  /\ map ch_text (fl_choices (ss_flow s')) = map ch_text (fl_choices (ss_flow s))
  /\ map ch_tags (fl_choices (ss_flow s')) = map ch_tags (fl_choices (ss_flow s))
  /\ map ch_invisible (fl_choices (ss_flow s'))
     = map (fun c => ssw_invis_written sw && ssw_invis_read sw && ch_invisible c) (fl_choices (ss_flow s))
  /\ (do e <- cs_cur_element (fl_cs (ss_flow s')); Ok (el_ptr e))
     = (do e <- cs_cur_element (fl_cs (ss_flow s)); Ok (norm_ptr (el_ptr e)))
  /\ ss_eval s' = map (norm_obj sw) (ss_eval s)
  /\ vs_globals (ss_vars s') = norm_globals sw (vs_defaults (ss_vars t)) (vs_globals (ss_vars s))
  /\ ss_visits s' = ss_visits s /\ ss_turns s' = ss_turns s /\ ss_turn s' = ss_turn s
  /\ ss_seed s' = ss_seed s /\ ss_prev_random s' = ss_prev_random s.
Proof.
  intros Hna Hth s'. subst s'. rewrite (norm_sstate_current_flow t s Hna).
  assert (Hrest : forall A (f : sstate -> A) (g : sstate -> A),
            (forall fl nm, f (mkSstate fl (ss_safe_exit t)
               (mkVarstate (norm_globals sw (vs_defaults (ss_vars t)) (vs_globals (ss_vars s)))
                           (vs_defaults (ss_vars t)) (vs_batch (ss_vars t)) (vs_changed (ss_vars t)) (vs_patch (ss_vars t)))
               (map (norm_obj sw) (ss_eval s)) (ss_errors t) (ss_warnings t) (ss_patch t) nm
               (if ptr_is_null (ss_diverted s) then ss_diverted t else ss_diverted s)
               (ss_visits s) (ss_turns s) (ss_turn s) (ss_seed s) (ss_prev_random s)) = g s) ->
            f (norm_sstate sw root t s) = g s).
  { intros A f g H. unfold norm_sstate. destruct (Nat.eqb _ 1); [apply H|]. destruct (assoc _ _); apply H. }
  assert (Hsrc : fl_alias_cs (ss_flow s) = true \/ fl_alias_cs (ss_flow s) = false) by (destruct (fl_alias_cs (ss_flow s)); auto).
  unfold norm_flow. cbn [fl_name fl_out fl_choices fl_cs].
  repeat split.
  - rewrite map_map. apply map_ext_in. intros c Hin.
    apply norm_choice_fields. pose proof (forallb_In _ _ _ Hth Hin) as H. cbn beta in H. intros E. rewrite E in H. discriminate.
  - rewrite map_map. apply map_ext_in. intros c Hin.
    apply norm_choice_fields. pose proof (forallb_In _ _ _ Hth Hin) as H. cbn beta in H. intros E. rewrite E in H. discriminate.
  - rewrite map_map. apply map_ext_in. intros c Hin.
    apply norm_choice_fields. pose proof (forallb_In _ _ _ Hth Hin) as H. cbn beta in H. intros E. rewrite E in H. discriminate.
  - destruct (fl_alias_cs (ss_flow s)); apply cur_pointer_norm.
  - apply (Hrest _ ss_eval (fun s => map (norm_obj sw) (ss_eval s))). reflexivity.
  - apply (Hrest _ (fun x => vs_globals (ss_vars x))
                   (fun s => norm_globals sw (vs_defaults (ss_vars t)) (vs_globals (ss_vars s)))). reflexivity.
  - apply (Hrest _ ss_visits ss_visits). reflexivity.
  - apply (Hrest _ ss_turns ss_turns). reflexivity.
  - apply (Hrest _ ss_turn ss_turn). reflexivity.
  - apply (Hrest _ ss_seed ss_seed). reflexivity.
  - apply (Hrest _ ss_prev_random ss_prev_random). reflexivity.
Qed.

End Immediate.

(* ---------- statements for Props (combining the above with save_load_norm) ---------- *)
Theorem save_preserves_all_flows_lemma panics sw t w :
  wf_world_b w = true -> no_alias_entry_b (w_state w) = true ->
  root_of t = root_of w ->
  vs_defaults (ss_vars (w_state t)) = vs_defaults (ss_vars (w_state w)) ->
  exists j w', write_state panics sw w = Ok j
    /\ load_state panics sw t j = (OOk tt, w')
    /\ forall k f, flow_of (w_state w) k = Some f ->
         flow_of (w_state w') k = Some (norm_flow sw (root_of w) (fl_cs (ss_flow (w_state w))) k f).
Proof.
  intros Hwf Hna Hroot Hdef.
  destruct (save_load_norm_lemma panics sw t w Hwf Hroot Hdef) as (j & Hw & Hl).
  exists j, (norm_save sw (root_of w) t w). split; [exact Hw|]. split; [exact Hl|].
  intros k f Hk. unfold norm_save. rewrite <- set_st_eq, w_state_set_st.
  now apply all_flows_preserved_lemma.
Qed.

Theorem restored_state_immediate_partial_lemma panics sw t w :
  wf_world_b w = true -> no_alias_entry_b (w_state w) = true ->
  root_of t = root_of w ->
  vs_defaults (ss_vars (w_state t)) = vs_defaults (ss_vars (w_state w)) ->
  exists j w', write_state panics sw w = Ok j
    /\ load_state panics sw t j = (OOk tt, w')
    /\ let s := w_state w in let s' := w_state w' in
       fl_name (ss_flow s') = fl_name (ss_flow s)
       /\ fl_out (ss_flow s') = map (norm_obj sw) (fl_out (ss_flow s))
       /\ map ch_text (fl_choices (ss_flow s')) = map ch_text (fl_choices (ss_flow s))
       /\ map ch_tags (fl_choices (ss_flow s')) = map ch_tags (fl_choices (ss_flow s))
       /\ map ch_invisible (fl_choices (ss_flow s'))
          = map (fun c => ssw_invis_written sw && ssw_invis_read sw && ch_invisible c) (fl_choices (ss_flow s))
       /\ (do e <- cs_cur_element (fl_cs (ss_flow s')); Ok (el_ptr e))
          = (do e <- cs_cur_element (fl_cs (ss_flow s)); Ok (norm_ptr (el_ptr e)))
       /\ ss_eval s' = map (norm_obj sw) (ss_eval s)
       /\ vs_globals (ss_vars s') = norm_globals sw (vs_defaults (ss_vars (w_state t))) (vs_globals (ss_vars s))
       /\ ss_visits s' = ss_visits s /\ ss_turns s' = ss_turns s /\ ss_turn s' = ss_turn s
       /\ ss_seed s' = ss_seed s /\ ss_prev_random s' = ss_prev_random s.
Proof.
  intros Hwf Hna Hroot Hdef.
  destruct (save_load_norm_lemma panics sw t w Hwf Hroot Hdef) as (j & Hw & Hl).
  exists j, (norm_save sw (root_of w) t w). split; [exact Hw|]. split; [exact Hl|].
  unfold norm_save. rewrite <- set_st_eq, w_state_set_st.
  apply restored_state_immediate_lemma; [assumption|].
  (* every pending choice has its thread: part of wf *)
  unfold wf_world_b, wf_sstate_b in Hwf.
  do 10 (apply andb_true_iff in Hwf as [Hwf _]).
  unfold wf_flow_b in Hwf. apply andb_true_iff in Hwf as [Hwf _]. apply andb_true_iff in Hwf as [_ Hch].
  apply forallb_forall. intros c Hin. rewrite forallb_forall in Hch. specialize (Hch c Hin).
  unfold wf_choice_b in Hch. destruct (ch_thread c); [reflexivity|discriminate].
Qed.
