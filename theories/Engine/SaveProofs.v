(* Engine/SaveProofs.v — lemmas about the save format model (Engine/Save.v):
   round trips of values, stream objects, dictionaries, call-stack elements,
   threads, call stacks, choices, variables, flows and whole states; the
   refutation witnesses for the behavioural half on the current sources.
   Statements used by Props/C02.v are at the end of each part. *)
From Coq Require Import Lia List Bool.
From Ink.Engine Require Import SaveWf.
From Ink.Data Require Import PathProofs PathTie InkList.
From Ink.Json Require Import StdLoad.
From Ink.Gen Require Import PathGen LoadGen CmdGen NativeGen SaveGen.
Import ListNotations.

(* ================================================================= *)
(*  generic list / monad lemmas                                       *)
(* ================================================================= *)
Lemma mapM_map_ok {A B C} (f : B -> Res C) (g : A -> B) (h : A -> C) l :
  (forall x, In x l -> f (g x) = Ok (h x)) -> mapM f (map g l) = Ok (map h l).
Proof.
  induction l as [|x l IH]; intros H; cbn; [reflexivity|].
  rewrite H by now left. cbn. rewrite IH by (intros y Hy; apply H; now right). reflexivity.
Qed.

Lemma mapM_ok_ext {A B} (f : A -> Res B) (h : A -> B) l :
  (forall x, In x l -> f x = Ok (h x)) -> mapM f l = Ok (map h l).
Proof.
  intros H. rewrite <- (map_id l) at 1. apply mapM_map_ok. exact H.
Qed.

Lemma forallb_In {A} (p : A -> bool) l x : forallb p l = true -> In x l -> p x = true.
Proof. intros H Hin. rewrite forallb_forall in H. now apply H. Qed.

Lemma andb_elim_l a b : a && b = true -> a = true.
Proof. intros H; now apply andb_true_iff in H. Qed.
Lemma andb_elim_r a b : a && b = true -> b = true.
Proof. intros H; now apply andb_true_iff in H. Qed.

(* ---------- association lists with distinct keys ---------- *)
Lemma assoc_mem_false_assoc {V} k (l : list (text * V)) : assoc_mem k l = false -> assoc k l = None.
Proof. unfold assoc_mem. destruct (assoc k l); [discriminate|reflexivity]. Qed.

Lemma assoc_app_none {V} k (a b : list (text * V)) : assoc k a = None -> assoc k (a ++ b) = assoc k b.
Proof.
  induction a as [|[k' v] a IH]; cbn; [reflexivity|].
  destruct (text_eqb k k'); [discriminate|exact IH].
Qed.

Lemma assoc_set_fresh {V} k (v : V) l : assoc k l = None -> assoc_set k v l = l ++ [(k, v)].
Proof.
  induction l as [|[k' v'] l IH]; cbn; [reflexivity|].
  destruct (text_eqb k k'); [discriminate|]. intros H. now rewrite IH.
Qed.

Lemma assoc_map_none {V W} (g : text * V -> W) k (l : list (text * V)) :
  assoc k l = None -> assoc k (map (fun kv => (fst kv, g kv)) l) = None.
Proof.
  induction l as [|[k' v] l IH]; cbn; [reflexivity|].
  destruct (text_eqb k k'); [discriminate|exact IH].
Qed.

(* folding Map::insert over a list with distinct keys rebuilds the list *)
Lemma fold_assoc_set_nodup {V W} (g : text * V -> W) (m : list (text * V)) :
  keys_nodup_b m = true ->
  forall acc, (forall kv, In kv m -> assoc (fst kv) acc = None) ->
  fold_left (fun a kv => assoc_set (fst kv) (g kv) a) m acc
  = acc ++ map (fun kv => (fst kv, g kv)) m.
Proof.
  induction m as [|[k v] m IH]; intros Hnd acc Hacc; cbn [fold_left map]; [now rewrite app_nil_r|].
  cbn in Hnd. apply andb_true_iff in Hnd as [Hk Hm]. apply negb_true_iff in Hk.
  cbn [fst]. rewrite assoc_set_fresh by (apply (Hacc (k, v)); now left).
  rewrite IH; [now rewrite <- app_assoc| assumption |].
  intros [k2 v2] Hin. cbn [fst]. rewrite assoc_app_none by (apply (Hacc (k2, v2)); now right).
  cbn. destruct (text_eqb k2 k) eqn:E; [|reflexivity].
  apply text_eqb_eq in E; subst k2. apply assoc_mem_false_assoc in Hk.
  exfalso. clear -Hk Hin. induction m as [|[k' v'] m IH]; [contradiction|].
  cbn in Hk. destruct (text_eqb k k') eqn:E; [discriminate|].
  destruct Hin as [Heq|Hin]; [inversion Heq; subst; now rewrite text_eqb_refl in E|now apply IH].
Qed.

Lemma fold_assoc_set_nodup0 {V W} (g : text * V -> W) (m : list (text * V)) :
  keys_nodup_b m = true ->
  fold_left (fun a kv => assoc_set (fst kv) (g kv) a) m [] = map (fun kv => (fst kv, g kv)) m.
Proof. intros H. now rewrite fold_assoc_set_nodup. Qed.

(* ================================================================= *)
(*  numbers                                                           *)
(* ================================================================= *)
Lemma in_i32_bounds z : in_i32 z = true -> (-2147483648 <= z <= 2147483647)%Z.
Proof. unfold in_i32, i32_min, i32_max. intros H. apply andb_true_iff in H as [H1 H2]. lia. Qed.

Lemma in_i32_as_i64 z : in_i32 z = true -> j_as_i64 (JInt z) = Some z.
Proof.
  intros H. apply in_i32_bounds in H. unfold j_as_i64, i64_min, i64_max.
  destruct (_ <=? z)%Z eqn:A; destruct (z <=? _)%Z eqn:B; cbn; try reflexivity; lia.
Qed.

Lemma wrap32_id z : in_i32 z = true -> wrap32 z = z.
Proof.
  intros H. apply in_i32_bounds in H. unfold wrap32, two31, two32.
  rewrite Z.mod_small by lia. lia.
Qed.

Lemma i64_to_i32_id z : in_i32 z = true -> i64_to_i32 z = Some z.
Proof. unfold i64_to_i32. now intros ->. Qed.

Lemma N_as_i64 n : (n <? 9223372036854775808)%N = true -> j_as_i64 (JInt (Z.of_N n)) = Some (Z.of_N n).
Proof.
  intros H. apply N.ltb_lt in H. unfold j_as_i64, i64_min, i64_max.
  destruct (_ <=? Z.of_N n)%Z eqn:A; destruct (Z.of_N n <=? _)%Z eqn:B; cbn; try reflexivity; lia.
Qed.

Lemma N_to_u64_id n : (n <? 9223372036854775808)%N = true -> Z.to_N (to_u64 (Z.of_N n)) = n.
Proof.
  intros H. apply N.ltb_lt in H. unfold to_u64, two64. rewrite Z.mod_small by lia. apply N2Z.id.
Qed.

(* ================================================================= *)
(*  paths                                                             *)
(* ================================================================= *)
Lemma no_dot_spec t : no_dot t = true -> ~ In c_dot t.
Proof.
  unfold no_dot. intros H Hin. apply negb_true_iff in H.
  assert (existsb (N.eqb c_dot) t = true) by (apply existsb_exists; exists c_dot; split; [assumption|apply N.eqb_refl]).
  congruence.
Qed.

Lemma wf_comp_b_spec c : wf_comp_b c = true -> wf_comp c.
Proof.
  destruct c as [i|n]; cbn; intros H.
  - now apply N.ltb_lt in H.
  - apply andb_true_iff in H as [H H3]. apply andb_true_iff in H as [H1 H2].
    split; [|split].
    + destruct n; [discriminate|discriminate].
    + now apply no_dot_spec.
    + destruct (parse_usize n); [discriminate|reflexivity].
Qed.

Lemma path_parse_string p : wf_path_b p = true -> path_parse (Some (path_string p)) = p.
Proof.
  destruct p as [cs rel cache]. unfold wf_path_b. cbn [p_cache p_comps p_rel]. intros H.
  apply andb_true_iff in H as [H Hne]. apply andb_true_iff in H as [Hc Hcs].
  destruct cache; [discriminate|].
  assert (Hwf : Forall wf_comp cs).
  { apply Forall_forall. intros c Hin. apply wf_comp_b_spec. eapply forallb_In; eassumption. }
  assert (Hne' : cs <> [] \/ rel = false).
  { apply orb_true_iff in Hne as [Hn|Hn]; [left; destruct cs; [discriminate|discriminate]|right; now apply negb_true_iff in Hn]. }
  unfold path_parse. rewrite cache_off.
  pose proof (roundtrip_nocache cs rel Hwf Hne') as [E1 E2].
  pose proof (parsed_nocache (Some (path_string (path_new cs rel)))) as E3.
  change (mkPath cs rel None) with (path_new cs rel).
  destruct (path_of_string_gen false (Some (path_string (path_new cs rel)))) as [cs' rel' c'].
  cbn in *. subst. reflexivity.
Qed.

(* ================================================================= *)
(*  values                                                            *)
(* ================================================================= *)
Section Values.
Variable sw : save_switches.

Lemma read_bool b : read_value (write_value sw (VBool b)) = Ok (VBool b).
Proof. reflexivity. Qed.

Lemma read_int z : in_i32 z = true -> read_value (write_value sw (VInt z)) = Ok (VInt z).
Proof.
  intros H. unfold read_value, write_value, jtoken_to_obj. cbn [jtoken_to_obj_gen].
  rewrite (in_i32_as_i64 z H). unfold StdLoad.site. rewrite (i64_to_i32_id z H). reflexivity.
Qed.

Lemma read_float b : f32_bits_finite b = true -> read_value (write_value sw (VFloat b)) = Ok (VFloat b).
Proof. intros H. unfold write_value. rewrite H. reflexivity. Qed.

Lemma read_string s : read_value (write_value sw (VString s)) = Ok (VString s).
Proof.
  unfold write_value. destruct (str_is_newline s) eqn:E.
  - unfold str_is_newline in E. apply text_eqb_eq in E. subst. vm_compute. reflexivity.
  - unfold read_value, jtoken_to_obj. cbn [jtoken_to_obj_gen]. unfold jstr_to_obj.
    change (c_caret =? c_caret) with true. cbn. reflexivity.
Qed.

Lemma read_divert p : wf_path_b p = true -> read_value (write_value sw (VDivert p)) = Ok (VDivert p).
Proof.
  intros H. unfold read_value, write_value, jtoken_to_obj. cbn [jtoken_to_obj_gen].
  unfold jobj_to_obj, jfield, aget. cbn [assoc]. rewrite text_eqb_refl. cbn [j_as_str bind].
  now rewrite path_parse_string.
Qed.

Lemma read_varptr n ci : in_i32 ci = true -> read_value (write_value sw (VVarPtr n ci)) = Ok (VVarPtr n ci).
Proof.
  intros H. unfold read_value, write_value, jtoken_to_obj. cbn [jtoken_to_obj_gen].
  unfold jobj_to_obj, jfield, aget.
  change (assoc (T "^->") [(T "^var", JStr n); (T "ci", JInt ci)]) with (@None json).
  change (assoc (T "^var") [(T "^var", JStr n); (T "ci", JInt ci)]) with (Some (JStr n)).
  change (assoc (T "ci") [(T "^var", JStr n); (T "ci", JInt ci)]) with (Some (JInt ci)).
  cbn [j_as_str]. unfold StdLoad.site. cbn [bind].
  rewrite (in_i32_as_i64 ci H). cbn [bind]. now rewrite wrap32_id.
Qed.

End Values.

(* ================================================================= *)
(*  list values                                                       *)
(* ================================================================= *)
Lemma fold_assoc_set_keyed {A W} (key : A -> text) (g : A -> W) (m : list A) :
  keys_nodup_b (map (fun x => (key x, tt)) m) = true ->
  forall acc, (forall x, In x m -> assoc (key x) acc = None) ->
  fold_left (fun a x => assoc_set (key x) (g x) a) m acc = acc ++ map (fun x => (key x, g x)) m.
Proof.
  induction m as [|x m IH]; intros Hnd acc Hacc; cbn [fold_left map]; [now rewrite app_nil_r|].
  cbn in Hnd. apply andb_true_iff in Hnd as [Hk Hm]. apply negb_true_iff in Hk.
  rewrite assoc_set_fresh by (apply Hacc; now left).
  rewrite IH; [now rewrite <- app_assoc| assumption |].
  intros y Hin. rewrite assoc_app_none by (apply Hacc; now right).
  cbn. destruct (text_eqb (key y) (key x)) eqn:E; [|reflexivity].
  apply text_eqb_eq in E. apply assoc_mem_false_assoc in Hk. exfalso. clear -Hk Hin E.
  induction m as [|z m IH]; [contradiction|].
  cbn in Hk. destruct (text_eqb (key x) (key z)) eqn:E2; [discriminate|].
  destruct Hin as [->|Hin]; [rewrite E, text_eqb_refl in E2; discriminate|now apply IH].
Qed.

Lemma std_item_eqb_eq a b : StdLoad.item_eqb a b = InkList.item_eqb a b.
Proof. reflexivity. Qed.

Lemma opt_text_eqb_eq a b : InkList.opt_text_eqb a b = true <-> a = b.
Proof.
  destruct a, b; cbn; split; intros H; try discriminate; try reflexivity.
  - apply text_eqb_eq in H. now subst.
  - inversion H. apply text_eqb_refl.
Qed.

Lemma item_eqb_eq a b : InkList.item_eqb a b = true <-> a = b.
Proof.
  unfold InkList.item_eqb. destruct a as [oa na], b as [ob nb]. cbn. split.
  - intros H. apply andb_true_iff in H as [H1 H2]. apply opt_text_eqb_eq in H1. apply text_eqb_eq in H2. now subst.
  - intros H. inversion H; subst. apply andb_true_iff. split; [now apply opt_text_eqb_eq|apply text_eqb_refl].
Qed.

Lemma item_full_name_roundtrip it : wf_item_b it = true ->
  StdLoad.item_of_full_name (InkList.item_full_name it) = it.
Proof.
  destruct it as [[o|] n]; unfold wf_item_b; cbn [it_origin it_name]; [|discriminate].
  intros H. apply andb_true_iff in H as [Ho Hn]. apply no_dot_spec in Ho. apply no_dot_spec in Hn.
  unfold StdLoad.item_of_full_name, InkList.item_full_name. cbn [it_origin it_name].
  change (o ++ [c_dot] ++ n) with (join_with [c_dot] [o; n]).
  rewrite split_join; [reflexivity|discriminate|]. repeat constructor; assumption.
Qed.

Lemma item_full_name_inj a b : wf_item_b a = true -> wf_item_b b = true ->
  InkList.item_full_name a = InkList.item_full_name b -> a = b.
Proof.
  intros Ha Hb E. rewrite <- (item_full_name_roundtrip a Ha), <- (item_full_name_roundtrip b Hb). now rewrite E.
Qed.

Lemma items_names_nodup (items : list (listitem * Z)) :
  forallb (fun kv : listitem * Z => wf_item_b (fst kv) && in_i32 (snd kv)) items = true ->
  items_nodup_b items = true ->
  keys_nodup_b (map (fun kv : listitem * Z => (InkList.item_full_name (fst kv), tt)) items) = true.
Proof.
  induction items as [|[k v] items IH]; intros Hwf Hnd; [reflexivity|].
  cbn in Hwf, Hnd |- *. apply andb_true_iff in Hwf as [Hk Hwf]. apply andb_true_iff in Hnd as [Hn Hnd].
  apply andb_true_iff in Hk as [Hk _].
  rewrite IH by assumption. rewrite andb_true_r. apply negb_true_iff. apply negb_true_iff in Hn.
  unfold assoc_mem. destruct (assoc _ _) eqn:E; [|reflexivity]. exfalso.
  clear IH Hnd. induction items as [|[k2 v2] items IH]; [discriminate|].
  cbn in E, Hn, Hwf. apply orb_false_iff in Hn as [Hn1 Hn2].
  apply andb_true_iff in Hwf as [Hk2 Hwf]. apply andb_true_iff in Hk2 as [Hk2 _].
  destruct (text_eqb _ _) eqn:E2.
  - apply text_eqb_eq in E2. apply item_full_name_inj in E2; [|assumption|assumption]. subst.
    assert (InkList.item_eqb k2 k2 = true) by now apply item_eqb_eq. congruence.
  - now apply IH.
Qed.

Lemma items_insert_fresh it v acc :
  existsb (fun kv : listitem * Z => InkList.item_eqb it (fst kv)) acc = false ->
  StdLoad.items_insert it v acc = acc ++ [(it, v)].
Proof.
  induction acc as [|[k w] acc IH]; cbn; [reflexivity|]. intros H. apply orb_false_iff in H as [H1 H2].
  rewrite std_item_eqb_eq, H1. now rewrite IH.
Qed.

Lemma read_items_loop (rest : list (listitem * Z)) :
  forallb (fun kv : listitem * Z => wf_item_b (fst kv) && in_i32 (snd kv)) rest = true ->
  items_nodup_b rest = true ->
  forall acc,
  (forall kv, In kv rest -> existsb (fun kv' : listitem * Z => InkList.item_eqb (fst kv) (fst kv')) acc = false) ->
  foldM (fun acc (kv : text * json) =>
           do z <- StdLoad.site lsite_panics L_list_item_val (j_as_i64 (snd kv));
           Ok (StdLoad.items_insert (StdLoad.item_of_full_name (fst kv)) (wrap32 z) acc))
        (map (fun kv : listitem * Z => (InkList.item_full_name (fst kv), JInt (snd kv))) rest) acc
  = Ok (acc ++ rest).
Proof.
  induction rest as [|[k v] rest IH]; intros Hwf Hnd acc Hacc; cbn [map foldM]; [now rewrite app_nil_r|].
  cbn in Hwf, Hnd. apply andb_true_iff in Hwf as [Hk Hwf]. apply andb_true_iff in Hnd as [Hn Hnd].
  apply andb_true_iff in Hk as [Hk Hv]. cbn [fst snd].
  rewrite (in_i32_as_i64 v Hv). unfold StdLoad.site at 1. cbn [bind].
  rewrite item_full_name_roundtrip by assumption. rewrite wrap32_id by assumption.
  pose proof (Hacc (k, v) (or_introl eq_refl)) as Hf. cbn [fst] in Hf. rewrite (items_insert_fresh _ _ _ Hf).
  rewrite IH; [now rewrite <- app_assoc|assumption|assumption|].
  intros [k2 v2] Hin. cbn [fst]. rewrite existsb_app.
  pose proof (Hacc (k2, v2) (or_intror Hin)) as Ha. cbn [fst] in Ha. rewrite Ha. cbn.
  rewrite orb_false_r. apply negb_true_iff in Hn.
  destruct (InkList.item_eqb k2 k) eqn:E; [|reflexivity].
  apply item_eqb_eq in E. subst k2. exfalso.
  assert (existsb (fun kv : listitem * Z => InkList.item_eqb k (fst kv)) rest = true).
  { apply existsb_exists. exists (k, v2). split; [assumption|now apply item_eqb_eq]. }
  congruence.
Qed.

Section ValuesL.
Variable sw : save_switches.

Lemma jobj_list_only a : jobj_to_obj lsite_panics [(T "list", a)] = jlist_to_obj lsite_panics [(T "list", a)] a.
Proof. reflexivity. Qed.
Lemma jobj_list_origins a b :
  jobj_to_obj lsite_panics [(T "list", a); (T "origins", b)]
  = jlist_to_obj lsite_panics [(T "list", a); (T "origins", b)] a.
Proof. reflexivity. Qed.

Lemma read_list l : wf_list_b l = true ->
  read_value (write_value sw (VList l)) = Ok (VList (norm_list sw l)).
Proof.
  intros H. unfold wf_list_b in H. apply andb_true_iff in H as [Hwf Hnd].
  unfold read_value, write_value, write_ink_list, jtoken_to_obj.
  rewrite (fold_assoc_set_keyed (fun kv : listitem * Z => InkList.item_full_name (fst kv))
             (fun kv : listitem * Z => JInt (snd kv)) (l_items l)
             (items_names_nodup _ Hwf Hnd) []) by reflexivity.
  cbn [app]. unfold norm_list.
  destruct (ssw_origins_written sw && is_nil (l_items l) && negb (is_nil (l_init_names l))) eqn:Eo.
  - apply andb_true_iff in Eo as [Eo Hnn]. rewrite Eo.
    cbn [jtoken_to_obj_gen]. unfold jfield. rewrite jobj_list_origins. unfold jlist_to_obj.
    cbn [j_as_obj]. unfold StdLoad.site at 1. cbn [bind].
    change (assoc (T "origins") [(T "list", JObj (map (fun x : listitem * Z => (InkList.item_full_name (fst x), JInt (snd x))) (l_items l)));
                                 (T "origins", JArr (map JStr (l_init_names l)))])
      with (Some (JArr (map JStr (l_init_names l)))).
    cbn [j_as_arr]. unfold StdLoad.site at 1. cbn [bind].
    rewrite (mapM_map_ok _ JStr (fun x => x)) by reflexivity. rewrite map_id. cbn [bind].
    rewrite read_items_loop; [reflexivity|assumption|assumption|intros; reflexivity].
  - cbn [jtoken_to_obj_gen]. unfold jfield. rewrite jobj_list_only. unfold jlist_to_obj.
    cbn [j_as_obj]. unfold StdLoad.site at 1. cbn [bind].
    change (assoc (T "origins") [(T "list", JObj (map (fun x : listitem * Z => (InkList.item_full_name (fst x), JInt (snd x))) (l_items l)))])
      with (@None json). cbn [bind].
    rewrite read_items_loop; [|assumption|assumption|intros; reflexivity].
    cbn [app bind]. do 3 f_equal.
    destruct (ssw_origins_written sw && is_nil (l_items l)) eqn:E2; [|reflexivity].
    cbn in Eo. apply negb_false_iff in Eo. destruct (l_init_names l); [reflexivity|discriminate].
Qed.

(* every value kind *)
Lemma value_roundtrip_lemma v : wf_value_b v = true ->
  read_value (write_value sw v) = Ok (norm_value sw v).
Proof.
  destruct v; cbn [wf_value_b norm_value]; intros H.
  - apply read_bool.
  - now apply read_int.
  - now apply read_float.
  - now apply read_list.
  - apply read_string.
  - now apply read_divert.
  - now apply read_varptr.
Qed.

End ValuesL.

(* ================================================================= *)
(*  stream objects, object lists, dictionaries                        *)
(* ================================================================= *)
Section Objects.
Variable sw : save_switches.

Lemma read_value_inv j v : read_value j = Ok v -> jtoken_to_obj j None = Ok (OVal v).
Proof.
  unfold read_value. destruct (jtoken_to_obj j None) as [o| |]; cbn; try discriminate.
  destruct o; try discriminate. intros H. now inversion H.
Qed.

Lemma value_token_roundtrip v : wf_value_b v = true ->
  jtoken_to_obj (write_value sw v) None = Ok (OVal (norm_value sw v)).
Proof. intros H. apply read_value_inv. now apply value_roundtrip_lemma. Qed.

Lemma cmd_name_roundtrip c : jtoken_to_obj (JStr (cmd_name c)) None = Ok (OCmd c).
Proof. destruct c; vm_compute; reflexivity. Qed.

Lemma nop_name_roundtrip op :
  jtoken_to_obj (JStr (let n := nop_name op in if text_eqb n (T "^") then T "L^" else n)) None = Ok (ONative op).
Proof. destruct op; vm_compute; reflexivity. Qed.

Lemma obj_roundtrip o : wf_stream_obj_b o = true ->
  exists j, write_rtobject sw o = Ok j /\ jtoken_to_obj j None = Ok (norm_obj sw o).
Proof.
  destruct o; cbn [wf_stream_obj_b]; intros H; try discriminate; cbn [write_rtobject norm_obj];
    eexists; (split; [reflexivity|]).
  - now apply value_token_roundtrip.
  - apply cmd_name_roundtrip.
  - apply nop_name_roundtrip.
  - reflexivity.
  - reflexivity.
  - reflexivity.
Qed.

Lemma objs_roundtrip l : forallb wf_stream_obj_b l = true ->
  exists js, write_list_rt_objs sw l = Ok (JArr js)
             /\ jarray_to_obj_list js false = Ok (map (norm_obj sw) l).
Proof.
  unfold write_list_rt_objs, jarray_to_obj_list, jarray_to_obj_list_gen.
  induction l as [|o l IH]; intros H.
  - exists []. split; reflexivity.
  - cbn in H. apply andb_true_iff in H as [Ho Hl].
    destruct (obj_roundtrip o Ho) as (j & Hw & Hr). destruct (IH Hl) as (js & Hws & Hrs).
    exists (j :: js). cbn [mapM map]. rewrite Hw. cbn [bind].
    destruct (mapM (write_rtobject sw) l) as [js'| |]; cbn in Hws; try discriminate.
    inversion Hws; subst js'. cbn [bind]. split; [reflexivity|].
    change (jtoken_to_obj_gen lsite_panics j None) with (jtoken_to_obj j None). rewrite Hr. cbn [bind].
    rewrite Hrs. reflexivity.
Qed.

(* ---------- HashMap<String, Rc<Value>> ---------- *)
Lemma write_dictionary_nodup m : keys_nodup_b m = true ->
  write_dictionary_values sw m = JObj (map (fun kv : text * value => (fst kv, write_value sw (snd kv))) m).
Proof. intros H. unfold write_dictionary_values. now rewrite fold_assoc_set_nodup0. Qed.

Lemma keys_nodup_tail {V} k (v : V) m : keys_nodup_b ((k, v) :: m) = true ->
  assoc k m = None /\ keys_nodup_b m = true.
Proof.
  cbn. intros H. apply andb_true_iff in H as [H1 H2]. apply negb_true_iff in H1.
  split; [now apply assoc_mem_false_assoc|assumption].
Qed.

Lemma assoc_none_not_in {V} k (m : list (text * V)) : assoc k m = None -> forall v, ~ In (k, v) m.
Proof.
  induction m as [|[k' v'] m IH]; cbn; intros H v Hin; [assumption|].
  destruct (text_eqb k k') eqn:E; [discriminate|].
  destruct Hin as [Heq|Hin]; [inversion Heq; subst; now rewrite text_eqb_refl in E|now apply (IH H v)].
Qed.

Lemma read_valmap_loop (rest : list (text * value)) :
  keys_nodup_b rest = true ->
  forallb (fun kv : text * value => wf_value_b (snd kv)) rest = true ->
  forall acc, (forall kv, In kv rest -> assoc (fst kv) acc = None) ->
  foldM (fun acc (kv : text * json) =>
           do ob <- jtoken_to_obj_gen lsite_panics (snd kv) None;
           do v <- StdLoad.site lsite_panics L_hashmap_value (match ob with OVal v => Some v | _ => None end);
           Ok (assoc_set (fst kv) v acc))
        (map (fun kv : text * value => (fst kv, write_value sw (snd kv))) rest) acc
  = Ok (acc ++ norm_valmap sw rest).
Proof.
  induction rest as [|[k v] rest IH]; intros Hnd Hwf acc Hacc; cbn [map foldM norm_valmap]; [now rewrite app_nil_r|].
  apply keys_nodup_tail in Hnd as [Hk Hnd]. cbn in Hwf. apply andb_true_iff in Hwf as [Hv Hwf].
  cbn [fst snd].
  change (jtoken_to_obj_gen lsite_panics (write_value sw v) None) with (jtoken_to_obj (write_value sw v) None).
  rewrite value_token_roundtrip by assumption. cbn [bind]. unfold StdLoad.site at 1. cbn [bind].
  pose proof (Hacc (k, v) (or_introl eq_refl)) as Hf. cbn [fst] in Hf. rewrite (assoc_set_fresh _ _ _ Hf).
  fold (norm_valmap sw rest).
  rewrite IH; [now rewrite <- app_assoc|assumption|assumption|].
  intros [k2 v2] Hin. cbn [fst]. rewrite assoc_app_none by (apply (Hacc (k2, v2)); now right).
  cbn. destruct (text_eqb k2 k) eqn:E; [|reflexivity].
  apply text_eqb_eq in E. subst. exfalso. exact (assoc_none_not_in _ _ Hk _ Hin).
Qed.

Lemma valmap_roundtrip m : wf_valmap_b m = true ->
  exists o, write_dictionary_values sw m = JObj o /\ jobject_to_hashmap_values o = Ok (norm_valmap sw m).
Proof.
  unfold wf_valmap_b. intros H. apply andb_true_iff in H as [Hnd Hwf].
  eexists. split; [now apply write_dictionary_nodup|].
  unfold jobject_to_hashmap_values, jobject_to_hashmap_values_gen.
  rewrite read_valmap_loop; [reflexivity|assumption|assumption|intros; reflexivity].
Qed.

(* ---------- HashMap<String, i32> ---------- *)
Lemma read_intmap_loop (rest : list (text * Z)) :
  keys_nodup_b rest = true ->
  forallb (fun kv : text * Z => in_i32 (snd kv)) rest = true ->
  forall acc, (forall kv, In kv rest -> assoc (fst kv) acc = None) ->
  foldM (fun acc (kv : text * json) =>
           do z <- StdLoad.site lsite_panics L_int_hashmap_val (j_as_i64 (snd kv));
           Ok (assoc_set (fst kv) (wrap32 z) acc))
        (map (fun kv : text * Z => (fst kv, JInt (snd kv))) rest) acc
  = Ok (acc ++ rest).
Proof.
  induction rest as [|[k v] rest IH]; intros Hnd Hwf acc Hacc; cbn [map foldM]; [now rewrite app_nil_r|].
  apply keys_nodup_tail in Hnd as [Hk Hnd]. cbn in Hwf. apply andb_true_iff in Hwf as [Hv Hwf].
  cbn [fst snd]. rewrite (in_i32_as_i64 v Hv). unfold StdLoad.site at 1. cbn [bind].
  rewrite wrap32_id by assumption.
  pose proof (Hacc (k, v) (or_introl eq_refl)) as Hf. cbn [fst] in Hf. rewrite (assoc_set_fresh _ _ _ Hf).
  rewrite IH; [now rewrite <- app_assoc|assumption|assumption|].
  intros [k2 v2] Hin. cbn [fst]. rewrite assoc_app_none by (apply (Hacc (k2, v2)); now right).
  cbn. destruct (text_eqb k2 k) eqn:E; [|reflexivity].
  apply text_eqb_eq in E. subst. exfalso. exact (assoc_none_not_in _ _ Hk _ Hin).
Qed.

Lemma intmap_roundtrip m : wf_intmap_b m = true ->
  exists o, write_int_dictionary m = JObj o /\ jobject_to_int_hashmap o = Ok m.
Proof.
  unfold wf_intmap_b. intros H. apply andb_true_iff in H as [Hnd Hwf].
  eexists. split.
  - unfold write_int_dictionary. now rewrite fold_assoc_set_nodup0.
  - unfold jobject_to_int_hashmap, jobject_to_int_hashmap_gen.
    rewrite read_intmap_loop; [reflexivity|assumption|assumption|intros; reflexivity].
Qed.

End Objects.

(* ================================================================= *)
(*  call-stack elements, threads, call stacks                         *)
(* ================================================================= *)
Lemma pstep_eqb_eq a b : pstep_eqb a b = true -> a = b.
Proof.
  destruct a, b; cbn; intros H; try discriminate.
  - apply Nat.eqb_eq in H. now subst.
  - apply text_eqb_eq in H. now subst.
Qed.
Lemma pos_eqb_eq a b : pos_eqb a b = true -> a = b.
Proof.
  revert b. induction a as [|x a IH]; destruct b as [|y b]; cbn; intros H; try discriminate; [reflexivity|].
  apply andb_true_iff in H as [H1 H2]. apply pstep_eqb_eq in H1. apply IH in H2. now subst.
Qed.

Lemma pushpop_roundtrip t :
  (do ty <- or_bad "Invalid push/pop type" (j_as_i64 (JInt (pushpop_ord t))); pushpop_from_value (to_u64 ty)) = Ok t.
Proof. destruct t; reflexivity. Qed.

Section Stack.
Variable panics : ssite -> bool.
Variable sw : save_switches.
Variable root : container.

(* the four shapes of an element object, read back with abstract field values *)
Definition read_el_tail (ptr : Res pointer) (ex ty : json) (temps : Res (list (text * value))) : Res (option element) :=
  do t <- or_bad "Invalid push/pop type" (j_as_i64 ty);
  do pp <- pushpop_from_value (to_u64 t);
  do p <- ptr;
  do tm <- temps;
  Ok (Some (mkElement p (match j_as_bool ex with Some b => b | None => false end) tm pp 0 0%Z)).

Definition read_el_ptr (cps : text) (ij : json) : Res pointer :=
  let r := content_at_path root (path_parse (Some cps)) in
  let c := if is_cont_at root (sr_pos r) then Some (sr_pos r) else None in
  do idx <- or_bad "Invalid pointer index" (j_as_i64 ij);
  Ok (mkPtr c (wrap32 idx)).

Lemma read_el_shape_00 ex ty :
  read_element root (JObj [(T "exp", ex); (T "type", ty)]) = read_el_tail (Ok ptr_null) ex ty (Ok []).
Proof. reflexivity. Qed.
Lemma read_el_shape_01 ex ty tm :
  read_element root (JObj [(T "exp", ex); (T "type", ty); (T "temp", JObj tm)])
  = read_el_tail (Ok ptr_null) ex ty (jobject_to_hashmap_values tm).
Proof. reflexivity. Qed.
Lemma read_el_shape_10 cps ij ex ty :
  read_element root (JObj [(T "cPath", JStr cps); (T "idx", ij); (T "exp", ex); (T "type", ty)])
  = read_el_tail (read_el_ptr cps ij) ex ty (Ok []).
Proof. reflexivity. Qed.
Lemma read_el_shape_11 cps ij ex ty tm :
  read_element root (JObj [(T "cPath", JStr cps); (T "idx", ij); (T "exp", ex); (T "type", ty); (T "temp", JObj tm)])
  = read_el_tail (read_el_ptr cps ij) ex ty (jobject_to_hashmap_values tm).
Proof. reflexivity. Qed.

Lemma element_roundtrip e : wf_element_b root e = true ->
  exists j, write_element sw root e = Ok j /\ read_element root j = Ok (Some (norm_element sw e)).
Proof.
  unfold wf_element_b. intros H. apply andb_true_iff in H as [Hp Ht].
  destruct e as [[pc pi] inexpr temps ty evalh fstart]. cbn [el_ptr el_temps] in *.
  unfold write_element, norm_element, norm_ptr, ptr_is_null. cbn [el_ptr el_inexpr el_temps el_type ptr_c ptr_i].
  destruct (valmap_roundtrip sw temps Ht) as (tm & Hwd & Hrd).
  unfold elem_ptr_ok_b in Hp. cbn [ptr_c ptr_i] in Hp.
  destruct pc as [cp|].
  - apply andb_true_iff in Hp as [Hi Hp].
    destruct (get_path root cp) as [pa| |] eqn:Egp; try discriminate.
    apply andb_true_iff in Hp as [Hpos Hcont]. apply pos_eqb_eq in Hpos.
    cbn [bind]. unfold jfield.
    assert (Hptr : read_el_ptr (path_string pa) (JInt pi) = Ok (mkPtr (Some cp) pi)).
    { unfold read_el_ptr. rewrite Hpos, Hcont. rewrite (in_i32_as_i64 pi Hi). cbn. now rewrite wrap32_id. }
    destruct temps as [|t0 temps'].
    + eexists. split; [reflexivity|]. cbn [is_nil app]. rewrite read_el_shape_10, Hptr.
      destruct ty; reflexivity.
    + eexists. split; [reflexivity|]. cbn [is_nil app]. rewrite Hwd. rewrite read_el_shape_11, Hptr, Hrd.
      destruct ty; reflexivity.
  - cbn [bind]. unfold jfield.
    destruct temps as [|t0 temps'].
    + eexists. split; [reflexivity|]. cbn [is_nil app]. rewrite read_el_shape_00.
      destruct ty; reflexivity.
    + eexists. split; [reflexivity|]. cbn [is_nil app]. rewrite Hwd. rewrite read_el_shape_01, Hrd.
      destruct ty; reflexivity.
Qed.


Lemma elements_roundtrip l : forallb (wf_element_b root) l = true ->
  exists js, mapM (write_element sw root) l = Ok js /\ read_elements root js = Ok (map (norm_element sw) l).
Proof.
  induction l as [|e l IH]; intros H.
  - exists []. split; reflexivity.
  - cbn in H. apply andb_true_iff in H as [He Hl].
    destruct (element_roundtrip e He) as (j & Hw & Hr). destruct (IH Hl) as (js & Hws & Hrs).
    exists (j :: js). cbn [mapM map read_elements]. rewrite Hw, Hws, Hr, Hrs. split; reflexivity.
Qed.

Lemma read_thread_shape_0 js ti :
  read_thread root [(T "callstack", JArr js); (T "threadIndex", ti)]
  = (do i <- or_bad "Invalid thread index" (j_as_i64 ti);
     do els <- read_elements root js;
     Ok (mkThread els ptr_null (Z.to_N (to_u64 i)))).
Proof. reflexivity. Qed.
Lemma read_thread_shape_1 js ti p :
  read_thread root [(T "callstack", JArr js); (T "threadIndex", ti); (T "previousContentObject", JStr p)]
  = (do i <- or_bad "Invalid thread index" (j_as_i64 ti);
     do els <- read_elements root js;
     do prev <- pointer_at_path root (path_parse (Some p));
     Ok (mkThread els prev (Z.to_N (to_u64 i)))).
Proof. reflexivity. Qed.

Lemma thread_roundtrip_lemma t : wf_thread_b root t = true ->
  exists o, write_thread panics sw root t = Ok (JObj o) /\ read_thread root o = Ok (norm_thread sw root t).
Proof.
  unfold wf_thread_b. intros H. apply andb_true_iff in H as [H Hi]. apply andb_true_iff in H as [Hels Hprev].
  destruct t as [els prev idx]. cbn [th_cs th_prev th_index] in *.
  destruct (elements_roundtrip els Hels) as (js & Hws & Hrs).
  unfold write_thread, norm_thread, norm_prev. cbn [th_cs th_prev th_index]. rewrite Hws. cbn [bind].
  unfold prev_ok_b in Hprev. unfold reload_prev in *.
  destruct (ptr_is_null prev) eqn:En.
  - cbn [bind app]. eexists. split; [reflexivity|]. unfold jfield. rewrite read_thread_shape_0.
    rewrite (N_as_i64 idx Hi). cbn [or_bad bind]. rewrite Hrs. cbn [bind]. now rewrite N_to_u64_id.
  - destruct (ptr_resolve root prev) as [pos|] eqn:Er; [|discriminate].
    cbn [ssite_res bind]. destruct (get_path root pos) as [pa| |] eqn:Eg; try discriminate.
    cbn [bind] in *. destruct (pointer_at_path root (path_parse (Some (path_string pa)))) as [q| |] eqn:Ep; try discriminate.
    eexists. split; [reflexivity|]. unfold jfield. cbn [app]. rewrite read_thread_shape_1.
    rewrite (N_as_i64 idx Hi). cbn [or_bad bind]. rewrite Hrs. cbn [bind]. rewrite Ep. cbn [bind].
    now rewrite N_to_u64_id.
Qed.

(* CallStack::write_json / load_json *)
Lemma threads_roundtrip l : forallb (wf_thread_b root) l = true ->
  exists js, mapM (write_thread panics sw root) l = Ok js
             /\ forall acc, read_threads_into panics root js acc = (Ok tt, acc ++ map (norm_thread sw root) l).
Proof.
  induction l as [|t l IH]; intros H.
  - exists []. split; [reflexivity|]. intros acc. cbn. now rewrite app_nil_r.
  - cbn in H. apply andb_true_iff in H as [Ht Hl].
    destruct (thread_roundtrip_lemma t Ht) as (o & Hw & Hr). destruct (IH Hl) as (js & Hws & Hrs).
    exists (JObj o :: js). cbn [mapM]. rewrite Hw, Hws. split; [reflexivity|].
    intros acc. cbn [read_threads_into j_as_obj ssite_res]. rewrite Hr, Hrs. cbn [map]. now rewrite <- app_assoc.
Qed.

Lemma load_callstack_shape cs0 ts tc :
  load_callstack panics root cs0 [(T "threads", JArr ts); (T "threadCounter", tc)]
  = (let '(r, l) := read_threads_into panics root ts [] in
     let cs1 := (cs0 <| cs_threads := [] |>) <| cs_threads := l |> in
     match r with
     | Ok _ => match ssite_res panics S_cs_counter_i64 (j_as_i64 tc) with
               | Ok n => (Ok tt, cs1 <| cs_counter := Z.to_N (to_u64 n) |>)
               | Err k m => (Err k m, cs1)
               | Panic s => (Panic s, cs1)
               end
     | Err k m => (Err k m, cs1)
     | Panic s => (Panic s, cs1)
     end).
Proof. reflexivity. Qed.

Lemma callstack_roundtrip cs : wf_callstack_b root cs = true ->
  exists o, write_callstack panics sw root cs = Ok (JObj o)
            /\ forall cs0, load_callstack panics root cs0 o = (Ok tt, norm_callstack sw root cs).
Proof.
  unfold wf_callstack_b. intros H. apply andb_true_iff in H as [Hts Hc].
  destruct (threads_roundtrip (cs_threads cs) Hts) as (js & Hws & Hrs).
  unfold write_callstack. rewrite Hws. cbn [bind]. eexists. split; [reflexivity|].
  intros cs0. unfold jfield. rewrite load_callstack_shape, Hrs. cbn [app].
  rewrite (N_as_i64 _ Hc). cbn [ssite_res]. rewrite N_to_u64_id by assumption.
  destruct cs0; reflexivity.
Qed.

End Stack.

(* ================================================================= *)
(*  pending choices                                                   *)
(* ================================================================= *)
Lemma show_N_inj a b : a < 18446744073709551616 -> b < 18446744073709551616 -> show_N a = show_N b -> a = b.
Proof.
  intros Ha Hb E. pose proof (parse_usize_show a Ha) as Pa. pose proof (parse_usize_show b Hb) as Pb.
  rewrite E in Pa. congruence.
Qed.

Lemma assoc_assoc_set {V} k k' (v : V) l :
  assoc k (assoc_set k' v l) = if text_eqb k k' then Some v else assoc k l.
Proof.
  induction l as [|[k2 v2] l IH]; cbn.
  - destruct (text_eqb k k'); reflexivity.
  - destruct (text_eqb k' k2) eqn:E.
    + apply text_eqb_eq in E. subst. cbn. destruct (text_eqb k k2); reflexivity.
    + cbn. destruct (text_eqb k k2) eqn:E2.
      * destruct (text_eqb k k') eqn:E3; [|reflexivity].
        apply text_eqb_eq in E2. apply text_eqb_eq in E3. subst. now rewrite text_eqb_refl in E.
      * exact IH.
Qed.

Lemma tags_roundtrip tags :
  mapM (fun t => StdLoad.site lsite_panics L_tag_str (j_as_str t)) (map JStr tags) = Ok tags.
Proof. rewrite (mapM_map_ok _ JStr (fun x => x)) by reflexivity. now rewrite map_id. Qed.

Section Choices.
Variable panics : ssite -> bool.
Variable sw : save_switches.
Variable root : container.

Definition saved_of (c : choice) (idx : N) : saved_choice :=
  mkSavedChoice (ch_text c) (Z.of_N (ch_index c)) (ch_source c) (Z.of_N idx) (ch_target c) (ch_tags c).

Definition choice_fields (tx ix sp oi tp tg : json) : list (text * json) :=
  [(T "text", tx); (T "index", ix); (T "originalChoicePath", sp); (T "originalThreadIndex", oi);
   (T "targetPath", tp); (T "tags", tg)].

Definition read_choice_fields (tx ix sp oi tp tg : json) : Res obj :=
  do text_ <- StdLoad.site lsite_panics L_choice_text_str (j_as_str tx);
  do index <- StdLoad.site lsite_panics L_choice_index_u64 (j_as_u64 ix);
  do source <- StdLoad.site lsite_panics L_choice_ocp_str (j_as_str sp);
  do oti <- StdLoad.site lsite_panics L_choice_oti_i64 (j_as_i64 oi);
  do target <- StdLoad.site lsite_panics L_choice_tp_str (j_as_str tp);
  do tags <- (do arr <- StdLoad.site lsite_panics L_tags_arr (j_as_arr tg);
              mapM (fun t => StdLoad.site lsite_panics L_tag_str (j_as_str t)) arr);
  Ok (OChoice (mkSavedChoice text_ index source (to_u64 oti) (path_parse (Some target)) tags)).

Lemma choice_shape_6 tx ix sp oi tp tg :
  jtoken_to_obj (JObj (choice_fields tx ix sp oi tp tg)) None = read_choice_fields tx ix sp oi tp tg.
Proof. reflexivity. Qed.
Lemma choice_shape_7 tx ix sp oi tp tg b :
  jtoken_to_obj (JObj (choice_fields tx ix sp oi tp tg ++ [(T "isInvisibleDefault", b)])) None
  = read_choice_fields tx ix sp oi tp tg.
Proof. reflexivity. Qed.

Lemma N_as_u64 n : (n <? 18446744073709551616)%N = true -> j_as_u64 (JInt (Z.of_N n)) = Some (Z.of_N n).
Proof.
  intros H. apply N.ltb_lt in H. unfold j_as_u64, u64_max.
  destruct (0 <=? Z.of_N n)%Z eqn:A; destruct (Z.of_N n <=? _)%Z eqn:B; cbn; try reflexivity; lia.
Qed.

Lemma u64_of_N_small n : (n <? 9223372036854775808)%N = true -> to_u64 (Z.of_N n) = Z.of_N n.
Proof. intros H. apply N.ltb_lt in H. unfold to_u64, two64. apply Z.mod_small. lia. Qed.

Lemma choice_token_roundtrip c idx :
  wf_path_b (ch_target c) = true -> (ch_index c <? 18446744073709551616)%N = true ->
  (idx <? 9223372036854775808)%N = true ->
  jtoken_to_obj (write_choice sw c idx) None = Ok (OChoice (saved_of c idx)).
Proof.
  intros Hp Hi Hx. unfold write_choice, jfield.
  change [(T "text", JStr (ch_text c)); (T "index", JInt (Z.of_N (ch_index c)));
          (T "originalChoicePath", JStr (ch_source c)); (T "originalThreadIndex", JInt (Z.of_N idx));
          (T "targetPath", JStr (path_string (ch_target c))); (T "tags", JArr (map JStr (ch_tags c)))]
    with (choice_fields (JStr (ch_text c)) (JInt (Z.of_N (ch_index c))) (JStr (ch_source c))
                        (JInt (Z.of_N idx)) (JStr (path_string (ch_target c))) (JArr (map JStr (ch_tags c)))).
  assert (E : read_choice_fields (JStr (ch_text c)) (JInt (Z.of_N (ch_index c))) (JStr (ch_source c))
                (JInt (Z.of_N idx)) (JStr (path_string (ch_target c))) (JArr (map JStr (ch_tags c)))
              = Ok (OChoice (saved_of c idx))).
  { unfold read_choice_fields. cbn [j_as_str j_as_arr]. rewrite (N_as_u64 _ Hi), (N_as_i64 _ Hx).
    unfold StdLoad.site. cbn [bind]. change (fun t => match j_as_str t with Some a => Ok a | None => _ end)
      with (fun t => StdLoad.site lsite_panics L_tag_str (j_as_str t)).
    rewrite tags_roundtrip. cbn [bind]. rewrite path_parse_string by assumption.
    now rewrite u64_of_N_small. }
  destruct (ssw_invis_written sw && ch_invisible c).
  - rewrite choice_shape_7. exact E.
  - rewrite app_nil_r, choice_shape_6. exact E.
Qed.

(* the flag as the loader sees it in the raw token *)
Lemma choice_flag_read c idx :
  (if ssw_invis_read sw
   then match obind (jget "isInvisibleDefault" (write_choice sw c idx)) j_as_bool with Some b => b | None => false end
   else false)
  = ssw_invis_written sw && ssw_invis_read sw && ch_invisible c.
Proof.
  unfold write_choice. destruct (ssw_invis_read sw), (ssw_invis_written sw), (ch_invisible c); reflexivity.
Qed.

End Choices.

(* ================================================================= *)
(*  flows                                                             *)
(* ================================================================= *)
Lemma find_map {A B} (p : B -> bool) (f : A -> B) l :
  find p (map f l) = option_map f (find (fun x => p (f x)) l).
Proof. induction l as [|x l IH]; cbn; [reflexivity|]. destruct (p (f x)); [reflexivity|exact IH]. Qed.

Section Flows.
Variable panics : ssite -> bool.
Variable sw : save_switches.
Variable root : container.

Lemma thread_with_index_norm cs i :
  cs_thread_with_index (norm_callstack sw root cs) i
  = option_map (norm_thread sw root) (cs_thread_with_index cs i).
Proof. unfold cs_thread_with_index, norm_callstack. cbn [cs_threads]. now rewrite find_map. Qed.

(* a choice as read_choices returns it (thread not yet attached) *)
Definition loaded_choice (c : choice) : choice :=
  mkChoice (ch_target c) (ch_source c) (ssw_invis_written sw && ssw_invis_read sw && ch_invisible c)
           (ch_tags c) None (choice_tidx c) (ch_text c) (ch_index c).

Lemma wf_choice_thread c : wf_choice_b root c = true ->
  exists th, ch_thread c = Some th /\ wf_thread_b root th = true /\ wf_path_b (ch_target c) = true
             /\ (ch_index c <? 18446744073709551616)%N = true /\ choice_tidx c = th_index th
             /\ (th_index th <? 9223372036854775808)%N = true.
Proof.
  unfold wf_choice_b, choice_tidx. destruct (ch_thread c) as [th|]; [|discriminate]. intros H.
  apply andb_true_iff in H as [H Hi]. apply andb_true_iff in H as [Ht Hp].
  exists th. repeat split; try assumption.
  unfold wf_thread_b in Ht. now apply andb_true_iff in Ht as [_ Ht].
Qed.

Lemma choices_of_objs_roundtrip dc choices :
  forallb (wf_choice_b root) choices = true ->
  choices_of_objs panics sw dc
    (map (fun cn : choice * N => write_choice sw (fst cn) (snd cn)) (map (fun c => (c, choice_tidx c)) choices))
    (map (fun c => OChoice (saved_of c (choice_tidx c))) choices)
  = Ok (map loaded_choice choices).
Proof.
  induction choices as [|c l IH]; intros H; [reflexivity|].
  cbn in H. apply andb_true_iff in H as [Hc Hl]. cbn [map choices_of_objs fst snd ssite_res bind].
  rewrite IH by assumption. cbn [bind]. do 2 f_equal.
  unfold choice_of_saved, loaded_choice, saved_of.
  cbn [sc_target sc_source_path sc_tags sc_orig_thread sc_text sc_index].
  rewrite choice_flag_read, !N2Z.id. reflexivity.
Qed.

Lemma read_choices_roundtrip dc choices :
  forallb (wf_choice_b root) choices = true ->
  read_choices panics sw dc
    (map (fun cn : choice * N => write_choice sw (fst cn) (snd cn)) (map (fun c => (c, choice_tidx c)) choices))
  = Ok (map loaded_choice choices).
Proof.
  intros H. unfold read_choices, jarray_to_obj_list, jarray_to_obj_list_gen.
  rewrite map_map. cbn [fst snd].
  rewrite (mapM_map_ok _ _ (fun c => OChoice (saved_of c (choice_tidx c)))).
  - cbn [bind]. rewrite <- (map_map (fun c => (c, choice_tidx c)) (fun cn : choice * N => write_choice sw (fst cn) (snd cn))).
    now apply choices_of_objs_roundtrip.
  - intros c Hin. pose proof (forallb_In _ _ _ H Hin) as Hc.
    destruct (wf_choice_thread c Hc) as (th & _ & _ & Hp & Hi & -> & Hx).
    change (jtoken_to_obj_gen lsite_panics ?j None) with (jtoken_to_obj j None).
    now apply choice_token_roundtrip.
Qed.

(* ---------- the choiceThreads loop of Flow::write_json ---------- *)
Definition wct_step (cs : callstack) (acc : list (text * json) * list (choice * N)) (c : choice)
  : Res (list (text * json) * list (choice * N)) :=
  let '(jct, done) := acc in
  do th <- ssite_res panics S_w_choice_thread (ch_thread c);
  let idx := th_index th in
  do jct' <- match cs_thread_with_index cs idx with
             | Some _ => Ok jct
             | None => do jt <- write_thread panics sw root th; Ok (assoc_set (show_N idx) jt jct)
             end;
  Ok (jct', done ++ [(c, idx)]).

Lemma wct_unfold cs choices :
  write_choice_threads panics sw root cs choices = foldM (wct_step cs) choices ([], []).
Proof. reflexivity. Qed.

Lemma tidx_lt c : wf_choice_b root c = true -> choice_tidx c < 18446744073709551616.
Proof.
  intros H. destruct (wf_choice_thread c H) as (th & _ & _ & _ & _ & -> & Hx). apply N.ltb_lt in Hx. lia.
Qed.

Lemma wct_loop cs choices :
  forallb (wf_choice_b root) choices = true ->
  nodup_N_b (map choice_tidx choices) = true ->
  forall jct0 done0,
  exists jct,
    foldM (wct_step cs) choices (jct0, done0) = Ok (jct, done0 ++ map (fun c => (c, choice_tidx c)) choices)
    /\ (forall k, (forall c, In c choices -> k <> show_N (choice_tidx c)) -> assoc k jct = assoc k jct0)
    /\ (forall c, In c choices -> cs_thread_with_index cs (choice_tidx c) = None ->
        exists th o, ch_thread c = Some th /\ assoc (show_N (choice_tidx c)) jct = Some (JObj o)
                     /\ read_thread root o = Ok (norm_thread sw root th)).
Proof.
  induction choices as [|c l IH]; intros Hwf Hnd jct0 done0.
  - exists jct0. cbn. rewrite app_nil_r. split; [reflexivity|]. split; [reflexivity|]. intros c [].
  - cbn in Hwf, Hnd. apply andb_true_iff in Hwf as [Hc Hl]. apply andb_true_iff in Hnd as [Hn Hnd].
    apply negb_true_iff in Hn.
    destruct (wf_choice_thread c Hc) as (th & Eth & Hth & _ & _ & Eidx & Hx).
    destruct (thread_roundtrip_lemma panics sw root th Hth) as (o & Hw & Hr).
    assert (Hfresh : forall c2, In c2 l -> show_N (choice_tidx c) <> show_N (choice_tidx c2)).
    { intros c2 Hin E. apply show_N_inj in E; [|now apply tidx_lt|apply tidx_lt; eapply forallb_In; eassumption].
      assert (existsb (N.eqb (choice_tidx c)) (map choice_tidx l) = true).
      { apply existsb_exists. exists (choice_tidx c2). split; [now apply in_map|rewrite E; apply N.eqb_refl]. }
      congruence. }
    cbn [foldM]. unfold wct_step at 1. rewrite Eth. cbn [ssite_res bind]. rewrite <- Eidx.
    destruct (cs_thread_with_index cs (choice_tidx c)) as [t|] eqn:Ecs.
    + cbn [bind]. destruct (IH Hl Hnd jct0 (done0 ++ [(c, choice_tidx c)])) as (jct & Hf & Hpres & Hspec).
      exists jct. rewrite Hf. cbn [map]. rewrite <- app_assoc. cbn [app]. split; [reflexivity|]. split.
      * intros k Hk. apply Hpres. intros c2 Hin. apply Hk. now right.
      * intros c2 [<-|Hin] Hnone; [congruence|now apply Hspec].
    + rewrite Hw. cbn [bind].
      destruct (IH Hl Hnd (assoc_set (show_N (choice_tidx c)) (JObj o) jct0) (done0 ++ [(c, choice_tidx c)]))
        as (jct & Hf & Hpres & Hspec).
      exists jct. rewrite Hf. cbn [map]. rewrite <- app_assoc. cbn [app]. split; [reflexivity|]. split.
      * intros k Hk. rewrite Hpres by (intros c2 Hin; apply Hk; now right).
        rewrite assoc_assoc_set. destruct (text_eqb k (show_N (choice_tidx c))) eqn:E; [|reflexivity].
        apply text_eqb_eq in E. exfalso. apply (Hk c); [now left|assumption].
      * intros c2 [<-|Hin] Hnone; [|now apply Hspec].
        exists th, o. split; [assumption|]. split; [|assumption].
        rewrite Hpres by (intros c2 Hin; now apply Hfresh).
        rewrite assoc_assoc_set. now rewrite text_eqb_refl.
Qed.

(* ---------- Flow::load_flow_choice_threads on the result ---------- *)
Lemma load_choice_threads_roundtrip cs jcto choices :
  forallb (wf_choice_b root) choices = true ->
  (forall c, In c choices -> cs_thread_with_index cs (choice_tidx c) = None ->
     exists th o, ch_thread c = Some th /\ obind jcto (jget_t (show_N (choice_tidx c))) = Some (JObj o)
                  /\ read_thread root o = Ok (norm_thread sw root th)) ->
  load_flow_choice_threads panics root (norm_callstack sw root cs) jcto (map loaded_choice choices)
  = Ok (map (norm_choice sw root (norm_callstack sw root cs)) choices).
Proof.
  intros Hwf Hspec. unfold load_flow_choice_threads. rewrite (mapM_map_ok _ _ (norm_choice sw root (norm_callstack sw root cs))); [reflexivity|].
  intros c Hin. pose proof (forallb_In _ _ _ Hwf Hin) as Hc.
  destruct (wf_choice_thread c Hc) as (th & Eth & _ & _ & _ & Eidx & _).
  unfold load_choice_thread, norm_choice. rewrite Eth. unfold loaded_choice at 1. cbn [ch_orig_thread].
  rewrite <- Eidx. rewrite thread_with_index_norm.
  destruct (cs_thread_with_index cs (choice_tidx c)) as [t|] eqn:Ecs; cbn [option_map].
  - reflexivity.
  - destruct (Hspec c Hin Ecs) as (th' & o & Eth' & Ea & Hr). rewrite Eth in Eth'. inversion Eth'; subst th'.
    unfold loaded_choice at 1. cbn [ch_orig_thread]. rewrite Ea. cbn [ssite_res bind j_as_obj]. rewrite Hr. reflexivity.
Qed.

(* ---------- Flow::from_json on the two shapes of a written flow ---------- *)
Definition flow_read_tail (name : text) (jcs jout jch : json) (jcto : option json) : Res flow :=
  do oa <- ssite_res panics S_flow_out_arr (j_as_arr jout);
  do out <- jarray_to_obj_list oa false;
  do ca <- ssite_res panics S_flow_choices_arr (j_as_arr jch);
  do choices <- read_choices panics sw S_flow_choice_downcast ca;
  do cso <- ssite_res panics S_flow_cs_obj (j_as_obj jcs);
  do cs <- load_callstack_res panics root cso;
  do choices' <- load_flow_choice_threads panics root cs jcto choices;
  Ok (mkFlow name cs out choices' false).

Lemma flow_shape_0 name jcs jout jch :
  flow_from_json panics sw root name [(T "callstack", jcs); (T "outputStream", jout); (T "currentChoices", jch)]
  = flow_read_tail name jcs jout jch None.
Proof. reflexivity. Qed.
Lemma flow_shape_1 name jcs jout jct jch :
  flow_from_json panics sw root name
    [(T "callstack", jcs); (T "outputStream", jout); (T "choiceThreads", jct); (T "currentChoices", jch)]
  = flow_read_tail name jcs jout jch (Some jct).
Proof. reflexivity. Qed.

Lemma flow_roundtrip_lemma cur_cs name f : wf_flow_b root cur_cs f = true ->
  exists o, write_flow panics sw root cur_cs f = Ok (JObj o)
            /\ flow_from_json panics sw root name o = Ok (norm_flow sw root cur_cs name f).
Proof.
  unfold wf_flow_b. intros H. apply andb_true_iff in H as [H Hnd]. apply andb_true_iff in H as [H Hch].
  apply andb_true_iff in H as [Hcs Hout].
  unfold write_flow, norm_flow.
  set (cs := if fl_alias_cs f then cur_cs else fl_cs f) in *.
  destruct (callstack_roundtrip panics sw root cs Hcs) as (ocs & Hwcs & Hrcs).
  destruct (objs_roundtrip sw (fl_out f) Hout) as (jouts & Hwo & Hro).
  rewrite wct_unfold.
  destruct (wct_loop cs (fl_choices f) Hch Hnd [] []) as (jct & Hf & _ & Hspec).
  rewrite Hwcs, Hwo, Hf. cbn [bind app]. unfold jfield.
  assert (Hcsres : load_callstack_res panics root ocs = Ok (norm_callstack sw root cs)).
  { unfold load_callstack_res. rewrite Hrcs. reflexivity. }
  destruct jct as [|kv jct'] eqn:Ej.
  - eexists. split; [reflexivity|]. cbn [is_nil app]. rewrite flow_shape_0. unfold flow_read_tail.
    cbn [j_as_arr j_as_obj ssite_res bind]. rewrite Hro. cbn [bind].
    rewrite read_choices_roundtrip by assumption. cbn [bind]. rewrite Hcsres. cbn [bind].
    rewrite load_choice_threads_roundtrip; [reflexivity|assumption|].
    intros c Hin Hnone. destruct (Hspec c Hin Hnone) as (th & o & _ & Ea & _). discriminate.
  - eexists. split; [reflexivity|]. cbn [is_nil app]. rewrite flow_shape_1. unfold flow_read_tail.
    cbn [j_as_arr j_as_obj ssite_res bind]. rewrite Hro. cbn [bind].
    rewrite read_choices_roundtrip by assumption. cbn [bind]. rewrite Hcsres. cbn [bind].
    rewrite load_choice_threads_roundtrip; [reflexivity|assumption|].
    intros c Hin Hnone. destruct (Hspec c Hin Hnone) as (th & o & Eth & Ea & Hr).
    exists th, o. repeat split; assumption.
Qed.

End Flows.
