(* Comp/WfRefs.v — verified reference validator for compiled stories (C06 a).

   [wf_refs s]   every reference held by an object of the loaded tree resolves
                 EXACTLY (approximate = false) with the runtime's own resolver
                 (Data/Path.v: resolve_path / content_at_path), and to a
                 container where the runtime requires one:
                   divert / function call / tunnel / thread start  (ODivert, not variable, not external)
                       Divert::get_target_pointer: a non-index last component => `downcast::<Container>().unwrap()`
                   choice point target   (ChoicePoint::get_choice_target => .container())
                   read count reference  (VariableReference::get_container_for_count => .container().unwrap())
                   divert-target value   (Story::pointer_at_path from the root)
   [wf_story s]  every item of every list value names an origin declared in
                 listDefs and an item of that definition; initial origin names are declared.
   Model file: no proofs (soundness in Comp/WfRefsProofs.v). *)
From Ink.Data Require Export Types Path.

(* ---------- all objects of a tree, with their positions ---------- *)
(* pre-order: content first (in order), then the named-only entries *)
Fixpoint descendants (c : container) (p : pos) : list (pos * obj) :=
  let 'Cont _ _ _ _ content named := c in
  (fix go (l : list obj) (i : nat) : list (pos * obj) :=
     match l with
     | [] => []
     | x :: r =>
         ((p ++ [SI i], x)
            :: match x with OCont c' => descendants c' (p ++ [SI i]) | _ => [] end)
           ++ go r (S i)
     end) content O
  ++ (fix gon (l : list (text * container)) : list (pos * obj) :=
        match l with
        | [] => []
        | (k, c') :: r => ((p ++ [SN k], OCont c') :: descendants c' (p ++ [SN k])) ++ gon r
        end) named.

Definition all_objs (root : container) : list (pos * obj) := ([], OCont root) :: descendants root [].

(* ---------- reference checks ---------- *)
Inductive ref_kind := RDivert | RChoice | RReadCount | RDivertValue.

(* the references an object holds: kind, path, must the target be a container *)
Definition last_is_index (p : path) : bool :=
  match path_last p with Some (CIdx _) => true | _ => false end.

Definition refs_of (o : obj) : list (ref_kind * path * bool) :=
  match o with
  | ODivert d =>
      match d_target d, d_var d, d_external d with
      | Some p, None, false => [(RDivert, p, negb (last_is_index p))]
      | _, _, _ => []
      end
  | OChoicePoint _ p => [(RChoice, p, true)]
  | OReadCount p => [(RReadCount, p, true)]
  | OVal (VDivert p) => [(RDivertValue, p, false)]
  | _ => []
  end.

(* how the runtime resolves each kind *)
Definition resolve_ref (root : container) (at_ : pos) (k : ref_kind) (p : path) : Res search_result :=
  match k with
  | RDivertValue => Ok (content_at_path root p)       (* pointer_at_path: always from the root *)
  | _ => resolve_path root at_ p
  end.

Inductive ref_verdict := RefOk | RefApprox | RefNotContainer | RefPanic | RefEmpty.

Definition check_ref (root : container) (at_ : pos) (r : ref_kind * path * bool) : ref_verdict :=
  let '(k, p, need_cont) := r in
  match p_comps p, k with
  | [], RDivertValue => RefOk                          (* pointer_at_path: empty path = null pointer *)
  | _, _ =>
      match resolve_ref root at_ k p with
      | Ok sr =>
          if sr_approx sr then RefApprox
          else if need_cont && negb (is_cont_at root (sr_pos sr)) then RefNotContainer
          else RefOk
      | _ => RefPanic
      end
  end.

Definition verdict_ok (v : ref_verdict) : bool := match v with RefOk => true | _ => false end.

Definition obj_refs_ok (root : container) (po : pos * obj) : bool :=
  forallb (fun r => verdict_ok (check_ref root (fst po) r)) (refs_of (snd po)).

Definition wf_refs_tree (root : container) : bool := forallb (obj_refs_ok root) (all_objs root).
Definition wf_refs (s : story) : bool := wf_refs_tree (st_root s).

(* ---------- list values ---------- *)
Definition item_declared (defs : listdefs) (it : listitem) : bool :=
  match it_origin it with
  | None => false                                      (* D20: origin-less item *)
  | Some o => match assoc o defs with
              | Some items => assoc_mem (it_name it) items
              | None => false
              end
  end.

Definition list_ok (defs : listdefs) (l : inklist) : bool :=
  forallb (fun iv => item_declared defs (fst iv)) (l_items l)
  && forallb (fun n => assoc_mem n defs) (l_init_names l).

Definition obj_lists_ok (defs : listdefs) (po : pos * obj) : bool :=
  match snd po with
  | OVal (VList l) => list_ok defs l
  | _ => true
  end.

Definition wf_story (s : story) : bool := forallb (obj_lists_ok (st_listdefs s)) (all_objs (st_root s)).

(* ---------- report (one line per offending reference / list) ---------- *)
Definition kind_text (k : ref_kind) : text :=
  match k with
  | RDivert => T "divert" | RChoice => T "choice" | RReadCount => T "readcount" | RDivertValue => T "divert-value"
  end.
Definition verdict_text (v : ref_verdict) : text :=
  match v with
  | RefOk => T "ok" | RefApprox => T "approximate" | RefNotContainer => T "not-a-container"
  | RefPanic => T "resolver-panics" | RefEmpty => T "empty"
  end.

Definition pos_text (root : container) (p : pos) : text :=
  match get_path root p with Ok pa => path_string pa | _ => T "?" end.

Definition ref_report_obj (root : container) (po : pos * obj) : list text :=
  flat_map (fun r =>
              let v := check_ref root (fst po) r in
              if verdict_ok v then []
              else [pos_text root (fst po) ++ [c_tab] ++ kind_text (fst (fst r)) ++ [c_tab]
                    ++ path_string (snd (fst r)) ++ [c_tab] ++ verdict_text v])
           (refs_of (snd po)).

Definition wf_refs_report (s : story) : list text :=
  flat_map (ref_report_obj (st_root s)) (all_objs (st_root s)).

Definition wf_story_report (s : story) : list text :=
  flat_map (fun po => if obj_lists_ok (st_listdefs s) po then []
                      else [pos_text (st_root s) (fst po) ++ [c_tab] ++ T "list" ++ [c_tab]
                            ++ T "undeclared origin or item"])
           (all_objs (st_root s)).
