(* Comp/WfRefsProofs.v — soundness of the reference validator (C06 a).

   all_objs_complete : the validator's listing contains every object of the tree
   wf_refs_sound_*   : if wf_refs accepts a story, then every divert / choice
                       point / read count / divert-target value found at ANY
                       position of its tree resolves exactly (approximate =
                       false) with the runtime's resolver, to a container where
                       the runtime unwraps one
   wf_story_sound    : every list value's items are declared in listDefs     *)
From Coq Require Import Lia.
From Ink.Data Require Import Types Path PathProofs Tree TreeProofs.
From Ink.Comp Require Import WfRefs.

(* ---------- the listing, with its inner loops named ---------- *)
Definition desc_content (p : pos) : list obj -> nat -> list (pos * obj) :=
  fix go (l : list obj) (i : nat) : list (pos * obj) :=
    match l with
    | [] => []
    | x :: r =>
        ((p ++ [SI i], x)
           :: match x with OCont c' => descendants c' (p ++ [SI i]) | _ => [] end)
          ++ go r (S i)
    end.

Definition desc_named (p : pos) : list (text * container) -> list (pos * obj) :=
  fix gon (l : list (text * container)) : list (pos * obj) :=
    match l with
    | [] => []
    | (k, c') :: r => ((p ++ [SN k], OCont c') :: descendants c' (p ++ [SN k])) ++ gon r
    end.

Lemma descendants_eq c p :
  descendants c p = desc_content p (c_content c) O ++ desc_named p (c_named_only c).
Proof. destruct c. reflexivity. Qed.

Lemma in_desc_content p l : forall i j x,
  nth_error l i = Some x ->
  In (p ++ [SI (j + i)], x) (desc_content p l j)
  /\ (forall c', x = OCont c' -> incl (descendants c' (p ++ [SI (j + i)])) (desc_content p l j)).
Proof.
  induction l as [|y r IH]; intros i j x Hn; [destruct i; discriminate|].
  destruct i as [|i]; cbn in Hn.
  - injection Hn as ->. rewrite Nat.add_0_r. cbn [desc_content]. split.
    + apply in_or_app. left. now left.
    + intros c' ->. intros z Hz. apply in_or_app. left. now right.
  - destruct (IH i (S j) x Hn) as [H1 H2].
    replace (S j + i)%nat with (j + S i)%nat in * by lia.
    cbn [desc_content]. split.
    + apply in_or_app. right. exact H1.
    + intros c' E z Hz. apply in_or_app. right. exact (H2 c' E z Hz).
Qed.

Lemma in_desc_named p l k c' :
  In (k, c') l ->
  In (p ++ [SN k], OCont c') (desc_named p l)
  /\ incl (descendants c' (p ++ [SN k])) (desc_named p l).
Proof.
  induction l as [|[k0 c0] r IH]; intros Hin; [contradiction|].
  cbn [desc_named]. destruct Hin as [E|Hin].
  - injection E as -> ->. split; [apply in_or_app; left; now left|].
    intros z Hz. apply in_or_app. left. now right.
  - destruct (IH Hin) as [H1 H2]. split; [apply in_or_app; now right|].
    intros z Hz. apply in_or_app. right. now apply H2.
Qed.

(* a child is listed, and so is everything below it *)
Lemma child_listed c p s x :
  child c s = Some x ->
  In (p ++ [s], x) (descendants c p)
  /\ (forall c', x = OCont c' -> incl (descendants c' (p ++ [s])) (descendants c p)).
Proof.
  intros Hch. rewrite descendants_eq. destruct s as [i|k]; cbn [child] in Hch.
  - destruct (in_desc_content p (c_content c) i O x Hch) as [H1 H2]. cbn [Nat.add] in *. split.
    + apply in_or_app. now left.
    + intros c' E z Hz. apply in_or_app. left. exact (H2 c' E z Hz).
  - destruct (assoc k (c_named_only c)) as [c1|] eqn:Ha; [|discriminate]. cbn in Hch. injection Hch as <-.
    destruct (in_desc_named p (c_named_only c) k c1 (assoc_in _ _ _ Ha)) as [H1 H2]. split.
    + apply in_or_app. now right.
    + intros c' E z Hz. injection E as <-. apply in_or_app. right. exact (H2 z Hz).
Qed.

Lemma descendants_complete : forall q c p o,
  q <> [] -> obj_at c q = Some o -> In (p ++ q, o) (descendants c p).
Proof.
  induction q as [|s r IH]; intros c p o Hne Hobj; [congruence|].
  cbn [obj_at] in Hobj. destruct (child c s) as [x|] eqn:Hch; [|discriminate].
  destruct (child_listed c p s x Hch) as [H1 H2].
  destruct r as [|s' r'].
  - assert (o = x) as -> by (destruct x; cbn in Hobj; congruence). exact H1.
  - destruct x as [c'| | | | | | | | | | | |]; try discriminate Hobj.
    specialize (IH c' (p ++ [s]) o ltac:(discriminate) Hobj).
    rewrite <- app_assoc in IH. cbn [app] in IH. exact (H2 c' eq_refl _ IH).
Qed.

Theorem all_objs_complete root pos o : obj_at root pos = Some o -> In (pos, o) (all_objs root).
Proof.
  intros H. unfold all_objs. destruct pos as [|s r].
  - cbn in H. injection H as <-. now left.
  - right. exact (descendants_complete (s :: r) root [] o ltac:(discriminate) H).
Qed.

(* ---------- soundness of wf_refs ---------- *)
Definition resolves_exactly (root : container) (at_ : pos) (k : ref_kind) (p : path) (need_cont : bool) : Prop :=
  exists sr, resolve_ref root at_ k p = Ok sr /\ sr_approx sr = false
             /\ (need_cont = true -> is_cont_at root (sr_pos sr) = true).

Lemma check_ref_ok root at_ k p nc :
  check_ref root at_ (k, p, nc) = RefOk ->
  (k = RDivertValue /\ p_comps p = []) \/ resolves_exactly root at_ k p nc.
Proof.
  unfold check_ref.
  assert (Hgen : match resolve_ref root at_ k p with
                 | Ok sr => if sr_approx sr then RefApprox
                            else if nc && negb (is_cont_at root (sr_pos sr)) then RefNotContainer else RefOk
                 | _ => RefPanic
                 end = RefOk -> resolves_exactly root at_ k p nc).
  { unfold resolves_exactly. destruct (resolve_ref root at_ k p) as [sr|e m|s]; try discriminate.
    destruct (sr_approx sr) eqn:Ea; [discriminate|].
    destruct (nc && negb (is_cont_at root (sr_pos sr))) eqn:En; [discriminate|]. intros _.
    exists sr. split; [reflexivity|]. split; [exact Ea|]. intros ->. cbn in En.
    now apply negb_false_iff in En. }
  destruct (p_comps p) as [|c0 cs] eqn:Ep.
  - destruct k; try (intros H; right; exact (Hgen H)). intros _. now left.
  - intros H. right. exact (Hgen H).
Qed.

Lemma wf_refs_obj root pos o :
  wf_refs_tree root = true -> obj_at root pos = Some o ->
  forall r, In r (refs_of o) -> check_ref root pos r = RefOk.
Proof.
  intros Hwf Ho r Hr. unfold wf_refs_tree in Hwf. rewrite forallb_forall in Hwf.
  specialize (Hwf _ (all_objs_complete root pos o Ho)). unfold obj_refs_ok in Hwf. cbn [fst snd] in Hwf.
  rewrite forallb_forall in Hwf. specialize (Hwf r Hr).
  destruct (check_ref root pos r); try discriminate Hwf. reflexivity.
Qed.

(* diverts, function calls, tunnels, thread starts: every ODivert that is not a
   variable divert and not external *)
Theorem wf_refs_sound_divert s pos d p :
  wf_refs s = true -> obj_at (st_root s) pos = Some (ODivert d) ->
  d_target d = Some p -> d_var d = None -> d_external d = false ->
  exists sr, resolve_path (st_root s) pos p = Ok sr /\ sr_approx sr = false
             /\ (last_is_index p = false -> is_cont_at (st_root s) (sr_pos sr) = true).
Proof.
  intros Hwf Ho Ht Hv He.
  assert (Hin : In (RDivert, p, negb (last_is_index p)) (refs_of (ODivert d))).
  { cbn [refs_of]. rewrite Ht, Hv, He. now left. }
  pose proof (wf_refs_obj _ _ _ Hwf Ho _ Hin) as Hc.
  destruct (check_ref_ok _ _ _ _ _ Hc) as [[E _]|(sr & H1 & H2 & H3)]; [discriminate|].
  exists sr. split; [exact H1|]. split; [exact H2|]. intros Hl. apply H3. now rewrite Hl.
Qed.

Theorem wf_refs_sound_choice s pos flags p :
  wf_refs s = true -> obj_at (st_root s) pos = Some (OChoicePoint flags p) ->
  exists sr, resolve_path (st_root s) pos p = Ok sr /\ sr_approx sr = false
             /\ is_cont_at (st_root s) (sr_pos sr) = true.
Proof.
  intros Hwf Ho.
  pose proof (wf_refs_obj _ _ _ Hwf Ho (RChoice, p, true) (or_introl eq_refl)) as Hc.
  destruct (check_ref_ok _ _ _ _ _ Hc) as [[E _]|(sr & H1 & H2 & H3)]; [discriminate|].
  exists sr. auto.
Qed.

Theorem wf_refs_sound_readcount s pos p :
  wf_refs s = true -> obj_at (st_root s) pos = Some (OReadCount p) ->
  exists sr, resolve_path (st_root s) pos p = Ok sr /\ sr_approx sr = false
             /\ is_cont_at (st_root s) (sr_pos sr) = true.
Proof.
  intros Hwf Ho.
  pose proof (wf_refs_obj _ _ _ Hwf Ho (RReadCount, p, true) (or_introl eq_refl)) as Hc.
  destruct (check_ref_ok _ _ _ _ _ Hc) as [[E _]|(sr & H1 & H2 & H3)]; [discriminate|].
  exists sr. auto.
Qed.

(* divert-target values: Story::pointer_at_path resolves them from the root;
   the empty path is the null pointer *)
Theorem wf_refs_sound_divert_value s pos p :
  wf_refs s = true -> obj_at (st_root s) pos = Some (OVal (VDivert p)) ->
  p_comps p = [] \/ sr_approx (content_at_path (st_root s) p) = false.
Proof.
  intros Hwf Ho.
  pose proof (wf_refs_obj _ _ _ Hwf Ho (RDivertValue, p, false) (or_introl eq_refl)) as Hc.
  destruct (check_ref_ok _ _ _ _ _ Hc) as [[_ E]|(sr & H1 & H2 & _)]; [now left|].
  right. cbn [resolve_ref] in H1. injection H1 as <-. exact H2.
Qed.

(* ---------- soundness of wf_story ---------- *)
Theorem wf_story_sound s pos l it v :
  wf_story s = true -> obj_at (st_root s) pos = Some (OVal (VList l)) -> In (it, v) (l_items l) ->
  exists o items, it_origin it = Some o /\ assoc o (st_listdefs s) = Some items
                  /\ assoc_mem (it_name it) items = true.
Proof.
  intros Hwf Ho Hin. unfold wf_story in Hwf. rewrite forallb_forall in Hwf.
  specialize (Hwf _ (all_objs_complete _ _ _ Ho)). unfold obj_lists_ok in Hwf. cbn [snd] in Hwf.
  unfold list_ok in Hwf. apply andb_prop in Hwf. destruct Hwf as [Hitems _].
  rewrite forallb_forall in Hitems. specialize (Hitems _ Hin). cbn [fst] in Hitems.
  unfold item_declared in Hitems. destruct (it_origin it) as [o|]; [|discriminate].
  destruct (assoc o (st_listdefs s)) as [items|] eqn:Ea; [|discriminate].
  exists o, items. auto.
Qed.

(* non-vacuity: a tree with a relative divert, a choice point and a read count that all resolve *)
Definition ex_refs_root : container :=
  Cont None false false false
       [OCont (Cont (Some (T "knot")) true false false
                 [OVal (VString (T "hi"));
                  ODivert (mkDivert (Some (path_new [CName [c_caret]; CName (T "g-0")] true)) None false PFunction false 0 false);
                  OChoicePoint 0 (path_new [CName [c_caret]; CName (T "g-0")] true);
                  OCont (Cont (Some (T "g-0")) false false false [OReadCount (path_new [CName (T "knot")] false); OCmd Done] [])]
                 []);
        ODivert (mkDivert (Some (path_new [CName (T "knot"); CIdx 0] false)) None false PFunction false 0 false);
        OCmd Done] [].
Example ex_refs_ok : wf_refs (mkStory 21 ex_refs_root []) = true.
Proof. vm_compute. reflexivity. Qed.
(* and a dangling one is rejected *)
Example ex_refs_bad :
  wf_refs (mkStory 21 (Cont None false false false
                         [ODivert (mkDivert (Some (path_new [CName (T "nowhere")] false)) None false PFunction false 0 false)] []) [])
  = false.
Proof. vm_compute. reflexivity. Qed.
