(* Comp/WfRefsRun.v — entry point of the reference validator for tools/props/c06.py:
   document -> "load=<outcome> refs=<0|1> story=<0|1>" then one line per problem. *)
From Ink.Comp Require Import WfRefs.
From Ink.Json Require Import StdLoad LoadRun.

Definition run_wf (j : json) : text :=
  match load_story j with
  | Ok s =>
      join_with [c_nl]
        ((T "load=ok refs=" ++ show_bool01 (wf_refs s) ++ T " story=" ++ show_bool01 (wf_story s))
           :: wf_refs_report s ++ wf_story_report s)
  | r => T "load=" ++ show_res r ++ T " refs=0 story=0"
  end.
