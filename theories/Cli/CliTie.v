(* Cli/CliTie.v — the facts about rinklecate/src/player.rs that the theorems of
   C20 need, checked against the REGENERATED table Gen/CliGen.v.  If a lemma
   here stops compiling the source no longer has the property:
     cli_arms_good     escape_json_string writes, for every character, something
                       that denotes it in JSON (control characters included)
     cli_divert_escaped the failed-divert issues line goes through
                       escape_json_string as a whole
     cli_formats_known the JSON format literals / join separators of the source
                       are the ones Cli/Escape.v:render_json is written with
     cli_help_plain    the help text needs no escaping at all                  *)
From Ink.Data Require Import Types.
From Ink.Json Require Import JsonStd.
From Ink.Cli Require Import Escape EscapeProofs RenderProofs.
From Ink.Gen Require Import CliGen.

Lemma cli_arms_good : arms_ok cli_escape_arms = true.
Proof. vm_compute. reflexivity. Qed.

Lemma cli_divert_escaped : cli_divert_mode = 1.
Proof. reflexivity. Qed.

Lemma cli_formats_known :
  cli_json_formats = expected_formats cli_divert_mode
  /\ forallb (fun s => text_eqb s sep_comma_space) cli_join_seps = true.
Proof. split; reflexivity. Qed.

(* no character of the help text is touched by msg.replace (quote) or by escape_json_string *)
Lemma cli_help_plain :
  forallb (fun c => negb (N.eqb c c_quote) && negb (N.eqb c c_bslash) && (32 <=? c) && (c <? 128))
          cli_help_msg = true.
Proof. vm_compute. reflexivity. Qed.

Lemma cli_help_plainb : forallb plainb cli_help_msg = true.
Proof. vm_compute. reflexivity. Qed.

(* every line of the -j protocol, as the source renders it now, reads back as
   the one-key object carrying the intended payload *)
Lemma rendered_lines_lemma f m : parse_json f (render_json m) = Some (msg_json m).
Proof.
  unfold render_json, msg_json, msg_payload. rewrite cli_divert_escaped.
  apply rendered_line; [exact cli_arms_good|exact cli_help_plainb].
Qed.
