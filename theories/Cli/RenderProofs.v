(* Cli/RenderProofs.v — every line the player writes in -j mode is a JSON text
   that JsonStd.parse_json reads back as the intended object.

   Method: a small calculus of "value texts".  [PV nd vt v] says: wherever a
   JSON value is expected, the text vt (followed by anything that starts with
   a separator) parses to v, with any fuel >= |vt| and any depth >= nd.
   Strings, true, naturals, arrays and objects built from such texts are such
   texts; the renderers of Cli/Escape.v are instances. *)
From Ink.Data Require Import Types PathProofs.
From Ink.Json Require Import JsonStd JsonStdProofs TokenizerCore TokenizerProofs.
From Ink.Cli Require Import EscapeCore EscapeProofs.
From Coq Require Import Lia.

Definition plainb (c : N) : bool :=
  negb (N.eqb c c_quote) && negb (N.eqb c c_bslash) && negb (c <? 32).

Lemma unescape_plain_text k : forallb plainb k = true -> unescape k = Some k.
Proof.
  induction k as [|c k IH]; [reflexivity|]. cbn [forallb]. intros H.
  apply andb_prop in H as [Hc Hk]. unfold plainb in Hc.
  apply andb_prop in Hc as [Hc H3]. apply andb_prop in Hc as [H1 H2].
  apply negb_true_iff in H1, H2, H3.
  rewrite unescape_plain by assumption. rewrite (IH Hk). reflexivity.
Qed.

Lemma lex_plain_key k r : forallb plainb k = true -> lex_string (k ++ c_quote :: r) = Some (k, r).
Proof. intros H. apply lex_string_unescape, unescape_plain_text, H. Qed.

(* the text after a value inside an array or object *)
Definition sep_next (rest : text) : Prop :=
  match rest with c :: _ => is_separator c = true | [] => False end.

Lemma join_cons2 sep (a b : text) l :
  join_with sep (a :: b :: l) = a ++ sep ++ join_with sep (b :: l).
Proof. reflexivity. Qed.

Lemma assoc_set_fresh {V} k (v : V) acc : ~ In k (map fst acc) -> assoc_set k v acc = acc ++ [(k, v)].
Proof.
  induction acc as [|[k' v'] acc IH]; [reflexivity|]. cbn [map fst In assoc_set app]. intros H.
  destruct (text_eqb k k') eqn:E.
  - apply text_eqb_eq in E. subst. exfalso. apply H. now left.
  - rewrite IH; [reflexivity|]. intros Hin. apply H. now right.
Qed.

(* N.to_uint has no leading zero *)
Lemma to_uint_D0 n u : N.to_uint n = Decimal.D0 u -> u = Decimal.Nil.
Proof.
  intros H. pose proof (DecimalN.Unsigned.to_of (N.to_uint n)) as E.
  rewrite DecimalN.Unsigned.of_to in E. rewrite H in E. rewrite DecimalFacts.unorm_D0 in E.
  destruct (Decimal.nzhead u) eqn:Hn;
    try (exfalso; apply (DecimalFacts.nzhead_nonzero u u);
         rewrite <- (DecimalFacts.unorm_nzhead u) by (rewrite Hn; discriminate); symmetry; exact E).
  unfold Decimal.unorm in E. rewrite Hn in E. injection E as <-. reflexivity.
Qed.

Lemma show_N_int_literal n : int_literal false (show_N n).
Proof.
  split; [apply show_N_nonempty|]. split.
  - pose proof (show_N_digits n) as H. unfold digits_only. eapply Forall_impl; [|exact H].
    intros c Hc. cbv beta in Hc. unfold is_digit.
    destruct (N.leb_spec 48 c); [|lia]. destruct (N.leb_spec c 57); [reflexivity|lia].
  - unfold show_N. intros more H. destruct (N.to_uint n) as [|u|u|u|u|u|u|u|u|u|u] eqn:E;
      cbn [text_of_uint] in H; try discriminate.
    injection H as <-. apply to_uint_D0 in E. subst u. reflexivity.
Qed.

Lemma digits_to_Z_show_N n : digits_to_Z (show_N n) = Z.of_N n.
Proof.
  unfold digits_to_Z, digits_val, show_N. rewrite uint_roundtrip, DecimalN.Unsigned.of_to. reflexivity.
Qed.

Section Render.
  Variable f : text -> option Z.
  Variable arms : list (N * N * list N).
  Hypothesis Harms : arms_ok arms = true.
  Let esc := escape_json_string_gen arms.

  Definition PV (nd : nat) (vt : text) (v : json) : Prop :=
    forall fu d rest, sep_next rest -> (length vt <= fu)%nat -> (nd <= d)%nat ->
      parse_value f fu d (vt ++ rest) = Some (v, rest).
  (* self-delimiting values need no condition on what follows *)
  Definition PVany (nd : nat) (vt : text) (v : json) : Prop :=
    forall fu d rest, (length vt <= fu)%nat -> (nd <= d)%nat ->
      parse_value f fu d (vt ++ rest) = Some (v, rest).

  Lemma PVany_PV nd vt v : PVany nd vt v -> PV nd vt v.
  Proof. intros H fu d rest _. apply H. Qed.

  Lemma PV_depth nd nd' vt v : (nd <= nd')%nat -> PV nd vt v -> PV nd' vt v.
  Proof. intros Hle H fu d rest Hs Hf Hd. apply H; [assumption|assumption|lia]. Qed.

  Lemma pv_space fu d t : parse_value f fu d (c_space :: t) = parse_value f fu d t.
  Proof. destruct fu; reflexivity. Qed.
  Lemma pe_space fu d t : parse_elems f fu d (c_space :: t) = parse_elems f fu d t.
  Proof. destruct fu; [reflexivity|]. rewrite !parse_elems_eq. rewrite pv_space. reflexivity. Qed.
  Lemma pm_space fu d t acc : parse_members f fu d (c_space :: t) acc = parse_members f fu d t acc.
  Proof. destruct fu; reflexivity. Qed.

  (* ---------- atoms ---------- *)
  Lemma PV_string s : PVany 0 (jq (esc s)) (JStr s).
  Proof.
    intros fu d rest Hf _. unfold jq in *. cbn [length] in Hf.
    destruct fu as [|fu]; [lia|].
    cbn [app]. rewrite <- app_assoc. cbn [app].
    rewrite parse_value_eq. unfold skip_ws. cbn [drop_while].
    change (is_json_ws c_quote) with false. cbv iota. ground_eqb. cbv iota.
    unfold esc. rewrite (lex_escape arms Harms). reflexivity.
  Qed.

  Lemma PV_plain_string s : forallb plainb s = true -> PVany 0 (jq s) (JStr s).
  Proof.
    intros Hs fu d rest Hf _. unfold jq in *. cbn [length] in Hf.
    destruct fu as [|fu]; [lia|].
    cbn [app]. rewrite <- app_assoc. cbn [app].
    rewrite parse_value_eq. unfold skip_ws. cbn [drop_while].
    change (is_json_ws c_quote) with false. cbv iota. ground_eqb. cbv iota.
    rewrite (lex_plain_key _ _ Hs). reflexivity.
  Qed.

  Lemma PV_true : PVany 0 (T "true") (JBool true).
  Proof. intros fu d rest Hf _. destruct fu as [|fu]; [cbn in Hf; lia|]. reflexivity. Qed.

  Lemma PV_nat n : PV 0 (show_N n) (JInt (Z.of_N n)).
  Proof.
    intros fu d rest Hs Hf _.
    destruct rest as [|sep rest]; [contradiction|]. cbn [sep_next] in Hs.
    pose proof (show_N_int_literal n) as Hlit.
    pose proof (lex_number_int false (show_N n) sep rest Hlit Hs) as Hlex.
    unfold int_literal_text in Hlex. cbn [app] in Hlex.
    destruct Hlit as (Hne & Hd & _).
    destruct (show_N n) as [|c r] eqn:E; [congruence|].
    assert (Hc : is_digit c = true) by (inversion Hd; assumption).
    destruct fu as [|fu]; [cbn [length] in Hf; lia|].
    cbn [app] in *. rewrite (parse_value_number f fu d c (r ++ sep :: rest) (or_intror Hc)), Hlex.
    unfold number_value, numlit_is_int. cbn [nl_frac nl_exp nl_neg nl_int].
    rewrite <- E, digits_to_Z_show_N. reflexivity.
  Qed.

  (* ---------- arrays ---------- *)
  Definition starts_value (it : text) : Prop :=
    exists c t, it = c :: t /\ is_json_ws c = false /\ N.eqb c c_rbracket = false.

  Lemma PE items vs nd : Forall2 (PV nd) items vs -> items <> [] ->
    forall fu d rest, (length (join_with sep_comma_space items) + 1 <= fu)%nat -> (nd <= d)%nat ->
      parse_elems f fu d (join_with sep_comma_space items ++ c_rbracket :: rest) = Some (vs, rest).
  Proof.
    induction 1 as [|it v items vs Hit Hrest IH]; [congruence|]. intros _ fu d rest Hf Hd.
    destruct fu as [|fu]; [lia|].
    destruct items as [|it2 items].
    - inversion Hrest; subst. cbn [join_with] in *. rewrite parse_elems_eq.
      rewrite (Hit fu d (c_rbracket :: rest)); [|reflexivity|lia|assumption].
      unfold skip_ws. cbn [drop_while]. change (is_json_ws c_rbracket) with false. cbv iota.
      ground_eqb. cbv iota. reflexivity.
    - rewrite join_cons2 in *. rewrite !app_length in Hf. unfold sep_comma_space in *.
      cbn [length] in Hf. rewrite <- !app_assoc. cbn [app]. rewrite parse_elems_eq.
      rewrite (Hit fu d); [|reflexivity|lia|assumption].
      unfold skip_ws. cbn [drop_while]. change (is_json_ws c_comma) with false. cbv iota.
      ground_eqb. cbv iota.
      rewrite pe_space, IH; [reflexivity|discriminate| |assumption].
      unfold sep_comma_space. lia.
  Qed.

  Lemma PV_array items vs nd :
    Forall2 (PV nd) items vs -> Forall starts_value items ->
    PVany (S nd) (c_lbracket :: join_with sep_comma_space items ++ [c_rbracket]) (JArr vs).
  Proof.
    intros H2 Hst fu d rest Hf Hd. cbn [length] in Hf. rewrite app_length in Hf. cbn [length] in Hf.
    destruct fu as [|fu]; [lia|]. destruct d as [|d]; [lia|].
    cbn [app]. rewrite <- app_assoc. cbn [app]. rewrite parse_value_eq.
    unfold skip_ws at 1. cbn [drop_while]. change (is_json_ws c_lbracket) with false. cbv iota.
    ground_eqb. cbv iota.
    destruct items as [|it items].
    - inversion H2; subst. cbn [join_with app]. unfold skip_ws. cbn [drop_while].
      change (is_json_ws c_rbracket) with false. cbv iota. ground_eqb. cbv iota. reflexivity.
    - assert (Hhead : exists c t, join_with sep_comma_space (it :: items) ++ c_rbracket :: rest = c :: t
                                  /\ is_json_ws c = false /\ N.eqb c c_rbracket = false).
      { inversion Hst as [|? ? (c & t & -> & Hw & Hr) _]; subst.
        destruct items; [cbn [join_with]|rewrite join_cons2]; cbn [app]; eauto. }
      destruct Hhead as (c & t & Ect & Hw & Hr).
      rewrite Ect. unfold skip_ws. cbn [drop_while]. rewrite Hw, Hr. rewrite <- Ect.
      rewrite (PE _ _ _ H2); [reflexivity|discriminate|lia|lia].
  Qed.

  (* ---------- objects ---------- *)
  Definition member_text (m : text * text * json) : text :=
    let '(k, vt, _) := m in jq k ++ [c_colon; c_space] ++ vt.
  Definition member_kv (m : text * text * json) : text * json := let '(k, _, v) := m in (k, v).
  Definition member_key (m : text * text * json) : text := let '(k, _, _) := m in k.
  Definition member_ok (nd : nat) (m : text * text * json) : Prop :=
    let '(k, vt, v) := m in forallb plainb k = true /\ PV nd vt v.

  Lemma PM ms nd : Forall (member_ok nd) ms -> ms <> [] ->
    forall fu d rest acc,
      NoDup (map fst acc ++ map member_key ms) ->
      (length (join_with sep_comma_space (map member_text ms)) + 1 <= fu)%nat -> (nd <= d)%nat ->
      parse_members f fu d (join_with sep_comma_space (map member_text ms) ++ c_rbrace :: rest) acc
      = Some (acc ++ map member_kv ms, rest).
  Proof.
    induction 1 as [|[[k vt] v] ms [Hk Hv] Hrest IH]; [congruence|]. intros _ fu d rest acc Hnd Hf Hd.
    destruct fu as [|fu]; [lia|].
    assert (Hfresh : ~ In k (map fst acc)).
    { cbn [map member_key] in Hnd. apply NoDup_remove_2 in Hnd. intros Hin. apply Hnd.
      apply in_or_app. now left. }
    assert (Hstep : forall tail,
      sep_next tail -> (length vt <= fu)%nat ->
      parse_members f (S fu) d (member_text (k, vt, v) ++ tail) acc
      = match skip_ws tail with
        | c :: r4 => if N.eqb c c_comma then parse_members f fu d r4 (acc ++ [(k, v)])
                     else if N.eqb c c_rbrace then Some (acc ++ [(k, v)], r4) else None
        | [] => None
        end).
    { intros tail Hs Hl. unfold member_text, jq. cbn [app]. rewrite <- !app_assoc. cbn [app]. rewrite parse_members_eq.
      unfold skip_ws at 1. cbn [drop_while]. change (is_json_ws c_quote) with false. cbv iota.
      ground_eqb. cbv iota. rewrite (lex_plain_key _ _ Hk).
      unfold skip_ws at 1. cbn [drop_while]. change (is_json_ws c_colon) with false. cbv iota.
      ground_eqb. cbv iota. rewrite pv_space, (Hv fu d tail Hs Hl Hd).
      rewrite (assoc_set_fresh _ _ _ Hfresh). reflexivity. }
    destruct ms as [|m2 ms].
    - cbn [map join_with] in *. unfold member_text in Hf. fold (member_text (k, vt, v)) in Hf.
      rewrite Hstep; [|reflexivity|].
      + unfold skip_ws. cbn [drop_while]. change (is_json_ws c_rbrace) with false. cbv iota.
        ground_eqb. cbv iota. reflexivity.
      + cbn [member_text] in Hf. rewrite !app_length in Hf. cbn [length] in Hf. lia.
    - cbn [map] in *. rewrite join_cons2 in *. rewrite <- !app_assoc.
      unfold sep_comma_space at 1. cbn [app].
      rewrite Hstep; [|reflexivity|].
      + unfold skip_ws. cbn [drop_while]. change (is_json_ws c_comma) with false. cbv iota.
        ground_eqb. cbv iota. rewrite pm_space.
        rewrite IH; [cbn [map member_kv]; rewrite <- app_assoc; reflexivity|discriminate| | |assumption].
        * rewrite map_app. cbn [map fst]. rewrite <- app_assoc. cbn [app]. exact Hnd.
        * rewrite !app_length in Hf. change (length sep_comma_space) with 2%nat in Hf. lia.
      + cbn [member_text] in Hf. rewrite !app_length in Hf. cbn [length] in Hf. lia.
  Qed.

  Lemma PV_object ms nd :
    Forall (member_ok nd) ms -> ms <> [] -> NoDup (map member_key ms) ->
    PVany (S nd) (c_lbrace :: join_with sep_comma_space (map member_text ms) ++ [c_rbrace])
          (JObj (map member_kv ms)).
  Proof.
    intros Hms Hne Hnd fu d rest Hf Hd. cbn [length] in Hf. rewrite app_length in Hf. cbn [length] in Hf.
    destruct fu as [|fu]; [lia|]. destruct d as [|d]; [lia|].
    cbn [app]. rewrite <- app_assoc. cbn [app]. rewrite parse_value_eq.
    unfold skip_ws at 1. cbn [drop_while]. change (is_json_ws c_lbrace) with false. cbv iota.
    ground_eqb. cbv iota.
    assert (Hhead : exists t, join_with sep_comma_space (map member_text ms) ++ c_rbrace :: rest = c_quote :: t).
    { destruct ms as [|[[k vt] v] ms]; [congruence|]. cbn [map].
      destruct (map member_text ms); [cbn [join_with]|rewrite join_cons2]; unfold member_text, jq;
        cbn [app]; eauto. }
    destruct Hhead as (t & Et). rewrite Et. unfold skip_ws. cbn [drop_while].
    change (is_json_ws c_quote) with false. cbv iota. ground_eqb. cbv iota. rewrite <- Et.
    rewrite (PM ms nd Hms Hne fu d rest []); [reflexivity|exact Hnd|lia|lia].
  Qed.

  (* ---------- a whole line ---------- *)
  Lemma parse_json_line vt v tail nd : PVany nd vt v -> (nd <= serde_depth)%nat -> skip_ws tail = [] ->
    parse_json f (vt ++ tail) = Some v.
  Proof.
    intros H Hd Ht. unfold parse_json. rewrite H; [rewrite Ht; reflexivity| |exact Hd].
    unfold json_fuel. rewrite app_length. lia.
  Qed.
End Render.

(* ---------- the renderers of Cli/Escape.v are such texts ---------- *)
Section Lines.
  Variable f : text -> option Z.
  Variable arms : list (N * N * list N).
  Hypothesis Harms : arms_ok arms = true.
  Variable help_mode : N.
  Variable help_msg : text.
  Hypothesis Hhelp : forallb plainb help_msg = true.
  Let esc := escape_json_string_gen arms.
  Let PV := PV f.
  Let PVany := PVany f.

  Ltac same_text := cbn [app T jq nl map join_with member_text sep_comma_space]; simpl;
                    repeat (rewrite <- app_assoc; simpl); reflexivity.

  Lemma line_obj1 k vt v nd tail : forallb plainb k = true -> PV nd vt v ->
    (S nd <= serde_depth)%nat -> skip_ws tail = [] ->
    parse_json f ((c_lbrace :: jq k ++ [c_colon; c_space] ++ vt ++ [c_rbrace]) ++ tail)
    = Some (JObj [(k, v)]).
  Proof.
    intros Hk Hv Hd Ht.
    pose proof (PV_object f [(k, vt, v)] nd) as H. cbn [map join_with member_text member_kv member_key] in H.
    rewrite <- app_assoc in H.
    eapply parse_json_line; [apply H| |exact Ht]; [|discriminate| |exact Hd].
    - constructor; [split; assumption|constructor].
    - constructor; [intros []|constructor].
  Qed.

  Definition strings_items (l : list text) : list text := map (fun t => jq (esc t)) l.

  Lemma strings_items_PV l : Forall2 (PV 0) (strings_items l) (map JStr l).
  Proof.
    induction l as [|t l IH]; cbn [strings_items map]; constructor; [|exact IH].
    apply PVany_PV. apply (PV_string f arms Harms).
  Qed.

  Lemma strings_items_start l : Forall (starts_value) (strings_items l).
  Proof.
    induction l as [|t l IH]; cbn [strings_items map]; constructor; [|exact IH].
    unfold jq. eexists _, _. repeat split; reflexivity.
  Qed.

  Lemma strings_array_PV l :
    PV 1 (c_lbracket :: render_strings esc l ++ [c_rbracket]) (JArr (map JStr l)).
  Proof.
    apply PVany_PV. unfold render_strings. fold (strings_items l).
    apply PV_array; [apply strings_items_PV|apply strings_items_start].
  Qed.

  Lemma replace_quote_plain s : forallb plainb s = true -> replace_quote s = s.
  Proof.
    induction s as [|c s IH]; [reflexivity|]. cbn [forallb]. intros H. apply andb_prop in H as [Hc Hs].
    unfold replace_quote in *. cbn [flat_map]. rewrite (IH Hs).
    unfold plainb in Hc. apply andb_prop in Hc as [Hc _]. apply andb_prop in Hc as [Hc _].
    apply negb_true_iff in Hc. rewrite Hc. reflexivity.
  Qed.

  (* one choice *)
  Lemma choice_PV c : PV 2 (render_choice arms c) (choice_payload c).
  Proof.
    destruct c as [t tags]. apply PVany_PV. unfold render_choice, choice_payload. fold esc.
    destruct tags as [|tg tags].
    - pose proof (PV_object f [(T "text", jq (esc t), JStr t)] 1) as H.
      cbn [map join_with member_text member_kv member_key] in H.
      replace (T "{""text"": """ ++ esc t ++ T """}")
        with (c_lbrace :: (jq (T "text") ++ [c_colon; c_space] ++ jq (esc t)) ++ [c_rbrace])
        by same_text.
      apply H; [|discriminate|].
      + constructor; [|constructor]. split; [reflexivity|].
        apply (PV_depth f 0); [lia|]. apply PVany_PV, (PV_string f arms Harms).
      + constructor; [intros []|constructor].
    - set (tl := tg :: tags). set (cnt := show_N (N.of_nat (length tl))).
      pose proof (PV_object f [(T "text", jq (esc t), JStr t);
                               (T "tags", c_lbracket :: render_strings esc tl ++ [c_rbracket], JArr (map JStr tl));
                               (T "tag_count", cnt, JInt (Z.of_nat (length tl)))] 1) as H.
      cbn [map member_kv member_key] in H.
      assert (E : forall a b c v1 v2 v3,
        T "{""text"": """ ++ a ++ T """, ""tags"": [" ++ b ++ T "], ""tag_count"": " ++ c ++ T "}"
        = c_lbrace :: join_with sep_comma_space
            (map member_text [(T "text", jq a, v1); (T "tags", c_lbracket :: b ++ [c_rbracket], v2);
                              (T "tag_count", c, v3)]) ++ [c_rbrace]) by (intros; same_text).
      rewrite (E _ _ _ (JStr t) (JArr (map JStr tl)) (JInt (Z.of_nat (length tl)))).
      apply H; [|discriminate|].
      + constructor; [|constructor; [|constructor; [|constructor]]].
        * split; [reflexivity|]. apply (PV_depth f 0); [lia|]. apply PVany_PV, (PV_string f arms Harms).
        * split; [reflexivity|]. apply strings_array_PV.
        * split; [reflexivity|]. apply (PV_depth f 0); [lia|].
          unfold cnt. rewrite <- nat_N_Z. apply PV_nat.
      + repeat constructor; cbn [In]; intuition discriminate.
  Qed.

  Lemma choices_items_PV cs : Forall2 (PV 2) (map (render_choice arms) cs) (map choice_payload cs).
  Proof. induction cs as [|c cs IH]; cbn [map]; constructor; [apply choice_PV|exact IH]. Qed.

  Lemma choices_items_start cs : Forall starts_value (map (render_choice arms) cs).
  Proof.
    induction cs as [|[t tags] cs IH]; cbn [map]; constructor; [|exact IH].
    unfold render_choice. destruct tags; eexists _, _; repeat split; reflexivity.
  Qed.

  Lemma rendered_line m :
    parse_json f (render_json_gen arms 1 help_mode help_msg m)
    = Some (JObj [(msg_key m, msg_payload_gen help_msg m)]).
  Proof.
    destruct m as [s|tags|cs|msgs|path err| | | |]; cbn [render_json_gen msg_key msg_payload_gen]; fold esc.
    - (* text *)
      replace (T "{""text"": """ ++ esc s ++ T """}" ++ nl)
        with ((c_lbrace :: jq (T "text") ++ [c_colon; c_space] ++ jq (esc s) ++ [c_rbrace]) ++ nl) by same_text.
      apply line_obj1 with (nd := 0%nat); [reflexivity| |unfold serde_depth; lia|reflexivity].
      apply PVany_PV, (PV_string f arms Harms).
    - (* tags *)
      replace (T "{""tags"": [" ++ render_strings esc tags ++ T "]}" ++ nl)
        with ((c_lbrace :: jq (T "tags") ++ [c_colon; c_space]
               ++ (c_lbracket :: render_strings esc tags ++ [c_rbracket]) ++ [c_rbrace]) ++ nl) by same_text.
      apply line_obj1 with (nd := 1%nat); [reflexivity|apply strings_array_PV|unfold serde_depth; lia|reflexivity].
    - (* choices *)
      replace (T "{""choices"": [" ++ join_with sep_comma_space (map (render_choice arms) cs) ++ T "]}" ++ nl)
        with ((c_lbrace :: jq (T "choices") ++ [c_colon; c_space]
               ++ (c_lbracket :: join_with sep_comma_space (map (render_choice arms) cs) ++ [c_rbracket])
               ++ [c_rbrace]) ++ nl) by same_text.
      apply line_obj1 with (nd := 3%nat); [reflexivity| |unfold serde_depth; lia|reflexivity].
      apply PVany_PV, PV_array; [apply choices_items_PV|apply choices_items_start].
    - (* issues *)
      replace (T "{""issues"": [" ++ render_strings esc msgs ++ T "]}" ++ nl)
        with ((c_lbrace :: jq (T "issues") ++ [c_colon; c_space]
               ++ (c_lbracket :: render_strings esc msgs ++ [c_rbracket]) ++ [c_rbrace]) ++ nl) by same_text.
      apply line_obj1 with (nd := 1%nat); [reflexivity|apply strings_array_PV|unfold serde_depth; lia|reflexivity].
    - (* failed divert *)
      change (N.eqb 1 0) with false. cbv iota.
      replace (T "{""issues"": [""" ++ esc (divert_message path err) ++ T """]}" ++ nl)
        with ((c_lbrace :: jq (T "issues") ++ [c_colon; c_space]
               ++ (c_lbracket :: render_strings esc [divert_message path err] ++ [c_rbracket]) ++ [c_rbrace]) ++ nl)
        by (unfold render_strings; same_text).
      apply line_obj1 with (nd := 1%nat); [reflexivity| |unfold serde_depth; lia|reflexivity].
      apply (strings_array_PV [divert_message path err]).
    - (* help *)
      replace (T "{""cmdOutput"": """ ++ (if N.eqb help_mode 0 then replace_quote help_msg else esc help_msg)
               ++ T """}" ++ nl)
        with ((c_lbrace :: jq (T "cmdOutput") ++ [c_colon; c_space]
               ++ jq (if N.eqb help_mode 0 then replace_quote help_msg else esc help_msg) ++ [c_rbrace]) ++ nl)
        by same_text.
      apply line_obj1 with (nd := 0%nat); [reflexivity| |unfold serde_depth; lia|reflexivity].
      apply PVany_PV. destruct (N.eqb help_mode 0).
      + rewrite (replace_quote_plain _ Hhelp). apply PV_plain_string, Hhelp.
      + apply (PV_string f arms Harms).
    - (* needInput: no newline *)
      replace (T "{""needInput"": true}")
        with ((c_lbrace :: jq (T "needInput") ++ [c_colon; c_space] ++ T "true" ++ [c_rbrace]) ++ []) by same_text.
      apply line_obj1 with (nd := 0%nat); [reflexivity| |unfold serde_depth; lia|reflexivity].
      apply PVany_PV, PV_true.
    - replace (T "{""end"": true}" ++ nl)
        with ((c_lbrace :: jq (T "end") ++ [c_colon; c_space] ++ T "true" ++ [c_rbrace]) ++ nl) by same_text.
      apply line_obj1 with (nd := 0%nat); [reflexivity| |unfold serde_depth; lia|reflexivity].
      apply PVany_PV, PV_true.
    - replace (T "{""close"": true}" ++ nl)
        with ((c_lbrace :: jq (T "close") ++ [c_colon; c_space] ++ T "true" ++ [c_rbrace]) ++ nl) by same_text.
      apply line_obj1 with (nd := 0%nat); [reflexivity| |unfold serde_depth; lia|reflexivity].
      apply PVany_PV, PV_true.
  Qed.
End Lines.

(* ---------- the unescaped failed-divert line (divert mode 0) is refuted ---------- *)
(* whatever the escape arms are: the user's path is interpolated raw *)
Lemma divert_mode0_refuted f arms hm msg :
  parse_json f (render_json_gen arms 0 hm msg (MDivertIssue [c_quote] [])) = None.
Proof. reflexivity. Qed.
