(* Cli/EscapeRun.v — executable entry points of the command-line model for the
   correspondence check tools/props/c20.py. *)
From Ink.Data Require Import Types.
From Ink.Json Require Import JsonStd.
From Ink.Cli Require Import Escape.

(* expected standard output of a -j session: the messages in order *)
Definition run_render (ms : list cli_msg) : text := flat_map render_json ms.

(* classification of one raw input line, as harness/playdrive.rs takes it *)
Definition run_input (raw : text) : text :=
  match trim raw with
  | [] => T "blank"
  | t =>
      match parse_input t with
      | IChoice i => T "choice " ++ show_N i
      | IDivert p => T "divert " ++ quote_text p
      | IHelp => T "help"
      | IExit => T "exit"
      | IUnknown => T "unknown"
      end
  end.

Definition run_escape (s : text) : text := escape_json_string s.
Definition run_bad_chars : text := cli_bad_chars.

(* what a consumer reads back from one message, in the canonical form of JsonStd.show_json *)
Definition run_msg_json (m : cli_msg) : text := show_json (msg_json m).
Definition run_parse_line (f32tab : list (text * Z)) (line : text) : text :=
  match parse_json (fun t => assoc t f32tab) line with
  | Some j => show_json j
  | None => T "err"
  end.
