(* Cli/Escape.v — the command-line model (Cli/EscapeCore.v) instantiated with
   the tables REGENERATED from rinklecate/src/player.rs (Gen/CliGen.v): the
   match arms of escape_json_string, how the failed-divert line and the help
   line interpolate their arguments, the help text.  Model file: no proofs. *)
From Ink.Data Require Import Types.
From Ink.Json Require Import JsonStd.
From Ink.Cli Require Export EscapeCore.
From Ink.Gen Require Import CliGen.

(* player.rs:escape_json_string *)
Definition escape_json_string (s : text) : text := escape_json_string_gen cli_escape_arms s.
Definition cli_bad_chars : list N := cli_bad_chars_gen cli_escape_arms.

(* what the player writes for a message in -j mode *)
Definition render_json (m : cli_msg) : text :=
  render_json_gen cli_escape_arms cli_divert_mode cli_help_mode cli_help_msg m.

(* what a consumer must read back: the single key and its value *)
Definition msg_payload (m : cli_msg) : json := msg_payload_gen cli_help_msg m.
Definition msg_json (m : cli_msg) : json := JObj [(msg_key m, msg_payload m)].
