(* Cli/EscapeCore.v — model of the JSON-mode output side and the input parser of
   rinklecate/src/player.rs.  Model file: no proofs.

     escape_json_string   generic in its match arms [arms], interpreted in order;
                          Cli/Escape.v instantiates them with the REGENERATED
                          table Gen/CliGen.v (cli_escape_arms)
     render_json          one function from a message to the characters the
                          player writes for it in -j mode (println!/print!)
     parse_input          player.rs:parse_input
   The format literals written here are compared with the literals of the
   source by Cli/CliTie.v (cli_json_formats is regenerated on every run).   *)
From Ink.Data Require Import Types.
From Ink.Json Require Import JsonStd.

(* format!("\\u{:04x}", c as u32): lower-case hex, zero-padded to four digits *)
Definition u04x (c : N) : text :=
  if c <? 65536 then
    [c_bslash; c_u; hex_lower (c / 4096); hex_lower ((c / 256) mod 16);
     hex_lower ((c / 16) mod 16); hex_lower (c mod 16)]
  else [c_bslash; c_u] ++ show_hex c.

(* the arms of `match c` in source order; a Rust match is exhaustive and the
   generator insists that the last arm is the catch-all `c => out.push(c)`,
   so the [] case is never reached with a generated table *)
Fixpoint escape_char_arms (arms : list (N * N * list N)) (c : N) : text :=
  match arms with
  | [] => [c]
  | (k, p, s) :: r =>
      if N.eqb k 0 then (if N.eqb c p then s else escape_char_arms r c)
      else if N.eqb k 1 then (if c <? p then u04x c else escape_char_arms r c)
      else [c]
  end.

Definition escape_json_string_gen (arms : list (N * N * list N)) (s : text) : text :=
  flat_map (escape_char_arms arms) s.


(* the characters (below 128) that do NOT survive escape + strict parse: what
   the checks replay on the binary when the round-trip theorem fails *)
Fixpoint char_range (n : nat) : list N :=
  match n with O => [] | S k => char_range k ++ [N.of_nat k] end.
Definition char_roundtrips (arms : list (N * N * list N)) (c : N) : bool :=
  match parse_string (quote (escape_json_string_gen arms [c])) with
  | Some [c'] => N.eqb c' c
  | _ => false
  end.
Definition cli_bad_chars_gen (arms : list (N * N * list N)) : list N :=
  filter (fun c => negb (char_roundtrips arms c)) (char_range 128).

(* `s.replace('"', "\\\"")` *)
Definition replace_quote (s : text) : text :=
  flat_map (fun c => if N.eqb c c_quote then [c_bslash; c_quote] else [c]) s.

(* ---------- messages of the JSON protocol ---------- *)
Inductive cli_msg :=
| MText (s : text)                          (* evaluate_story: one line of story text *)
| MTags (tags : list text)                  (* evaluate_story: tags of that line (non-empty) *)
| MChoices (cs : list (text * list text))   (* print_choices_json: text, tags *)
| MIssues (msgs : list text)                (* flush_messages: warnings then errors *)
| MDivertIssue (path err : text)            (* play: choose_path_string failed *)
| MCmdOutput                                (* play: help *)
| MNeedInput                                (* print!, no newline *)
| MEnd
| MClose.

Definition nl : text := [c_nl].
Definition jq (body : text) : text := c_quote :: body ++ [c_quote].   (* format!("\"{}\"", ..) *)
Definition sep_comma_space : text := [c_comma; c_space].              (* .join(", ") *)

Definition render_strings (esc : text -> text) (l : list text) : text :=
  join_with sep_comma_space (map (fun t => jq (esc t)) l).

Definition divert_message (path err : text) : text :=
  T "Error diverting to '" ++ path ++ T "': " ++ err.

Section Render.
  Variable arms : list (N * N * list N).
  Variable divert_mode help_mode : N.
  Variable help_msg : text.
  Let esc := escape_json_string_gen arms.

  Definition render_choice (c : text * list text) : text :=
    let (t, tags) := c in
    match tags with
    | [] => T "{""text"": """ ++ esc t ++ T """}"
    | _ => T "{""text"": """ ++ esc t ++ T """, ""tags"": [" ++ render_strings esc tags
           ++ T "], ""tag_count"": " ++ show_N (N.of_nat (length tags)) ++ T "}"
    end.

  Definition render_json_gen (m : cli_msg) : text :=
    match m with
    | MText s => T "{""text"": """ ++ esc s ++ T """}" ++ nl
    | MTags tags => T "{""tags"": [" ++ render_strings esc tags ++ T "]}" ++ nl
    | MChoices cs =>
        T "{""choices"": [" ++ join_with sep_comma_space (map render_choice cs) ++ T "]}" ++ nl
    | MIssues msgs => T "{""issues"": [" ++ render_strings esc msgs ++ T "]}" ++ nl
    | MDivertIssue path err =>
        if N.eqb divert_mode 0 then
          (* println!("{{\"issues\": [\"Error diverting to '{}': {}\"]}}", path,
                      e.to_string().replace('"', "\\\"")) *)
          T "{""issues"": [""Error diverting to '" ++ path ++ T "': " ++ replace_quote err
          ++ T """]}" ++ nl
        else
          T "{""issues"": [""" ++ esc (divert_message path err) ++ T """]}" ++ nl
    | MCmdOutput =>
        T "{""cmdOutput"": """
        ++ (if N.eqb help_mode 0 then replace_quote help_msg else esc help_msg)
        ++ T """}" ++ nl
    | MNeedInput => T "{""needInput"": true}"
    | MEnd => T "{""end"": true}" ++ nl
    | MClose => T "{""close"": true}" ++ nl
    end.
End Render.


(* what a consumer must read back: the single key and its value *)
Definition msg_key (m : cli_msg) : text :=
  match m with
  | MText _ => T "text" | MTags _ => T "tags" | MChoices _ => T "choices"
  | MIssues _ | MDivertIssue _ _ => T "issues" | MCmdOutput => T "cmdOutput"
  | MNeedInput => T "needInput" | MEnd => T "end" | MClose => T "close"
  end.

Definition choice_payload (c : text * list text) : json :=
  let (t, tags) := c in
  match tags with
  | [] => JObj [(T "text", JStr t)]
  | _ => JObj [(T "text", JStr t); (T "tags", JArr (map JStr tags));
               (T "tag_count", JInt (Z.of_nat (length tags)))]
  end.

Definition msg_payload_gen (help_msg : text) (m : cli_msg) : json :=
  match m with
  | MText s => JStr s
  | MTags tags => JArr (map JStr tags)
  | MChoices cs => JArr (map choice_payload cs)
  | MIssues msgs => JArr (map JStr msgs)
  | MDivertIssue path err => JArr [JStr (divert_message path err)]
  | MCmdOutput => JStr help_msg
  | MNeedInput | MEnd | MClose => JBool true
  end.


(* the format literals render_json is written with, in the order in which the
   source has them (compared with Gen/CliGen.cli_json_formats by Cli/CliTie.v) *)
Definition expected_formats (divert_mode : N) : list (list text) :=
  [ [T "{""end"": true}"]; [T "{""needInput"": true}"]; [T "{""close"": true}"] ]
  ++ (if N.eqb divert_mode 0
      then [ [T "{""issues"": [""Error diverting to '"; T "': "; T """]}"] ]
      else [ [T "{""issues"": ["""; T """]}"]; [T "Error diverting to '"; T "': "; []] ])
  ++ [ [T "{""cmdOutput"": """; T """}"];
       [T "{""text"": """; T """}"];
       [T """"; T """"];
       [T "{""tags"": ["; T "]}"];
       [T """"; T """"];
       [T "{""issues"": ["; T "]}"];
       [T "{""text"": """; T """}"];
       [T """"; T """"];
       [T "{""text"": """; T """, ""tags"": ["; T "], ""tag_count"": "; T "}"];
       [T "{""choices"": ["; T "]}"] ].

(* ---------- input ---------- *)
Inductive input_result :=
| IChoice (idx : N) | IDivert (path : text) | IHelp | IExit | IUnknown.

(* str::to_lowercase is full Unicode lower-casing.  Its result is only ever
   compared with the ASCII words quit / exit / help.  The only non-ASCII scalar
   value whose lower-case expansion is pure ASCII is U+212A KELVIN SIGN (-> k),
   and k occurs in none of the three words, so for these comparisons ASCII
   lower-casing gives the same answer.  (U+0130 lower-cases to i + U+0307.)
   The differential check feeds such inputs to the real binary. *)
Definition ascii_lower (c : N) : N := if (65 <=? c) && (c <=? 90) then c + 32 else c.
Definition lower_is (input kw : text) : bool := text_eqb (map ascii_lower input) kw.

(* str::split_whitespace: maximal runs of non-White_Space characters *)
Fixpoint split_ws_aux (t : text) (cur : text) : list text :=
  match t with
  | [] => match cur with [] => [] | _ => [rev cur] end
  | c :: r =>
      if is_unicode_ws c then
        match cur with [] => split_ws_aux r [] | _ => rev cur :: split_ws_aux r [] end
      else split_ws_aux r (c :: cur)
  end.
Definition split_whitespace (t : text) : list text := split_ws_aux t [].

(* player.rs:parse_input *)
Definition parse_input (input : text) : input_result :=
  if lower_is input (T "quit") || lower_is input (T "exit") then IExit
  else if lower_is input (T "help") then IHelp
  else
    match split_whitespace input with
    | [w0; w1] =>
        if text_eqb w0 (T "->") then IDivert w1
        else match parse_usize (trim input) with
             | Some n => if 1 <=? n then IChoice (n - 1) else IUnknown
             | None => IUnknown
             end
    | _ =>
        match parse_usize (trim input) with
        | Some n => if 1 <=? n then IChoice (n - 1) else IUnknown
        | None => IUnknown
        end
    end.

(* what the loop does with one line of input (player.rs:play, inner loop):
   the line is trimmed; a blank line asks again without any output *)
Inductive line_action :=
| LAgain                    (* blank, unknown, out-of-range number: ask again *)
| LChoose (idx : N)
| LDivert (path : text)
| LHelp
| LQuit.

Definition line_action_of (nchoices : N) (raw : text) : line_action :=
  let t := trim raw in
  match t with
  | [] => LAgain
  | _ =>
      match parse_input t with
      | IChoice i => if nchoices <=? i then LAgain else LChoose i
      | IDivert p => LDivert p
      | IHelp => LHelp
      | IExit => LQuit
      | IUnknown => LAgain
      end
  end.

(* ---------- the play loop: SLOT ----------
   Statement to be proved once the engine model (Shell/Story.v) exists:

     Theorem player_matches_library : forall story inputs mode,
       shown (Player.play mode story inputs)
       = library_transcript story (choices_of story inputs).

   where Player.play is the loop of player.rs:play (evaluate_story until
   !can_continue; flush_messages after every line; print choices; read lines
   with [line_action_of]; choose_choice_index / choose_path_string), [shown]
   keeps the text / tags / choices messages and [library_transcript] is
   cont / get_current_tags / get_current_choices of the model story driven by
   the same choice indices and diverts.  Until then this equivalence is covered
   by the differential check tools/props/c20.py (real binary vs inkdrive on the
   library), and the pieces the loop is made of are modelled above.          *)
