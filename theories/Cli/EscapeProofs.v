(* Cli/EscapeProofs.v — lemmas about the command-line model Cli/Escape.v. *)
From Ink.Data Require Import Types.
From Ink.Json Require Import JsonStd JsonStdProofs.
From Ink.Cli Require Import EscapeCore.
From Coq Require Import Lia.

(* ---------- escape_json_string ---------- *)
(* the arms are good when (1) for every character below 128 what they write
   denotes that character (finite sweep) and (2) no arm can fire at or above 128 *)
Definition arm_low (a : N * N * list N) : bool :=
  let '(k, p, _) := a in
  if N.eqb k 0 then p <? 128 else if N.eqb k 1 then p <=? 128 else true.
Definition arms_ok (arms : list (N * N * list N)) : bool :=
  forallb (fun c => esc_denotes (escape_char_arms arms c) c) (N_range 128)
  && forallb arm_low arms.

Lemma escape_char_high arms c : forallb arm_low arms = true -> 128 <= c ->
  escape_char_arms arms c = [c].
Proof.
  intros H Hc. induction arms as [|[[k p] s] arms IH]; [reflexivity|].
  cbn [forallb] in H. apply andb_prop in H as [Ha H]. cbn [escape_char_arms].
  unfold arm_low in Ha.
  destruct (N.eqb k 0).
  - apply N.ltb_lt in Ha. destruct (N.eqb_spec c p) as [->|_]; [lia|]. now apply IH.
  - destruct (N.eqb k 1); [|reflexivity].
    apply N.leb_le in Ha. destruct (N.ltb_spec c p); [lia|]. now apply IH.
Qed.

Lemma plain_denotes c : 128 <= c -> esc_denotes [c] c = true.
Proof.
  intros Hc. cbn [esc_denotes]. rewrite N.eqb_refl.
  destruct (N.eqb_spec c c_quote) as [E|_]; [unfold c_quote in E; lia|].
  destruct (N.eqb_spec c c_bslash) as [E|_]; [unfold c_bslash in E; lia|].
  destruct (N.ltb_spec c 32); [lia|]. reflexivity.
Qed.

Lemma escape_char_denotes arms : arms_ok arms = true ->
  forall c, esc_denotes (escape_char_arms arms c) c = true.
Proof.
  intros H c. unfold arms_ok in H. apply andb_prop in H as [Hlow Hhigh].
  destruct (N.ltb_spec c 128) as [Hc|Hc].
  - exact (forallb_range _ 128 Hlow c Hc).
  - rewrite (escape_char_high _ _ Hhigh Hc). now apply plain_denotes.
Qed.

Section GoodArms.
  Variable arms : list (N * N * list N).
  Hypothesis Harms : arms_ok arms = true.
  Let esc := escape_json_string_gen arms.

  Lemma unescape_escape s : unescape (esc s) = Some s.
  Proof. exact (printer_roundtrip _ (escape_char_denotes arms Harms) s). Qed.

  Lemma escape_roundtrip_gen s : parse_string (quote (esc s)) = Some s.
  Proof. apply parse_string_quote, unescape_escape. Qed.

  Lemma lex_escape s rest : lex_string (esc s ++ c_quote :: rest) = Some (s, rest).
  Proof. apply lex_string_unescape, unescape_escape. Qed.
End GoodArms.

(* the characters the arms get wrong refute the round trip, whatever the arms are *)
Lemma bad_char_refutes arms c : In c (cli_bad_chars_gen arms) ->
  parse_string (quote (escape_json_string_gen arms [c])) <> Some [c].
Proof.
  unfold cli_bad_chars_gen. intros H. apply filter_In in H as [_ H].
  apply negb_true_iff in H. unfold char_roundtrips in H.
  intros E. rewrite E, N.eqb_refl in H. discriminate.
Qed.

(* ---------- parse_input ---------- *)
From Ink.Data Require Import PathProofs.

Definition no_ws (t : text) : Prop := Forall (fun c => is_unicode_ws c = false) t.

Lemma split_ws_aux_nows p cur : no_ws p -> rev cur ++ p <> [] ->
  split_ws_aux p cur = [rev cur ++ p].
Proof.
  intros Hp. revert cur. induction Hp as [|c p Hc _ IH]; intros cur Hne.
  - cbn [split_ws_aux]. rewrite app_nil_r in *. destruct cur as [|x cur]; [cbn in Hne; congruence|reflexivity].
  - cbn [split_ws_aux]. rewrite Hc.
    rewrite (IH (c :: cur)); cbn [rev]; rewrite <- app_assoc; cbn [app]; [reflexivity|].
    intros E. apply app_eq_nil in E as [_ E]. discriminate.
Qed.

Lemma split_whitespace_word t : no_ws t -> t <> [] -> split_whitespace t = [t].
Proof. intros H Hne. unfold split_whitespace. now rewrite (split_ws_aux_nows t [] H). Qed.

Lemma trim_nows t : no_ws t -> trim t = t.
Proof.
  intros H. unfold trim, trim_start, trim_end.
  assert (Hdw : forall l, no_ws l -> drop_while is_unicode_ws l = l).
  { intros l Hl. destruct Hl as [|c l Hc _]; [reflexivity|]. cbn [drop_while]. rewrite Hc. reflexivity. }
  rewrite (Hdw _ H). rewrite Hdw; [apply rev_involutive|].
  apply Forall_forall. intros x Hx. apply in_rev in Hx.
  unfold no_ws in H. rewrite Forall_forall in H. now apply H.
Qed.

Lemma digits_no_ws t : all_digits t -> no_ws t.
Proof.
  intros H. eapply Forall_impl; [|exact H]. intros c Hc. cbv beta in Hc.
  unfold is_unicode_ws.
  repeat match goal with
  | |- context [N.eqb c ?k] => destruct (N.eqb_spec c k); [lia|]
  | |- context [N.leb ?a ?b] => destruct (N.leb_spec a b); try lia
  end; reflexivity.
Qed.

Lemma digits_not_keyword t kw : all_digits t -> t <> [] ->
  (forall c, In c kw -> 97 <= c) -> lower_is t kw = false.
Proof.
  intros Hd Hne Hkw. destruct t as [|c t]; [congruence|].
  unfold lower_is. cbn [map]. destruct kw as [|k kw]; [reflexivity|].
  cbn [text_eqb]. assert (Hc : 48 <= c <= 57) by (inversion Hd; assumption).
  assert (Hk : 97 <= k) by (apply Hkw; now left).
  unfold ascii_lower. destruct ((65 <=? c) && (c <=? 90)) eqn:E.
  - apply andb_prop in E as [E _]. apply N.leb_le in E. lia.
  - destruct (N.eqb_spec c k); [lia|reflexivity].
Qed.

(* 1-based numerals select the choice with that number *)
Lemma parse_input_number i : i < 18446744073709551615 -> parse_input (show_N (i + 1)) = IChoice i.
Proof.
  intros Hi. pose proof (show_N_digits (i + 1)) as Hd. pose proof (show_N_nonempty (i + 1)) as Hne.
  unfold parse_input.
  rewrite !(digits_not_keyword _ _ Hd Hne);
    try (intros c Hc; cbn in Hc; repeat (destruct Hc as [<-|Hc]; [lia|]); contradiction).
  cbn [orb]. rewrite (split_whitespace_word _ (digits_no_ws _ Hd) Hne).
  rewrite (trim_nows _ (digits_no_ws _ Hd)), parse_usize_show by lia.
  destruct (N.leb_spec 1 (i + 1)); [|lia]. f_equal. lia.
Qed.

(* `-> path` diverts *)
Lemma parse_input_divert p : p <> [] -> no_ws p -> parse_input (T "-> " ++ p) = IDivert p.
Proof.
  intros Hne Hp. unfold parse_input, lower_is. cbn [T app map]. cbn [text_eqb].
  change (ascii_lower (N_of_ascii "-")) with 45.
  change (N.eqb 45 (N_of_ascii "q")) with false. change (N.eqb 45 (N_of_ascii "e")) with false.
  change (N.eqb 45 (N_of_ascii "h")) with false. cbn [andb orb].
  unfold split_whitespace. cbn [split_ws_aux].
  change (is_unicode_ws (N_of_ascii "-")) with false. change (is_unicode_ws (N_of_ascii ">")) with false.
  change (is_unicode_ws (N_of_ascii " ")) with true. cbv iota. cbn [rev app].
  rewrite (split_ws_aux_nows p [] Hp) by (cbn [rev app]; exact Hne).
  cbn [rev app]. reflexivity.
Qed.

(* quit / exit / help in any letter case *)
Lemma parse_input_keywords t :
  (map ascii_lower t = T "quit" \/ map ascii_lower t = T "exit" -> parse_input t = IExit)
  /\ (map ascii_lower t = T "help" -> parse_input t = IHelp).
Proof.
  unfold parse_input, lower_is. split.
  - intros [E|E]; rewrite E; reflexivity.
  - intros E. rewrite E. reflexivity.
Qed.

(* nothing else is ever taken for a choice or a divert *)
Lemma parse_input_sound t :
  (forall i, parse_input t = IChoice i -> parse_usize (trim t) = Some (i + 1))
  /\ (forall p, parse_input t = IDivert p -> split_whitespace t = [T "->"; p]).
Proof.
  unfold parse_input.
  destruct (lower_is t (T "quit") || lower_is t (T "exit")); [split; intros; discriminate|].
  destruct (lower_is t (T "help")); [split; intros; discriminate|].
  assert (Hnum : forall i,
    match parse_usize (trim t) with
    | Some n => if 1 <=? n then IChoice (n - 1) else IUnknown
    | None => IUnknown
    end = IChoice i -> parse_usize (trim t) = Some (i + 1)).
  { intros i. destruct (parse_usize (trim t)) as [n|]; [|discriminate].
    destruct (N.leb_spec 1 n); [|discriminate]. intros E. injection E as <-. f_equal. lia. }
  assert (Hnod : forall p,
    match parse_usize (trim t) with
    | Some n => if 1 <=? n then IChoice (n - 1) else IUnknown
    | None => IUnknown
    end <> IDivert p).
  { intros p. destruct (parse_usize (trim t)) as [n|]; [|discriminate].
    destruct (1 <=? n); discriminate. }
  destruct (split_whitespace t) as [|w0 [|w1 [|w2 ws]]]; split; intros x H;
    try (now apply Hnum); try (now apply Hnod in H).
  - destruct (text_eqb w0 (T "->")); [discriminate|now apply Hnum].
  - destruct (text_eqb w0 (T "->")) eqn:E; [|now apply Hnod in H].
    injection H as <-. apply text_eqb_eq in E. now subst.
Qed.

Example parse_input_examples :
  parse_input (T "3") = IChoice 2 /\ parse_input (T "+1") = IChoice 0 /\ parse_input (T "0") = IUnknown
  /\ parse_input (T "->  knot.stitch") = IDivert (T "knot.stitch") /\ parse_input (T "QuIt") = IExit
  /\ parse_input (T "1 2") = IUnknown /\ parse_input (T "-> a b") = IUnknown.
Proof. repeat split; reflexivity. Qed.
