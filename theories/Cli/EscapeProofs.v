(* Cli/EscapeProofs.v — lemmas about the command-line model Cli/Escape.v. *)
From Ink.Data Require Import Types.
From Ink.Json Require Import JsonStd JsonStdProofs.
From Ink.Cli Require Import Escape.
From Coq Require Import Lia.

(* ---------- escape_json_string ---------- *)
(* the arms are good when (1) for every character below 128 what they write
   denotes that character (finite sweep) and (2) no arm can fire at or above 128 *)
Definition arm_low (a : N * N * list N) : bool :=
  let '(k, p, _) := a in
  if N.eqb k 0 then p <? 128 else if N.eqb k 1 then p <=? 128 else true.
Definition arms_ok (arms : list (N * N * list N)) : bool :=
  forallb (fun c => esc_denotes (escape_char_arms arms c) c) (N_range 128)
  && forallb arm_low arms.

Lemma escape_char_high arms c : forallb arm_low arms = true -> 128 <= c ->
  escape_char_arms arms c = [c].
Proof.
  intros H Hc. induction arms as [|[[k p] s] arms IH]; [reflexivity|].
  cbn [forallb] in H. apply andb_prop in H as [Ha H]. cbn [escape_char_arms].
  unfold arm_low in Ha.
  destruct (N.eqb k 0).
  - apply N.ltb_lt in Ha. destruct (N.eqb_spec c p) as [->|_]; [lia|]. now apply IH.
  - destruct (N.eqb k 1); [|reflexivity].
    apply N.leb_le in Ha. destruct (N.ltb_spec c p); [lia|]. now apply IH.
Qed.

Lemma plain_denotes c : 128 <= c -> esc_denotes [c] c = true.
Proof.
  intros Hc. cbn [esc_denotes]. rewrite N.eqb_refl.
  destruct (N.eqb_spec c c_quote) as [E|_]; [unfold c_quote in E; lia|].
  destruct (N.eqb_spec c c_bslash) as [E|_]; [unfold c_bslash in E; lia|].
  destruct (N.ltb_spec c 32); [lia|]. reflexivity.
Qed.

Lemma escape_char_denotes arms : arms_ok arms = true ->
  forall c, esc_denotes (escape_char_arms arms c) c = true.
Proof.
  intros H c. unfold arms_ok in H. apply andb_prop in H as [Hlow Hhigh].
  destruct (N.ltb_spec c 128) as [Hc|Hc].
  - exact (forallb_range _ 128 Hlow c Hc).
  - rewrite (escape_char_high _ _ Hhigh Hc). now apply plain_denotes.
Qed.

Section GoodArms.
  Variable arms : list (N * N * list N).
  Hypothesis Harms : arms_ok arms = true.
  Let esc := escape_json_string_gen arms.

  Lemma unescape_escape s : unescape (esc s) = Some s.
  Proof. exact (printer_roundtrip _ (escape_char_denotes arms Harms) s). Qed.

  Lemma escape_roundtrip_gen s : parse_string (quote (esc s)) = Some s.
  Proof. apply parse_string_quote, unescape_escape. Qed.

  Lemma lex_escape s rest : lex_string (esc s ++ c_quote :: rest) = Some (s, rest).
  Proof. apply lex_string_unescape, unescape_escape. Qed.
End GoodArms.

(* the characters the arms get wrong refute the round trip, whatever the arms are *)
Lemma bad_char_refutes arms c : In c (cli_bad_chars_gen arms) ->
  parse_string (quote (escape_json_string_gen arms [c])) <> Some [c].
Proof.
  unfold cli_bad_chars_gen. intros H. apply filter_In in H as [_ H].
  apply negb_true_iff in H. unfold char_roundtrips in H.
  intros E. rewrite E, N.eqb_refl in H. discriminate.
Qed.
