(* Shell/BetweenCalls.v — the invariant of the Story-level bookkeeping between host calls:
       Inv w :=  nesting counter = 0
              /\ (no time-limited continue pending -> no look-ahead snapshot /\ rewind flag clear)
   holds after construction and is preserved by every story operation that does not end in a
   panic.  Consequently `between_calls` (the hypothesis of the reset / rejected-call theorems)
   holds in every reachable world in which no time-limited continue is pending. *)
From Ink.Engine Require Import Api Tie.
From Ink.Shell Require Import Keeps KeepsStep HostFrame NoErr Invariant Balance Slicing ExternalProofs ResetProofs.

Section BetweenCalls.
Variable I : iface.
Variable sw : switches.
Hypothesis Hfirst : sw_cont_check_first sw = true.

Hint Resolve ne_can_continue ne_restore ne_end_of_content ne_clock_tick ne_add_error_msg ne_add_error
  ne_continue_loop ner_vs_complete_observation : noerr.

Definition quiet (w : world) : Prop := w_snapshot w = None /\ w_saw_unsafe w = false.
Definition Inv2 (w : world) : Prop := w_async w = false -> quiet w.

(* observation used for the Keeps facts *)
Definition laf (w : world) := (w_async w, w_snapshot w, w_saw_unsafe w).
Lemma laf_inv2 w w' : laf w' = laf w -> Inv2 w -> Inv2 w'.
Proof. unfold laf, Inv2, quiet. intros E H. injection E as -> -> ->. exact H. Qed.

(* the loop can only come back unfinished (not at a line end, story able to continue) through a
   clock tick, i.e. while a time-limited continue is active *)
Lemma loop_unfinished_async : forall n w w',
  continue_loop I sw n w = (OOk false, w') -> m_can_continue w' = (OOk true, w') -> w_async w' = true.
Proof.
  induction n as [|n IH]; intros w w' Hrun Hcan; [discriminate|].
  rewrite continue_loop_S in Hrun.
  destruct (continue_single_step I sw w) as [[ends|k m|site] w1] eqn:Es; [| |discriminate].
  - destruct ends; [discriminate|].
    unfold mbind at 1 in Hrun.
    destruct ((let* a := gets w_async in if a then clock_tick else ret false) w1) as [[tick| |] w2] eqn:Et; try discriminate.
    unfold mbind, gets in Et.
    destruct (w_async w1) eqn:Ea.
    + (* async: the clock decides *)
      pose proof (clock_tick_keeps w1) as [Hk _]. rewrite Et in Hk. cbn [snd] in Hk.
      destruct tick.
      * cbn in Hrun. injection Hrun as <-. congruence.
      * unfold mbind at 1 in Hrun.
        destruct (can_continue_pure w2) as [o Ho]. rewrite Ho in Hrun.
        destruct o as [can| |]; try discriminate.
        destruct can; cbn in Hrun.
        -- exact (IH _ _ Hrun Hcan).
        -- injection Hrun as <-. rewrite Ho in Hcan. discriminate.
    + cbn in Et. injection Et as <- <-. cbn in Hrun.
      unfold mbind at 1 in Hrun.
      destruct (can_continue_pure w1) as [o Ho]. rewrite Ho in Hrun.
      destruct o as [can| |]; try discriminate.
      destruct can; cbn in Hrun.
      * exact (IH _ _ Hrun Hcan).
      * injection Hrun as <-. rewrite Ho in Hcan. discriminate.
  - destruct (add_error_msg m false w1) as [[[]| |] w2] eqn:Ea; try discriminate.
    injection Hrun as <-.
    pose proof (add_error_cannot_continue m w1 _ _ true Ea Hcan eq_refl). discriminate.
Qed.

(* ---------- generic triple helpers ---------- *)
Lemma ne_triple {A} (P : world -> Prop) (m : M A) (Q : A -> world -> Prop) (E E' : world -> Prop) :
  NoErr m -> triple P m Q E' -> triple P m Q E.
Proof.
  intros Hn Ht w Hw. specialize (Ht w Hw).
  destruct (m w) as [[a|k e|s] w'] eqn:Em; try exact Ht. exfalso. exact (Hn w k e w' Em).
Qed.
Lemma keeps_triple_gen {A X} (f : world -> X) (m : M A) (P : X -> Prop) :
  Keeps f m -> triple (fun w => P (f w)) m (fun _ w => P (f w)) (fun w => P (f w)).
Proof.
  intros Hk w Hw. specialize (Hk w).
  destruct (m w) as [[a|k e|s] w']; cbn [snd] in Hk; try (rewrite Hk; exact Hw). exact Logic.I.
Qed.
Lemma keeps_triple_genT {A X} (f : world -> X) (m : M A) (P : X -> Prop) :
  Keeps f m -> triple (fun w => P (f w)) m (fun _ w => P (f w)) (fun _ => True).
Proof.
  intros Hk w Hw. specialize (Hk w).
  destruct (m w) as [[a|k e|s] w']; cbn [snd] in Hk; try exact Logic.I. rewrite Hk. exact Hw.
Qed.
Lemma triple_true {A} (m : M A) : triple (fun _ => True) m (fun _ _ => True) (fun _ => True).
Proof. intros w _. destruct (m w) as [[a|k e|s] w']; exact Logic.I. Qed.
Lemma triple_pure {A} (m : M A) (P : world -> Prop) :
  (forall w, exists o, m w = (o, w)) ->
  triple P m (fun x w => P w /\ m w = (OOk x, w)) P.
Proof.
  intros Hp w Hw. destruct (Hp w) as [o Ho]. rewrite Ho. destruct o; auto.
Qed.

(* ---------- Keeps facts for (async, snapshot, rewind flag) ---------- *)
Lemma laf_state w g : laf (w <| w_state ::= g |>) = laf w. Proof. destruct w; reflexivity. Qed.
Lemma laf_events w g : laf (w <| w_events ::= g |>) = laf w. Proof. destruct w; reflexivity. Qed.
Lemma laf_fuel w g : laf (w <| w_fuel ::= g |>) = laf w. Proof. destruct w; reflexivity. Qed.
Lemma laf_rcc w g : laf (w <| w_rcc ::= g |>) = laf w. Proof. destruct w; reflexivity. Qed.
Lemma laf_lines w g : laf (w <| w_lines ::= g |>) = laf w. Proof. destruct w; reflexivity. Qed.
Lemma laf_validated w g : laf (w <| w_validated ::= g |>) = laf w. Proof. destruct w; reflexivity. Qed.
Lemma laf_pauses w g : laf (w <| w_pauses ::= g |>) = laf w. Proof. destruct w; reflexivity. Qed.
Lemma laf_pause_left w g : laf (w <| w_pause_left ::= g |>) = laf w. Proof. destruct w; reflexivity. Qed.
Ltac laffacts := first [exact laf_state|exact laf_events|exact laf_fuel|exact laf_rcc|exact laf_lines
                        |exact laf_validated|exact laf_pauses|exact laf_pause_left].

Lemma kl_can : Keeps laf m_can_continue. Proof. apply hk_can_continue; laffacts. Qed.
Lemma kl_eoc : Keeps laf end_of_content_errors. Proof. apply hk_end_of_content; laffacts. Qed.
Lemma kl_deliver : Keeps laf (deliver_errors sw). Proof. apply hk_deliver; laffacts. Qed.
Lemma kl_notify n x : Keeps laf (notify_variable_changed n x). Proof. apply hk_notify; laffacts. Qed.

Lemma inv2_keeps_triple {A} (m : M A) : Keeps laf m -> triple Inv2 m (fun _ => Inv2) Inv2.
Proof.
  intros Hk w Hw. specialize (Hk w).
  destruct (m w) as [[a|k e|s] w']; cbn [snd] in Hk; try exact (laf_inv2 _ _ Hk Hw). exact Logic.I.
Qed.

(* restoring clears the snapshot *)
Lemma restore_clears w o w' : restore_state_snapshot w = (o, w') -> (forall s, o <> OPanic s) -> w_snapshot w' = None.
Proof.
  unfold restore_state_snapshot, mbind, get. intros H Hp.
  destruct (w_snapshot w) as [snap|]; [|cbn in H; injection H as <- _; exfalso; eapply Hp; reflexivity].
  cbn [modify] in H.
  match type of H with m_state_res apply_any_patch ?W = _ =>
    pose proof (keeps_m_state_res w_snapshot (fun w g => ltac:(destruct w; reflexivity)) apply_any_patch W) as Hk end.
  rewrite H in Hk. cbn [snd] in Hk. rewrite Hk. destruct w; reflexivity.
Qed.

Lemma kl_loop_snapfree fuel : Keeps w_async (continue_loop I sw fuel).
Proof.
  apply hk_continue_loop; intros w ?; destruct w; reflexivity.
Qed.

(* what the loop leaves behind, as far as the finishing decision is concerned *)
Definition LoopOut (ends : bool) (w' : world) : Prop :=
  exists n w, continue_loop I sw n w = (OOk ends, w').

Definition Fin (w : world) : Prop := w_async w = false /\ quiet w.
Lemma fin_inv2 w : Fin w -> Inv2 w.
Proof. intros [_ H] _. exact H. Qed.

(* the finishing block of continue_internal establishes Fin *)
Definition finish_block : M (option (list (text * value))) :=
  let* w3 := get in
  let* _ := (match w_snapshot w3 with Some _ => restore_state_snapshot | None => ret tt end) in
  let* can2 := m_can_continue in
  let* _ := when (negb can2) end_of_content_errors in
  let* _ := mod_state (fun s => s <| ss_safe_exit := false |>) in
  let* _ := modify (fun w => w <| w_saw_unsafe := false |>) in
  let* w4 := get in
  let* ch :=
    (if N.eqb (w_rcc w4) 1 then
       let* s := get_state in
       let* (m, v') := lift (vs_complete_observation (ss_vars s)) in
       let* _ := mod_state (fun s => s <| ss_vars := v' |>) in
       ret (Some m)
     else ret None) in
  let* _ := modify (fun w => w <| w_async := false |>) in
  ret ch.

Lemma snap_kstate w g : w_snapshot (w <| w_state ::= g |>) = w_snapshot w. Proof. destruct w; reflexivity. Qed.

Lemma finish_block_fin (E : world -> Prop) : triple (fun _ => True) finish_block (fun _ => Fin) E.
Proof.
  apply (ne_triple _ _ _ E (fun _ => True)).
  { unfold finish_block. ne; try apply ne_restore; try apply ne_can_continue; try apply ne_end_of_content.
    all: try apply ner_vs_complete_observation. }
  unfold finish_block.
  eapply triple_bind; [apply triple_get|]. intros w3. cbn beta.
  eapply (triple_bind _ _ (fun _ w => w_snapshot w = None)).
  { intros w [Heq _]. subst w3. destruct (w_snapshot w) eqn:Es.
    - destruct (restore_state_snapshot w) as [[[]|k e|s0] w'] eqn:Er; try exact Logic.I.
      apply (restore_clears _ _ _ Er). intros s0 H. discriminate.
    - cbn. exact Es. }
  intros ?.
  eapply triple_bind; [apply (keeps_triple_genT w_snapshot _ (fun x => x = None)); apply hk_can_continue; exact snap_kstate|]. intros can2.
  eapply triple_bind.
  { apply (keeps_triple_genT w_snapshot _ (fun x => x = None)). apply keeps_when.
    apply hk_end_of_content; intros w ?; destruct w; reflexivity. }
  intros ?.
  eapply triple_bind; [apply (keeps_triple_genT w_snapshot _ (fun x => x = None)), keeps_mod_state, snap_kstate|]. intros ?.
  eapply (triple_bind _ _ (fun _ w => w_snapshot w = None /\ w_saw_unsafe w = false)).
  { apply triple_modify. intros w Hs. destruct w; cbn in *. auto. }
  intros ?.
  eapply triple_bind; [apply (keeps_triple_genT (fun w => (w_snapshot w, w_saw_unsafe w)) _ (fun x => fst x = None /\ snd x = false)), keeps_get|].
  intros w4. cbn beta.
  eapply triple_bind.
  { apply (keeps_triple_genT (fun w => (w_snapshot w, w_saw_unsafe w)) _ (fun x => fst x = None /\ snd x = false)).
    destruct (N.eqb (w_rcc w4) 1); [|apply keeps_ret].
    apply keeps_bind; [apply keeps_get_state|]. intros s.
    apply keeps_bind; [apply keeps_lift|]. intros [m v'].
    apply keeps_bind; [apply keeps_mod_state; intros w ?; destruct w; reflexivity|]. intros ?. apply keeps_ret. }
  intros ch.
  eapply (triple_bind _ _ (fun _ => Fin)).
  { apply triple_modify. intros w [Hs Hu]. destruct w; cbn in *. repeat split; assumption. }
  intros ?. intros w Hw. exact Hw.
Qed.

Lemma true_ne_triple {A} (m : M A) (E : world -> Prop) :
  NoErr m -> triple (fun _ => True) m (fun _ _ => True) E.
Proof. intros H. apply (ne_triple _ _ _ E (fun _ => True) H). apply triple_true. Qed.

Theorem continue_internal_inv2 limited :
  triple Inv2 (continue_internal I sw limited) (fun _ => Inv2) Inv2.
Proof.
  unfold continue_internal. rewrite Hfirst. cbn [negb andb].
  eapply triple_bind; [apply inv2_keeps_triple, keeps_get|]. intros w00. cbn beta.
  eapply triple_bind; [apply inv2_keeps_triple, kl_can|]. intros can0.
  destruct (negb (w_async w00) && negb can0).
  { intros w Hw. exact Hw. }
  eapply (triple_weaken Inv2 (fun _ => True)); [|intros; exact Logic.I|intros xx ww H; exact H|intros ww H; exact H].
  eapply triple_bind; [apply true_ne_triple; solve [ne]|]. intros ?.
  eapply triple_bind; [apply true_ne_triple; solve [ne]|]. intros w. cbn beta.
  eapply triple_bind; [apply true_ne_triple; solve [ne]|]. intros ?.
  eapply triple_bind; [apply true_ne_triple; solve [ne]|]. intros ?.
  eapply triple_bind; [apply true_ne_triple; solve [ne]|]. intros w2. cbn beta.
  eapply (triple_bind _ _ (fun ends => LoopOut ends)).
  { apply (ne_triple _ _ _ _ (fun _ => True)); [apply ne_continue_loop|].
    intros w0 _. destruct (continue_loop I sw (step_budget w2) w0) as [[ends|k e|s] w'] eqn:El; try exact Logic.I.
    exists (step_budget w2), w0. exact El. }
  intros ends.
  eapply (triple_bind _ _ (fun can w => LoopOut ends w /\ m_can_continue w = (OOk can, w))).
  { apply (ne_triple _ _ _ _ (LoopOut ends)); [apply ne_can_continue|].
    apply triple_pure. apply can_continue_pure. }
  intros can.
  eapply (triple_bind _ _ (fun _ => Inv2)).
  { destruct ends; cbn [orb].
    - eapply triple_weaken; [apply (finish_block_fin Inv2)|intros; exact Logic.I|intros xx w0 H; apply fin_inv2, H|intros w0 H; exact H].
    - destruct can; cbn [negb].
      + intros w0 [[n [wl Hl]] Hc]. cbn. intros Ha.
        rewrite (loop_unfinished_async n wl w0 Hl Hc) in Ha. discriminate.
      + eapply triple_weaken; [apply (finish_block_fin Inv2)|intros; exact Logic.I|intros xx w0 H; apply fin_inv2, H|intros w0 H; exact H]. }
  intros changed.
  eapply triple_bind.
  { apply inv2_keeps_triple. apply keeps_when. apply keeps_modify. intros w0. destruct w0; reflexivity. }
  intros ?.
  eapply triple_bind; [apply inv2_keeps_triple, kl_deliver|]. intros ?.
  eapply triple_bind.
  { apply inv2_keeps_triple. apply keeps_when. apply keeps_modify. intros w0. destruct w0; reflexivity. }
  intros ?.
  destruct changed as [m|]; [|apply inv2_keeps_triple, keeps_ret].
  apply inv2_keeps_triple. apply keeps_mfor. intros kv. apply kl_notify.
Qed.
End BetweenCalls.

(* ---------- every story operation preserves Inv2; the combined invariant ---------- *)
Section AllOps.
Variable I : iface.
Variable sw : switches.
Hypothesis Hfirst : sw_cont_check_first sw = true.
Hypothesis Hdec : sw_counter_dec_first sw = true.
Notation Inv2 := (Inv2).

Definition Pres {A} (m : M A) : Prop := triple Inv2 m (fun _ => Inv2) Inv2.

Lemma pres_keeps {A} (m : M A) : Keeps laf m -> Pres m.
Proof. apply inv2_keeps_triple. Qed.
Lemma pres_bind {A B} (m : M A) (f : A -> M B) : Pres m -> (forall x, Pres (f x)) -> Pres (mbind m f).
Proof. intros Hm Hf. eapply triple_bind; [apply Hm|]. intros x. apply Hf. Qed.
Lemma pres_ci limited : Pres (continue_internal I sw limited).
Proof. apply continue_internal_inv2. exact Hfirst. Qed.

Ltac lf := first [exact laf_state|exact laf_events|exact laf_fuel|exact laf_rcc|exact laf_lines
                  |exact laf_validated|exact laf_pauses|exact laf_pause_left].

Lemma kl_if_async : Keeps laf if_async_we_cant. Proof. apply hk_if_async. Qed.
Lemma kl_validate : Keeps laf validate_external_bindings. Proof. apply hk_validate; lf. Qed.

Lemma pres_continue_async l : Pres (continue_async I sw l).
Proof.
  unfold continue_async, cont_internal. apply pres_bind; [apply pres_keeps, keeps_gets|]. intros v.
  apply pres_bind; [apply pres_keeps, keeps_when, kl_validate|]. intros _. apply pres_ci.
Qed.
Lemma pres_story_cont : Pres (story_cont I sw).
Proof.
  unfold story_cont. apply pres_bind; [apply pres_continue_async|]. intros _.
  apply pres_keeps. unfold get_current_text.
  apply keeps_bind; [apply kl_if_async|]. intros _. apply keeps_bind; [apply keeps_get_state|]. intros s. apply keeps_ret.
Qed.
Lemma pres_api_cont : Pres (api_cont I sw).
Proof.
  unfold api_cont. apply pres_bind; [apply pres_story_cont|]. intros t.
  apply pres_keeps. apply keeps_bind; [apply keeps_modify; exact (fun w => laf_lines w _)|]. intros _. apply keeps_ret.
Qed.
Lemma pres_cont_max_fuel fuel : forall acc, Pres (continue_maximally_fuel I sw fuel acc).
Proof.
  induction fuel as [|n IH]; intros acc; cbn [continue_maximally_fuel]; [apply pres_keeps, keeps_fail|].
  apply pres_bind; [apply pres_keeps, kl_can|]. intros can. destruct can; [|apply pres_keeps, keeps_ret].
  apply pres_bind; [apply pres_story_cont|]. intros t. apply IH.
Qed.
Lemma pres_continue_maximally : Pres (continue_maximally I sw).
Proof.
  unfold continue_maximally. apply pres_bind; [apply pres_keeps, kl_if_async|]. intros _.
  apply pres_bind; [apply pres_keeps, keeps_get|]. intros w. apply pres_cont_max_fuel.
Qed.
Lemma pres_choose i : Pres (choose_choice_index I sw i).
Proof. apply pres_keeps. apply hk_choose_choice_index; lf. Qed.
Lemma pres_path p r a : Pres (choose_path_string I sw p r a).
Proof. apply pres_keeps. apply hk_choose_path_string; lf. Qed.
Lemma pres_eval_loop fuel : forall acc, Pres (eval_loop I sw fuel acc).
Proof.
  induction fuel as [|n IH]; intros acc; cbn [eval_loop]; [apply pres_keeps, keeps_fail|].
  apply pres_bind; [apply pres_keeps, kl_can|]. intros can. destruct can; [|apply pres_keeps, keeps_ret].
  apply pres_bind; [apply pres_story_cont|]. intros t. apply IH.
Qed.
Lemma pres_eval n a : Pres (evaluate_function I sw n a).
Proof.
  unfold evaluate_function.
  apply pres_bind; [apply pres_keeps, kl_if_async|]. intros _.
  destruct (match trim n with [] => true | _ => false end); [apply pres_keeps, keeps_fail|].
  apply pres_bind; [apply pres_keeps, keeps_gets|]. intros root.
  destruct (knot_container_with_name root n) as [fp|]; [|apply pres_keeps, keeps_fail].
  apply pres_bind; [apply pres_keeps, keeps_when; apply hk_validate_args|]. intros _.
  apply pres_bind; [apply pres_keeps, keeps_get_state|]. intros s.
  apply pres_bind; [apply pres_keeps, keeps_mod_state; exact laf_state|]. intros _.
  apply pres_bind; [apply pres_keeps, keeps_m_cs_res; exact laf_state|]. intros _.
  apply pres_bind; [apply pres_keeps, keeps_m_state_res; exact laf_state|]. intros _.
  apply pres_bind; [apply pres_keeps; apply hk_pass_args; lf|]. intros _.
  apply pres_bind; [apply pres_keeps, keeps_get|]. intros w.
  apply pres_bind; [apply pres_eval_loop|]. intros txt.
  apply pres_bind; [apply pres_keeps, keeps_mod_state; exact laf_state|]. intros _.
  apply pres_bind; [apply pres_keeps; apply hk_complete_fn; lf|]. intros r0.
  apply pres_keeps, keeps_ret.
Qed.
Lemma pres_set_variable n x : Pres (set_variable I sw n x).
Proof. apply pres_keeps. apply hk_set_variable; lf. Qed.
Lemma pres_switch n : Pres (switch_flow n).
Proof. apply pres_keeps. apply hk_switch_flow; lf. Qed.
Lemma pres_switch_default : Pres (switch_to_default_flow sw).
Proof. apply pres_keeps. apply hk_switch_default; lf. Qed.
Lemma pres_remove n : Pres (remove_flow sw n).
Proof. apply pres_keeps. apply hk_remove_flow; lf. Qed.
Lemma pres_reset_globals : Pres (reset_globals I sw).
Proof.
  unfold reset_globals, cont_internal.
  apply pres_bind; [apply pres_keeps, keeps_gets|]. intros root.
  apply pres_bind; [|intros _; apply pres_keeps, keeps_mod_state; exact laf_state].
  destruct (lookup_named root (T "global decl")); [|apply pres_keeps, keeps_ret].
  apply pres_bind; [apply pres_keeps, keeps_m_read; exact laf_state|]. intros orig.
  apply pres_bind; [apply pres_keeps; apply kp_choose_path; lf|]. intros _.
  apply pres_bind; [apply pres_ci|]. intros _.
  apply pres_keeps, keeps_m_state_res; exact laf_state.
Qed.
Lemma pres_reset seed : Pres (reset_state I sw seed).
Proof.
  unfold reset_state. apply pres_bind; [apply pres_keeps, kl_if_async|]. intros _.
  apply pres_bind; [apply pres_keeps, keeps_mod_state; exact laf_state|]. intros _. apply pres_reset_globals.
Qed.

Theorem story_ops_preserve_inv2 op : Pres (run_story_op I sw op).
Proof.
  destruct op; cbn [run_story_op].
  - apply pres_bind; [apply pres_api_cont|intros; apply pres_keeps, keeps_ret].
  - apply pres_bind; [apply pres_continue_maximally|intros; apply pres_keeps, keeps_ret].
  - apply pres_continue_async.
  - apply pres_choose.
  - apply pres_path.
  - apply pres_bind; [apply pres_eval|intros; apply pres_keeps, keeps_ret].
  - apply pres_set_variable.
  - apply pres_switch.
  - apply pres_switch_default.
  - apply pres_remove.
  - apply pres_reset.
Qed.

(* THE INVARIANT: in every world reached from a world that satisfies it by story operations none of
   which panicked, the nesting counter is 0 and — unless a time-limited continue is pending — there
   is no look-ahead snapshot and the rewind flag is clear: ResetProofs.between_calls *)
Definition Inv (w : world) : Prop := w_rcc w = 0 /\ Inv2 w.

Theorem invariant_preserved : forall ops w,
  Inv w -> no_panic I sw ops w -> Inv (run_story_ops I sw ops w).
Proof.
  induction ops as [|op r IH]; intros w [H0 H2] Hnp; cbn [run_story_ops]; [split; assumption|].
  destruct Hnp as [Hp Hr]. apply IH; [|exact Hr].
  pose proof (story_ops_balanced I sw Hfirst Hdec op 0 w H0) as Hb.
  pose proof (story_ops_preserve_inv2 op w H2) as Hi.
  destruct (run_story_op I sw op w) as [[x|k e|s] w'] eqn:E; cbn [snd fst] in *.
  - split; assumption.
  - split; assumption.
  - exfalso. exact (Hp s eq_refl).
Qed.

Corollary between_calls_reachable : forall ops w,
  Inv w -> no_panic I sw ops w ->
  w_async (run_story_ops I sw ops w) = false ->
  between_calls (run_story_ops I sw ops w).
Proof.
  intros ops w Hi Hnp Ha. destruct (invariant_preserved ops w Hi Hnp) as [H0 H2].
  destruct (H2 Ha) as [Hs Hu]. repeat split; assumption.
Qed.

Lemma inv_world_init st seed fuel : Inv (world_init st seed fuel).
Proof. split; [reflexivity|]. intros _. split; reflexivity. Qed.
End AllOps.
