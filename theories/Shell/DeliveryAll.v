(* Shell/DeliveryAll.v — C13: a continue that returns normally leaves nothing undelivered.
   With an error handler registered, whenever continue_internal (hence Story::cont and
   Story::continue_async) returns Ok, no error and no warning is left pending in the story:
   everything raised by the line(s) just played has gone to the handler in this very call.
   Together with delivered_once_with_handler (each pending message becomes exactly one handler
   event and is then cleared) and event_log_append_only (a delivery is never retracted) this is
   "every message exactly once" for stories played with a handler.

   Proof device: Post Q m — "if m returns Ok the final world satisfies Q".  For a Q that looks at
   the final world only, Post Q (m >>= k) follows from Post Q (k x) for all x, whatever m is; so
   only the right spine of continue_internal has to be walked, down to the delivery block. *)
From Ink.Engine Require Import Api Tie.
From Ink.Shell Require Import Keeps KeepsStep HostFrame DeliveryProofs.

Definition Post {A} (Q : world -> Prop) (m : M A) : Prop := forall w x w', m w = (OOk x, w') -> Q w'.

Lemma post_bind_r {A B} Q (m : M A) (k : A -> M B) : (forall x, Post Q (k x)) -> Post Q (mbind m k).
Proof.
  intros H w y w' E. unfold mbind in E. destruct (m w) as [[x|e s|s] w1]; try discriminate.
  exact (H x w1 y w' E).
Qed.
Lemma post_fail {A} Q k msg : Post Q (@fail A k msg).
Proof. intros w x w' E. discriminate. Qed.
Lemma post_bind_keeps {A B X} (obs : world -> X) (Q : world -> Prop) (m : M A) (k : A -> M B) :
  (forall w w', obs w' = obs w -> Q w -> Q w') ->
  Post Q m -> (forall x, Keeps obs (k x)) -> Post Q (mbind m k).
Proof.
  intros HQ Hm Hk w y w' E. unfold mbind in E. destruct (m w) as [[x|e s|s] w1] eqn:Em; try discriminate.
  apply (HQ w1 w'); [|exact (Hm w x w1 Em)].
  pose proof (Hk x w1) as H. rewrite E in H. exact H.
Qed.

Section DeliveryAll.
Variable I : iface.
Notation sw := sw_now.

(* what the delivery is about: the handler flag and the two pending lists *)
Definition pend (w : world) := (w_handler w, ss_errors (w_state w), ss_warnings (w_state w)).
Definition Delivered (w : world) : Prop :=
  w_handler w = true -> ss_errors (w_state w) = [] /\ ss_warnings (w_state w) = [].

Lemma delivered_pend w w' : pend w' = pend w -> Delivered w -> Delivered w'.
Proof. unfold pend, Delivered. intros E H. injection E as -> -> ->. exact H. Qed.

Ltac fld := let w0 := fresh "w0" in intros w0 ?; destruct w0; reflexivity.

Lemma post_deliver : Post Delivered (deliver_errors sw).
Proof.
  intros w x w' E Hh.
  assert (Hk : w_handler w' = w_handler w).
  { pose proof (hk_deliver sw w_handler ltac:(fld) ltac:(fld) w) as H. rewrite E in H. exact H. }
  rewrite Hh in Hk. symmetry in Hk.
  destruct (delivered_once_with_handler w Hk) as [w'' [E2 [_ [He Hw]]]].
  rewrite E2 in E. injection E as _ <-. split; assumption.
Qed.

(* after the delivery block: the counter decrement and the observer notifications touch neither *)
Lemma keeps_pend_dec b : Keeps pend (when b (modify (fun w => w <| w_rcc ::= N.pred |>))).
Proof. apply keeps_when. apply keeps_modify. intros []; reflexivity. Qed.
Lemma keeps_pend_notify (changed : option (list (text * value))) :
  Keeps pend (match changed with
              | Some m => mfor m (fun kv => notify_variable_changed (fst kv) (snd kv))
              | None => ret tt
              end).
Proof.
  destruct changed as [m|]; [|apply keeps_ret]. apply keeps_mfor. intros kv.
  apply (hk_notify pend); fld.
Qed.

Theorem post_continue_internal limited : Post Delivered (continue_internal I sw limited).
Proof.
  unfold continue_internal.
  apply post_bind_r; intros w00. apply post_bind_r; intros can0.
  destruct (_ && _ && _); [apply post_fail|].
  do 7 (apply post_bind_r; intros ?).
  apply post_bind_r; intros changed.
  apply post_bind_r; intros ?.
  apply (post_bind_keeps pend); [exact delivered_pend|exact post_deliver|]. intros ?.
  apply keeps_bind; [apply keeps_pend_dec|]. intros ?. apply keeps_pend_notify.
Qed.

Lemma keeps_pend_if_async : Keeps pend if_async_we_cant.
Proof. apply (hk_if_async pend). Qed.

Theorem post_continue_async limited : Post Delivered (continue_async I sw limited).
Proof.
  unfold continue_async, cont_internal. do 2 (apply post_bind_r; intros ?). apply post_continue_internal.
Qed.

Theorem post_api_cont : Post Delivered (api_cont I sw).
Proof.
  unfold api_cont. apply (post_bind_keeps pend); [exact delivered_pend| |].
  - unfold story_cont. apply (post_bind_keeps pend); [exact delivered_pend|apply post_continue_async|].
    intros ?. unfold get_current_text.
    apply keeps_bind; [apply keeps_pend_if_async|]. intros ?.
    apply keeps_bind; [apply keeps_gets|]. intros s. apply keeps_ret.
  - intros t. apply keeps_bind; [|intros ?; apply keeps_ret]. apply keeps_modify. intros []; reflexivity.
Qed.

(* the statements without the device *)
Corollary continue_leaves_nothing_undelivered limited w w' :
  continue_internal I sw limited w = (OOk tt, w') -> w_handler w' = true ->
  ss_errors (w_state w') = [] /\ ss_warnings (w_state w') = [].
Proof. intros E. exact (post_continue_internal limited w tt w' E). Qed.

Corollary cont_leaves_nothing_undelivered w t w' :
  api_cont I sw w = (OOk t, w') -> w_handler w' = true ->
  ss_errors (w_state w') = [] /\ ss_warnings (w_state w') = [].
Proof. intros E. exact (post_api_cont w t w' E). Qed.

Corollary continue_async_leaves_nothing_undelivered limited w w' :
  continue_async I sw limited w = (OOk tt, w') -> w_handler w' = true ->
  ss_errors (w_state w') = [] /\ ss_warnings (w_state w') = [].
Proof. intros E. exact (post_continue_async limited w tt w' E). Qed.

(* ---------- handler or not: an Ok return leaves no ERROR pending ----------
   Without a handler an error on record makes the delivery block (hence the continue) return Err; with one it is
   delivered.  So whenever a continue returns Ok, no error is pending: an error is never silently kept. *)
Definition errs (w : world) := ss_errors (w_state w).
Definition NoErrorPending (w : world) : Prop := errs w = [].
Lemma noerr_errs w w' : errs w' = errs w -> NoErrorPending w -> NoErrorPending w'.
Proof. unfold NoErrorPending. congruence. Qed.

Lemma post_deliver_noerr : Post NoErrorPending (deliver_errors sw).
Proof.
  intros w x w' E. unfold NoErrorPending, errs.
  destruct (w_handler w) eqn:Hh.
  - destruct (delivered_once_with_handler w Hh) as [w'' [E2 [_ [He _]]]].
    rewrite E2 in E. injection E as _ <-. exact He.
  - destruct (ss_errors (w_state w)) as [|e0 es] eqn:Ee.
    + unfold deliver_errors in E. unfold mbind at 1 in E. unfold get at 1 in E.
      unfold ss_has_error in E. rewrite Ee, Hh in E. cbn [orb] in E.
      destruct (ss_has_warning (w_state w)).
      * unfold reset_errors, mod_state, modify in E. injection E as _ <-. destruct w as [? st]; destruct st; reflexivity.
      * unfold ret in E. injection E as _ <-. exact Ee.
    + assert (Hne : ss_errors (w_state w) <> []) by (rewrite Ee; discriminate).
      destruct (no_handler_error_is_err w Hh Hne) as [msg E2]. rewrite E2 in E. discriminate.
Qed.

Lemma keeps_errs_dec b : Keeps errs (when b (modify (fun w => w <| w_rcc ::= N.pred |>))).
Proof. apply keeps_when. apply keeps_modify. intros []; reflexivity. Qed.
Lemma keeps_errs_notify (changed : option (list (text * value))) :
  Keeps errs (match changed with
              | Some m => mfor m (fun kv => notify_variable_changed (fst kv) (snd kv))
              | None => ret tt
              end).
Proof.
  destruct changed as [m|]; [|apply keeps_ret]. apply keeps_mfor. intros kv.
  apply (hk_notify errs); fld.
Qed.

Theorem post_continue_internal_noerr limited : Post NoErrorPending (continue_internal I sw limited).
Proof.
  unfold continue_internal.
  apply post_bind_r; intros w00. apply post_bind_r; intros can0.
  destruct (_ && _ && _); [apply post_fail|].
  do 7 (apply post_bind_r; intros ?).
  apply post_bind_r; intros changed.
  apply post_bind_r; intros ?.
  apply (post_bind_keeps errs); [exact noerr_errs|exact post_deliver_noerr|]. intros ?.
  apply keeps_bind; [apply keeps_errs_dec|]. intros ?. apply keeps_errs_notify.
Qed.

Theorem post_api_cont_noerr : Post NoErrorPending (api_cont I sw).
Proof.
  unfold api_cont. apply (post_bind_keeps errs); [exact noerr_errs| |].
  - unfold story_cont. apply (post_bind_keeps errs); [exact noerr_errs| |].
    + unfold continue_async, cont_internal. do 2 (apply post_bind_r; intros ?). apply post_continue_internal_noerr.
    + intros ?. unfold get_current_text.
      apply keeps_bind; [apply (hk_if_async errs)|]. intros ?.
      apply keeps_bind; [apply keeps_gets|]. intros s. apply keeps_ret.
  - intros t. apply keeps_bind; [|intros ?; apply keeps_ret]. apply keeps_modify. intros []; reflexivity.
Qed.

Corollary cont_ok_leaves_no_error_pending w t w' :
  api_cont I sw w = (OOk t, w') -> ss_errors (w_state w') = [].
Proof. intros E. exact (post_api_cont_noerr w t w' E). Qed.
Corollary continue_ok_leaves_no_error_pending limited w w' :
  continue_internal I sw limited w = (OOk tt, w') -> ss_errors (w_state w') = [].
Proof. intros E. exact (post_continue_internal_noerr limited w tt w' E). Qed.
End DeliveryAll.
