(* Shell/ObserverProofs.v — C11: the observation batch of the variable store
   (Engine/Vars.v) and the host-side notification functions (Engine/Api.v). *)
From Coq Require Import Lia.
From Ink.Engine Require Import Api Tie.
From Ink.Data Require Import PathProofs.

Section Observers.
Variable I : iface.
Variable defs : listdefs.
Notation sw := sw_now.

Ltac munfold :=
  repeat (progress (unfold m_can_continue, if_async_we_cant, m_read, get_state, mod_state, when,
                           mbind, ret, fail, get, gets, put, modify, lift in *)).

(* ---------- association lists ---------- *)
Lemma text_eqb_sym a b : text_eqb a b = text_eqb b a.
Proof.
  destruct (text_eqb a b) eqn:E.
  - apply text_eqb_eq in E. subst. symmetry. apply text_eqb_refl.
  - destruct (text_eqb b a) eqn:E2; [|reflexivity]. apply text_eqb_eq in E2. subst.
    rewrite text_eqb_refl in E. discriminate.
Qed.

Lemma assoc_set_same {V} k (v : V) l : assoc k (assoc_set k v l) = Some v.
Proof.
  induction l as [|[k' v'] l IH]; cbn; [now rewrite text_eqb_refl|].
  destruct (text_eqb k k') eqn:E; cbn; [now rewrite text_eqb_refl|]. now rewrite E.
Qed.

Lemma assoc_set_other {V} k k' (v : V) l : text_eqb k' k = false ->
  assoc k' (assoc_set k v l) = assoc k' l.
Proof.
  intros H. induction l as [|[k2 v2] l IH]; cbn; [now rewrite H|].
  destruct (text_eqb k k2) eqn:E; cbn.
  - apply text_eqb_eq in E. subst. now rewrite H.
  - destruct (text_eqb k' k2); [reflexivity|exact IH].
Qed.

(* ---------- completion reports the current values of the changed variables ---------- *)
Definition collect (v : varstate) (names : list text) (acc : list (text * value)) :=
  foldM (fun acc n =>
           match assoc n (vs_globals v) with
           | Some x => Ok (assoc_set n x acc)
           | None => Panic (T "variables_state.rs:complete_variable_observation:get().unwrap()")
           end) names acc.

Lemma collect_values v names : forall acc m,
  collect v names acc = Ok m ->
  (forall x val, assoc x acc = Some val -> assoc x (vs_globals v) = Some val) ->
  (forall x val, assoc x m = Some val -> assoc x (vs_globals v) = Some val).
Proof.
  induction names as [|n names IH]; intros acc m H Hacc; cbn in H.
  - inversion H; subst. exact Hacc.
  - destruct (assoc n (vs_globals v)) as [gv|] eqn:E; cbn in H; [|discriminate].
    eapply IH; [exact H|]. intros x val Hx.
    destruct (text_eqb x n) eqn:Exn.
    + apply text_eqb_eq in Exn. subst. rewrite assoc_set_same in Hx. inversion Hx; subst. exact E.
    + rewrite assoc_set_other in Hx by exact Exn. now apply Hacc.
Qed.

Lemma collect_covers v names : forall acc m,
  collect v names acc = Ok m ->
  (forall x, (In x names \/ assoc_mem x acc = true) -> assoc_mem x m = true).
Proof.
  induction names as [|n names IH]; intros acc m H x Hx; cbn in H.
  - inversion H; subst. destruct Hx as [[]|Hx]. exact Hx.
  - destruct (assoc n (vs_globals v)) as [gv|] eqn:E; cbn in H; [|discriminate].
    eapply IH; [exact H|]. destruct Hx as [[->|Hin]|Hacc].
    + right. unfold assoc_mem. now rewrite assoc_set_same.
    + now left.
    + right. unfold assoc_mem in *. destruct (text_eqb x n) eqn:Exn.
      * apply text_eqb_eq in Exn. subst. now rewrite assoc_set_same.
      * now rewrite assoc_set_other.
Qed.

(* at the end of the outermost continue the look-ahead has been rewound or
   committed, so the store has no patch *)
Lemma complete_reports_final_values (v v' : varstate) (m : list (text * value)) :
  vs_patch v = None ->
  vs_complete_observation v = Ok (m, v') ->
  (forall x val, assoc x m = Some val -> assoc x (vs_globals v) = Some val)
  /\ (forall x names, vs_changed v = Some names -> In x names -> assoc_mem x m = true)
  /\ vs_batch v' = false /\ vs_changed v' = None /\ vs_globals v' = vs_globals v.
Proof.
  intros Hp H. unfold vs_complete_observation in H. rewrite Hp in H.
  fold (collect v (match vs_changed v with Some l => l | None => [] end) []) in H.
  destruct (collect v _ []) as [m1| |] eqn:E; cbn in H; try discriminate.
  inversion H; subst. repeat split.
  - eapply collect_values; [exact E|]. intros x val Hx. discriminate.
  - intros x names Hn Hin. rewrite Hn in E. eapply collect_covers; [exact E|]. now left.
Qed.

(* ---------- assignments during a continue are recorded once ---------- *)
Lemma set_add_mem x l : mem_text x (set_add x l) = true.
Proof.
  unfold set_add. destruct (mem_text x l) eqn:E; [exact E|].
  induction l as [|y l IH]; cbn; [now rewrite text_eqb_refl|].
  cbn in E. apply Bool.orb_false_iff in E as [E1 E2]. rewrite E1. cbn. now apply IH.
Qed.

Lemma set_add_nodup l : forall x, NoDup l -> mem_text x l = false -> NoDup (l ++ [x]).
Proof.
  induction l as [|y l IH]; intros x Hn Hm; cbn; [constructor; [tauto|constructor]|].
  inversion Hn as [|? ? Hy Hl]; subst. cbn in Hm. apply Bool.orb_false_iff in Hm as [H1 H2].
  constructor.
  - intros Hin. apply in_app_or in Hin as [Hin|[->|[]]]; [tauto|]. rewrite text_eqb_refl in H1. discriminate.
  - now apply IH.
Qed.

Lemma set_add_keeps_nodup x l : NoDup l -> NoDup (set_add x l).
Proof.
  intros H. unfold set_add. destruct (mem_text x l) eqn:E; [exact H|]. now apply set_add_nodup.
Qed.

Lemma set_global_batch_records (s s' : sstate) name val notify :
  vs_batch (ss_vars s) = true -> vs_patch (ss_vars s) = None ->
  set_global I s name val = Ok (notify, s') ->
  notify = false
  /\ (forall names, vs_changed (ss_vars s) = Some names ->
        exists names', vs_changed (ss_vars s') = Some names' /\ mem_text name names' = true
                       /\ (NoDup names -> NoDup names'))
  /\ assoc_mem name (vs_globals (ss_vars s')) = true.
Proof.
  intros Hb Hp H. unfold set_global in H. rewrite Hp in H. cbn in H.
  destruct (match assoc name (vs_globals (ss_vars s)) with
            | Some o => if_retain I o val | None => Ok val end) as [v2| |] eqn:E; cbn in H; try discriminate.
  unfold set in H; cbn in H. rewrite Hb in H. cbn in H. rewrite Hp in H.
  destruct (vs_changed (ss_vars s)) as [names|] eqn:Ec; inversion H; subst; cbn; unfold set; cbn.
  - repeat split.
    + intros names0 Hn. inversion Hn; subst. exists (set_add name names0). repeat split.
      * apply set_add_mem.
      * apply set_add_keeps_nodup.
    + unfold assoc_mem. now rewrite assoc_set_same.
  - repeat split.
    + intros names0 Hn. discriminate.
    + unfold assoc_mem. now rewrite assoc_set_same.
Qed.

(* ---------- a host assignment between continues notifies immediately, once per observer ---------- *)
Lemma mfor_notify (name : text) (v : value) (obs : list text) (w : world) :
  mfor obs (fun o => log_event (EvObs o name v)) w
  = (OOk tt, w <| w_events ::= fun evs => evs ++ map (fun o => EvObs o name v) obs |>).
Proof.
  revert w. induction obs as [|o obs IH]; intros w; cbn [mfor map].
  - unfold ret. destruct w; cbn. unfold set; cbn. rewrite app_nil_r. reflexivity.
  - unfold mbind, log_event, modify. rewrite IH. destruct w; cbn. unfold set; cbn.
    rewrite <- app_assoc. reflexivity.
Qed.

Lemma host_set_notifies_once (name : text) (v : value) (w : world) s' obs :
  w_async w = false ->
  assoc_mem name (vs_defaults (ss_vars (w_state w))) = true ->
  vs_batch (ss_vars (w_state w)) = false ->
  set_global I (w_state w) name v = Ok (true, s') ->
  assoc name (w_observers w) = Some obs ->
  set_variable I sw name v w
  = (OOk tt, (w <| w_state := s' |>) <| w_events ::= fun evs => evs ++ map (fun o => EvObs o name v) obs |>).
Proof.
  intros Ha Hd Hb Hs Ho. unfold set_variable, vs_host_set, m_defs. munfold. cbn. rewrite Ha. cbn.
  rewrite Hd. cbn. rewrite Hs. cbn.
  unfold notify_variable_changed. munfold. cbn. rewrite Ho. rewrite mfor_notify.
  destruct w; reflexivity.
Qed.

(* not batching => set_global asks for a notification *)
Lemma set_global_outside_continue_notifies (s s' : sstate) name val notify :
  vs_batch (ss_vars s) = false ->
  set_global I s name val = Ok (notify, s') -> notify = true.
Proof.
  intros Hb H. unfold set_global in H.
  destruct (match match vs_patch (ss_vars s) with Some p => assoc name (pa_globals p) | None => None end with
            | Some x => Some x | None => assoc name (vs_globals (ss_vars s)) end) as [o|];
    cbn in H.
  - destruct (if_retain I o val) as [v2| |]; cbn in H; try discriminate.
    destruct (vs_patch (ss_vars s)); unfold set in H; cbn in H; rewrite Hb in H; inversion H; reflexivity.
  - destruct (vs_patch (ss_vars s)); unfold set in H; cbn in H; rewrite Hb in H; inversion H; reflexivity.
Qed.

(* ---------- look-ahead: changes made under a snapshot are dropped by a rewind ---------- *)
Lemma restore_drops_lookahead (w : world) (snap : sstate) :
  w_snapshot w = Some snap -> ss_patch snap = None ->
  exists w', restore_state_snapshot w = (OOk tt, w')
             /\ ss_vars (w_state w') = (ss_vars snap) <| vs_patch := None |>
             /\ w_snapshot w' = None.
Proof.
  intros Hs Hp. unfold restore_state_snapshot. munfold. rewrite Hs. cbn. unfold m_state_res. munfold. cbn.
  unfold apply_any_patch. unfold set; cbn. rewrite Hp. cbn.
  eexists. split; [reflexivity|]. split; [|reflexivity]. cbn. unfold set; cbn. rewrite ?Hp. reflexivity.
Qed.

End Observers.
