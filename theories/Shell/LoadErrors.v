(* Shell/LoadErrors.v — C13: loading a saved state is not a reset.  The pending errors and
   warnings of the story (readable until reset, and what keeps an erroneous story stopped) are
   kept by load_state, however the load ends. *)
From Ink.Gen Require Import SaveGen.
From Ink.Engine Require Import Api Tie Save.
From Ink.Shell Require Import Keeps.

Section LoadErrors.
Variable sp : ssite -> bool.
Variable ssw : save_switches.

Definition msgs (w : world) := (ss_errors (w_state w), ss_warnings (w_state w)).
Notation K := (Keeps msgs).

Ltac km := apply keeps_modify; intros w; destruct w as [? st]; destruct st; reflexivity.
Ltac le := repeat (match goal with
                   | |- Keeps _ (mod_state _) => unfold mod_state; km
                   | |- Keeps _ (set_named _) => unfold set_named, mod_state; km
                   | |- Keeps _ (set_flow _) => unfold set_flow, mod_state; km
                   | |- Keeps _ get_state => apply keeps_gets
                   | _ => keeps_step
                   end).

Lemma le_load_flows_loop single l : K (load_flows_loop sp ssw single l).
Proof. induction l as [|[n fj] r IH]; cbn [load_flows_loop]; le. Qed.
Hint Resolve le_load_flows_loop : keeps.
Lemma le_load_flows j : K (load_flows sp ssw j).
Proof. unfold load_flows. le. Qed.
Hint Resolve le_load_flows : keeps.
Lemma le_load_i32_field j k msg (set : Z -> sstate -> sstate) :
  (forall z s, ss_errors (set z s) = ss_errors s /\ ss_warnings (set z s) = ss_warnings s) ->
  K (load_i32_field j k msg set).
Proof.
  intros H. unfold load_i32_field. destruct (jget k j); [|apply keeps_ret].
  apply keeps_bind; [apply keeps_lift|]. intros z. unfold mod_state. apply keeps_modify.
  intros w. destruct w as [? st]. unfold msgs. cbn. destruct (H (wrap32 z) st) as [-> ->]. reflexivity.
Qed.
Theorem load_keeps_messages j : K (load_json_obj sp ssw j).
Proof.
  unfold load_json_obj. le.
  all: try (apply le_load_i32_field; intros z s; destruct s; split; reflexivity).
Qed.

Corollary load_state_keeps_errors_and_warnings w j :
  ss_errors (w_state (snd (load_state sp ssw w j))) = ss_errors (w_state w) /\
  ss_warnings (w_state (snd (load_state sp ssw w j))) = ss_warnings (w_state w).
Proof.
  pose proof (load_keeps_messages j w) as H. unfold msgs, load_state in *.
  injection H as H1 H2. split; assumption.
Qed.
End LoadErrors.
