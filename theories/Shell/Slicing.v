(* Shell/Slicing.v — C08: how the host slices continuation does not change the
   story.  The loop of continue_internal (Engine/Continue.v::continue_loop)
   keeps nothing between iterations except the world, and the single step is
   independent of the shell fields (Shell/FrameStep.v).  Hence: whenever a
   time-limited run of the loop pauses, the unsliced run of the loop from the
   same core state passes through exactly the paused state — the remaining
   steps are the same steps. *)
From Coq Require Import Lia.
From Ink.Engine Require Import Api Tie.
From Ink.Shell Require Import Frame FrameStep ExternalProofs.

Local Arguments force_end : simpl never.

Section Slicing.
Variable I : iface.
Variable sw : switches.

Lemma shell_upd_upd a r p l a' r' p' l' w :
  shell_upd a r p l (shell_upd a' r' p' l' w) = shell_upd a r p l w.
Proof. destruct w; reflexivity. Qed.

Lemma shell_upd_async a r p l w : w_async (shell_upd a r p l w) = a.
Proof. destruct w; reflexivity. Qed.

(* the clock only touches the clock *)
Lemma clock_tick_shell r p l w :
  exists t p2 l2, clock_tick (shell_upd true r p l w) = (OOk t, shell_upd true r p2 l2 w).
Proof.
  unfold clock_tick, mbind, get, ret, modify. cbn.
  destruct w as [st s rcc asy snap obs val fb unsafe exts hdl evs lines fuel pauses pl]. cbn.
  destruct (N.eqb l 0) eqn:E0; cbn.
  - exists false, p, l. reflexivity.
  - destruct (N.eqb l 1) eqn:E1; cbn.
    + destruct p as [|n ps]; cbn.
      * exists true, [], 0. reflexivity.
      * exists true, ps, n. reflexivity.
    + exists false, p, (N.pred l). reflexivity.
Qed.

(* reading can_continue does not care about the shell fields *)
Lemma can_continue_shell a r p l w :
  m_can_continue (shell_upd a r p l w) =
  (let (o, w') := m_can_continue w in (o, shell_upd a r p l w')).
Proof. apply (comm_can_continue a r p l). Qed.

Lemma can_continue_pure w : exists o, m_can_continue w = (o, w).
Proof.
  unfold m_can_continue, m_read, mbind, get_state, gets, lift.
  destruct (ss_can_continue (w_state w)); eexists; reflexivity.
Qed.

(* recording an error makes the story unable to continue *)
Lemma add_error_cannot_continue m w o w' b :
  add_error_msg m false w = (o, w') -> m_can_continue w' = (OOk b, w') -> o = OOk tt -> b = false.
Proof.
  intros Ha Hc Ho. subst o.
  destruct (add_error_keeps_events m w _ _ Ha) as [_ He]. specialize (He eq_refl).
  unfold m_can_continue, m_read, mbind, get_state, gets, lift in Hc.
  unfold ss_can_continue in Hc.
  destruct (ss_cur_pointer (w_state w')) as [ptr| |]; cbn in Hc; try discriminate.
  inversion Hc as [Hb]. unfold ss_has_error.
  destruct (ss_errors (w_state w')); [congruence|]. cbn. now rewrite Bool.andb_false_r.
Qed.

(* one iteration of the loop, spelled out *)
Lemma continue_loop_S f w :
  continue_loop I sw (S f) w =
  match continue_single_step I sw w with
  | (OPanic site, w') => (OPanic site, w')
  | (OErr _ m, w') =>
      match add_error_msg m false w' with
      | (OOk _, w'') => (OOk false, w'')
      | (OErr k e, w'') => (OErr k e, w'')
      | (OPanic s, w'') => (OPanic s, w'')
      end
  | (OOk ends, w') =>
      if ends then (OOk true, w') else
      (mbind (mbind (gets w_async) (fun a => if a then clock_tick else ret false))
             (fun tick => if tick then ret false else
                mbind m_can_continue (fun can => if negb can then ret false else continue_loop I sw f))) w'
  end.
Proof. reflexivity. Qed.

(* THE LOOP THEOREM.  [w] is any world; the sliced run starts from it with a
   time-limited continue in progress and an arbitrary virtual clock, the
   unsliced run starts from it with no time limit. *)
Theorem loop_passes_through_pause :
  forall n w r p l r' p' l' w1,
    continue_loop I sw n (shell_upd true r p l w) = (OOk false, w1) ->
    m_can_continue w1 = (OOk true, w1) ->                       (* it paused; it did not finish *)
    exists k, (k <= n)%nat /\ (0 < k)%nat /\
      forall m, continue_loop I sw (k + m) (shell_upd false r' p' l' w)
              = continue_loop I sw m (shell_upd false r' p' l' w1).
Proof.
  induction n as [|f IH]; intros w r p l r' p' l' w1 Hrun Hcan.
  - cbn in Hrun. discriminate.
  - rewrite continue_loop_S in Hrun.
    pose proof (comm_continue_single_step true r p l I sw w) as Hs.
    pose proof (comm_continue_single_step false r' p' l' I sw w) as Hu.
    destruct (continue_single_step I sw w) as [[ends|k e|site] w0] eqn:Ecss.
    + rewrite Hs in Hrun. destruct ends; [discriminate|].
      (* the step went on: tick? *)
      unfold mbind at 1 in Hrun. unfold mbind at 1 in Hrun. unfold gets at 1 in Hrun.
      rewrite shell_upd_async in Hrun.
      destruct (clock_tick_shell r p l w0) as (t & p2 & l2 & Ht). rewrite Ht in Hrun.
      destruct t.
      * (* paused here *)
        unfold ret in Hrun. inversion Hrun; subst w1; clear Hrun.
        exists 1%nat. split; [lia|]. split; [lia|]. intros m.
        change (1 + m)%nat with (S m). rewrite continue_loop_S. rewrite Hu.
        unfold mbind at 1. unfold mbind at 1. unfold gets at 1. rewrite shell_upd_async.
        unfold ret at 1. cbn [fst snd].
        unfold mbind at 1.
        rewrite can_continue_shell in Hcan. rewrite can_continue_shell.
        destruct (can_continue_pure w0) as [oc Epure]. rewrite Epure in Hcan. rewrite Epure.
        assert (Hoc : oc = OOk true) by congruence. rewrite Hoc.
        cbn [negb]. rewrite shell_upd_upd. reflexivity.
      * (* no tick: can it continue? *)
        unfold mbind at 1 in Hrun. rewrite can_continue_shell in Hrun.
        destruct (can_continue_pure w0) as [oc Epure]. rewrite Epure in Hrun.
        destruct oc as [can|k e|site]; try discriminate.
        destruct can; cbn [negb] in Hrun.
        -- destruct (IH w0 r p2 l2 r' p' l' w1 Hrun Hcan) as (k & Hk & Hk0 & Hall).
           exists (S k). split; [lia|]. split; [lia|]. intros m.
           change (S k + m)%nat with (S (k + m)). rewrite continue_loop_S. rewrite Hu.
           unfold mbind at 1. unfold mbind at 1. unfold gets at 1. rewrite shell_upd_async.
           unfold ret at 1. unfold mbind at 1. rewrite can_continue_shell. rewrite Epure.
           cbn [negb]. apply Hall.
        -- (* it could not continue: then the result is not a pause *)
           unfold ret in Hrun. inversion Hrun; subst w1; clear Hrun.
           rewrite can_continue_shell in Hcan. rewrite Epure in Hcan. discriminate.
    + (* the step raised an error: the loop ends with the error recorded — not a pause *)
      rewrite Hs in Hrun.
      destruct (add_error_msg e false (shell_upd true r p l w0)) as [[[]|k2 e2|s2] w2] eqn:Ea;
        try discriminate.
      inversion Hrun; subst w1; clear Hrun.
      pose proof (add_error_cannot_continue e _ _ _ true Ea Hcan eq_refl). discriminate.
    + rewrite Hs in Hrun. discriminate.
Qed.

End Slicing.
