(* Shell/Balance.v — the continue-nesting counter (Story::recursive_continue_count) is BALANCED:
   whenever continue_internal returns — normally or with a StoryError — the counter is what it was
   before the call (a panic poisons the story object and is excluded).  Hence every host operation
   leaves the counter at 0, and the observation batch of the next outermost continue always starts.
   (The C09 defect e98ca2b and the seeded C04 change are exactly leaks of this counter.) *)
From Ink.Engine Require Import Api Tie.
From Ink.Shell Require Import Keeps KeepsStep HostFrame NoErr Invariant.

Section Balance.
Variable I : iface.
Variable sw : switches.
Hypothesis Hfirst : sw_cont_check_first sw = true.
Hypothesis Hdec : sw_counter_dec_first sw = true.

(* ---------- no StoryError escapes between the increment and the decrement ---------- *)
Lemma ner_get_path_comps : forall p c, NER (get_path_comps c p).
Proof. induction p as [|s r IH]; intros c; cbn [get_path_comps]; ner; try apply IH. Qed.
Hint Resolve ner_get_path_comps : noerr.
Lemma ner_get_path root p : NER (get_path root p).
Proof. unfold get_path. ner. Qed.
Hint Resolve ner_get_path : noerr.
Lemma ner_ptr_path root p : NER (ptr_path root p).
Proof. unfold ptr_path. ner. Qed.
Hint Resolve ner_ptr_path : noerr.

Lemma ne_add_error_msg m b : NoErr (add_error_msg m b).
Proof. unfold add_error_msg. ne. Qed.
Hint Resolve ne_add_error_msg : noerr.
Lemma ne_add_error m b : NoErr (add_error m b).
Proof. unfold add_error. auto with noerr. Qed.
Hint Resolve ne_add_error : noerr.
Lemma ne_can_continue : NoErr m_can_continue.
Proof. unfold m_can_continue. ne. Qed.
Hint Resolve ne_can_continue : noerr.
Lemma ne_restore : NoErr restore_state_snapshot.
Proof. unfold restore_state_snapshot. ne. Qed.
Lemma ne_end_of_content : NoErr end_of_content_errors.
Proof. unfold end_of_content_errors. ne. Qed.
Lemma ne_clock_tick : NoErr clock_tick.
Proof. unfold clock_tick. ne. Qed.
Hint Resolve ne_restore ne_end_of_content ne_clock_tick : noerr.

(* the loop turns every StoryError of a step into a recorded error *)
Lemma ne_continue_loop fuel : NoErr (continue_loop I sw fuel).
Proof.
  induction fuel as [|n IH]; cbn [continue_loop]; [apply ne_panic|].
  intros w k e w' E.
  destruct (continue_single_step I sw w) as [[ends|k0 m|site] w1]; [| |discriminate].
  - destruct ends; [discriminate|].
    assert (H : NoErr (let* tick := (let* a := gets w_async in if a then clock_tick else ret false) in
                       if tick then ret false else
                       let* can := m_can_continue in
                       if negb can then ret false else continue_loop I sw n)) by ne.
    exact (H w1 k e w' E).
  - destruct (add_error_msg m false w1) as [[?|k1 e1|?] w2] eqn:Ea; try discriminate.
    exact (ne_add_error_msg m false w1 k1 e1 w2 Ea).
Qed.
Hint Resolve ne_continue_loop : noerr.

Lemma ner_vs_complete_observation v : NER (vs_complete_observation v).
Proof.
  unfold vs_complete_observation. apply ner_bind; [|intros; ner].
  generalize (@nil (text * value)). 
  induction (match vs_changed v with Some l => l | None => [] end) as [|n r IH]; intros acc; cbn [foldM]; ner; try apply IH.
Qed.
Hint Resolve ner_vs_complete_observation : noerr.

Lemma rcc_state w g : w_rcc (w <| w_state ::= g |>) = w_rcc w. Proof. destruct w; reflexivity. Qed.
Lemma rcc_events w g : w_rcc (w <| w_events ::= g |>) = w_rcc w. Proof. destruct w; reflexivity. Qed.
Lemma rcc_unsafe w b : w_rcc (w <| w_saw_unsafe := b |>) = w_rcc w. Proof. destruct w; reflexivity. Qed.
Lemma rcc_fuel w g : w_rcc (w <| w_fuel ::= g |>) = w_rcc w. Proof. destruct w; reflexivity. Qed.
Lemma rcc_snap w g : w_rcc (w <| w_snapshot ::= g |>) = w_rcc w. Proof. destruct w; reflexivity. Qed.
Lemma rcc_pauses w g : w_rcc (w <| w_pauses ::= g |>) = w_rcc w. Proof. destruct w; reflexivity. Qed.
Lemma rcc_pause_left w g : w_rcc (w <| w_pause_left ::= g |>) = w_rcc w. Proof. destruct w; reflexivity. Qed.
Lemma rcc_async w g : w_rcc (w <| w_async ::= g |>) = w_rcc w. Proof. destruct w; reflexivity. Qed.
Ltac rccfacts := first [exact rcc_state|exact rcc_events|exact rcc_unsafe|exact rcc_fuel|exact rcc_snap
                        |exact rcc_pauses|exact rcc_pause_left|exact rcc_async].

Lemma kr_loop fuel : Keeps w_rcc (continue_loop I sw fuel).
Proof. apply hk_continue_loop; rccfacts. Qed.
Lemma kr_can : Keeps w_rcc m_can_continue.
Proof. apply hk_can_continue; rccfacts. Qed.
Lemma kr_restore : Keeps w_rcc restore_state_snapshot.
Proof. apply hk_restore; rccfacts. Qed.
Lemma kr_eoc : Keeps w_rcc end_of_content_errors.
Proof. apply hk_end_of_content; rccfacts. Qed.
Lemma kr_deliver : Keeps w_rcc (deliver_errors sw).
Proof. apply hk_deliver; rccfacts. Qed.
Lemma kr_notify n x : Keeps w_rcc (notify_variable_changed n x).
Proof. apply hk_notify; rccfacts. Qed.
Hint Resolve kr_loop kr_can kr_restore kr_eoc kr_deliver kr_notify : keeps.

Ltac kr := repeat ((apply keeps_modify; intros []; reflexivity)
                   || (apply keeps_mod_state; exact rcc_state) || (apply keeps_get_state) || keeps_step).


(* ---------- Hoare triples on the counter ---------- *)
Definition Pk (x : N) (w : world) : Prop := w_rcc w = x.

Lemma keeps_triple {A} (m : M A) x : Keeps w_rcc m -> triple (Pk x) m (fun _ => Pk x) (Pk x).
Proof.
  intros Hk w Hw. specialize (Hk w). unfold Pk in *.
  destruct (m w) as [[a|k e|s] w']; cbn [snd] in Hk; try congruence. exact Logic.I.
Qed.
Lemma keeps_ne_triple {A} (m : M A) x (E : world -> Prop) :
  Keeps w_rcc m -> NoErr m -> triple (Pk x) m (fun _ => Pk x) E.
Proof.
  intros Hk Hn w Hw. specialize (Hk w). unfold Pk in *.
  destruct (m w) as [[a|k e|s] w'] eqn:Em; cbn [snd] in Hk; try congruence.
  - exfalso. exact (Hn w k e w' Em).
  - exact Logic.I.
Qed.

Theorem continue_internal_balanced limited r :
  triple (Pk r) (continue_internal I sw limited) (fun _ => Pk r) (Pk r).
Proof.
  unfold continue_internal. rewrite Hfirst, Hdec. cbn [negb andb when].
  eapply triple_bind; [apply keeps_triple, keeps_get|]. intros w00. cbn beta.
  eapply triple_bind; [apply keeps_triple, kr_can|]. intros can0.
  destruct (negb (w_async w00) && negb can0).
  { intros w Hw. exact Hw. }
  eapply triple_bind.
  { apply (triple_modify (Pk r) (Pk (N.succ r))). intros w Hw. unfold Pk in *. destruct w; cbn in *. now subst. }
  intros ?.
  eapply triple_bind; [apply keeps_ne_triple; [apply keeps_get|apply ne_get]|]. intros w. cbn beta.
  eapply triple_bind.
  { apply keeps_ne_triple; [kr|ne]. }
  intros ?.
  eapply triple_bind; [apply keeps_ne_triple; [kr|ne]|]. intros ?.
  eapply triple_bind; [apply keeps_ne_triple; [apply keeps_get|apply ne_get]|]. intros w2. cbn beta.
  eapply triple_bind; [apply keeps_ne_triple; [apply kr_loop|apply ne_continue_loop]|]. intros ends.
  eapply triple_bind; [apply keeps_ne_triple; [apply kr_can|apply ne_can_continue]|]. intros can.
  eapply triple_bind.
  { apply keeps_ne_triple; [kr|ne]. }
  intros changed.
  eapply triple_bind.
  { apply (triple_modify (Pk (N.succ r)) (Pk r)). intros w' Hw. unfold Pk in *. destruct w'; cbn in *. subst. apply N.pred_succ. }
  intros ?.
  eapply triple_bind; [apply keeps_triple, kr_deliver|]. intros ?.
  eapply triple_bind; [apply keeps_triple, keeps_ret|]. intros ?.
  destruct changed as [m|]; [|apply keeps_triple, keeps_ret].
  apply keeps_triple. apply keeps_mfor. intros kv. apply kr_notify.
Qed.

(* ---------- every host operation is balanced ---------- *)
Definition Balanced {A} (m : M A) : Prop := forall r, triple (Pk r) m (fun _ => Pk r) (Pk r).

Lemma bal_keeps {A} (m : M A) : Keeps w_rcc m -> Balanced m.
Proof. intros H r. apply keeps_triple, H. Qed.
Lemma bal_bind {A B} (m : M A) (f : A -> M B) : Balanced m -> (forall x, Balanced (f x)) -> Balanced (mbind m f).
Proof. intros Hm Hf r. eapply triple_bind; [apply Hm|]. intros x. apply Hf. Qed.
Lemma bal_continue_internal limited : Balanced (continue_internal I sw limited).
Proof. intros r. apply continue_internal_balanced. Qed.

Lemma rcc_lines w g : w_rcc (w <| w_lines ::= g |>) = w_rcc w. Proof. destruct w; reflexivity. Qed.
Lemma rcc_validated w g : w_rcc (w <| w_validated ::= g |>) = w_rcc w. Proof. destruct w; reflexivity. Qed.
Ltac rccfacts2 := first [rccfacts|exact rcc_lines|exact rcc_validated].

Lemma kr_if_async : Keeps w_rcc if_async_we_cant. Proof. apply hk_if_async. Qed.
Lemma kr_validate : Keeps w_rcc validate_external_bindings. Proof. apply hk_validate; rccfacts2. Qed.
Hint Resolve kr_if_async kr_validate : keeps.

Lemma bal_continue_async l : Balanced (continue_async I sw l).
Proof.
  unfold continue_async, cont_internal. apply bal_bind; [apply bal_keeps, keeps_gets|]. intros v.
  apply bal_bind; [apply bal_keeps, keeps_when, kr_validate|]. intros _. apply bal_continue_internal.
Qed.
Lemma bal_story_cont : Balanced (story_cont I sw).
Proof.
  unfold story_cont. apply bal_bind; [apply bal_continue_async|]. intros _.
  apply bal_keeps. unfold get_current_text. kr.
Qed.
Theorem bal_api_cont : Balanced (api_cont I sw).
Proof.
  unfold api_cont. apply bal_bind; [apply bal_story_cont|]. intros t.
  apply bal_keeps. kr.
Qed.
Lemma bal_cont_max_fuel fuel : forall acc, Balanced (continue_maximally_fuel I sw fuel acc).
Proof.
  induction fuel as [|n IH]; intros acc; cbn [continue_maximally_fuel]; [apply bal_keeps, keeps_fail|].
  apply bal_bind; [apply bal_keeps, kr_can|]. intros can. destruct can; [|apply bal_keeps, keeps_ret].
  apply bal_bind; [apply bal_story_cont|]. intros t. apply IH.
Qed.
Theorem bal_continue_maximally : Balanced (continue_maximally I sw).
Proof.
  unfold continue_maximally. apply bal_bind; [apply bal_keeps, kr_if_async|]. intros _.
  apply bal_bind; [apply bal_keeps, keeps_get|]. intros w. apply bal_cont_max_fuel.
Qed.
Theorem bal_choose_choice_index i : Balanced (choose_choice_index I sw i).
Proof. apply bal_keeps. apply hk_choose_choice_index; rccfacts2. Qed.
Theorem bal_choose_path_string p r a : Balanced (choose_path_string I sw p r a).
Proof. apply bal_keeps. apply hk_choose_path_string; rccfacts2. Qed.
Lemma bal_eval_loop fuel : forall acc, Balanced (eval_loop I sw fuel acc).
Proof.
  induction fuel as [|n IH]; intros acc; cbn [eval_loop]; [apply bal_keeps, keeps_fail|].
  apply bal_bind; [apply bal_keeps, kr_can|]. intros can. destruct can; [|apply bal_keeps, keeps_ret].
  apply bal_bind; [apply bal_story_cont|]. intros t. apply IH.
Qed.
Theorem bal_evaluate_function n a : Balanced (evaluate_function I sw n a).
Proof.
  unfold evaluate_function.
  apply bal_bind; [apply bal_keeps, kr_if_async|]. intros _.
  destruct (match trim n with [] => true | _ => false end); [apply bal_keeps, keeps_fail|].
  apply bal_bind; [apply bal_keeps, keeps_gets|]. intros root.
  destruct (knot_container_with_name root n) as [fp|]; [|apply bal_keeps, keeps_fail].
  apply bal_bind; [apply bal_keeps, keeps_when; apply hk_validate_args|]. intros _.
  apply bal_bind; [apply bal_keeps, keeps_get_state|]. intros s.
  apply bal_bind; [apply bal_keeps, keeps_mod_state; exact rcc_state|]. intros _.
  apply bal_bind; [apply bal_keeps, keeps_m_cs_res; exact rcc_state|]. intros _.
  apply bal_bind; [apply bal_keeps, keeps_m_state_res; exact rcc_state|]. intros _.
  apply bal_bind; [apply bal_keeps; apply hk_pass_args; rccfacts2|]. intros _.
  apply bal_bind; [apply bal_keeps, keeps_get|]. intros w.
  apply bal_bind; [apply bal_eval_loop|]. intros txt.
  apply bal_bind; [apply bal_keeps, keeps_mod_state; exact rcc_state|]. intros _.
  apply bal_bind; [apply bal_keeps; apply hk_complete_fn; rccfacts2|]. intros r0.
  apply bal_keeps, keeps_ret.
Qed.
Theorem bal_set_variable n x : Balanced (set_variable I sw n x).
Proof. apply bal_keeps. apply hk_set_variable; rccfacts2. Qed.
Theorem bal_switch_flow n : Balanced (switch_flow n).
Proof. apply bal_keeps. apply hk_switch_flow; rccfacts2. Qed.
Theorem bal_switch_default : Balanced (switch_to_default_flow sw).
Proof. apply bal_keeps. apply hk_switch_default; rccfacts2. Qed.
Theorem bal_remove_flow n : Balanced (remove_flow sw n).
Proof. apply bal_keeps. apply hk_remove_flow; rccfacts2. Qed.
Lemma bal_reset_globals : Balanced (reset_globals I sw).
Proof.
  unfold reset_globals, cont_internal.
  apply bal_bind; [apply bal_keeps, keeps_gets|]. intros root.
  apply bal_bind; [|intros _; apply bal_keeps, keeps_mod_state; exact rcc_state].
  destruct (lookup_named root (T "global decl")); [|apply bal_keeps, keeps_ret].
  apply bal_bind; [apply bal_keeps, keeps_m_read; exact rcc_state|]. intros orig.
  apply bal_bind; [apply bal_keeps; apply kp_choose_path; rccfacts2|]. intros _.
  apply bal_bind; [apply bal_continue_internal|]. intros _.
  apply bal_keeps, keeps_m_state_res; exact rcc_state.
Qed.
Theorem bal_reset_state seed : Balanced (reset_state I sw seed).
Proof.
  unfold reset_state. apply bal_bind; [apply bal_keeps, kr_if_async|]. intros _.
  apply bal_bind; [apply bal_keeps, keeps_mod_state; exact rcc_state|]. intros _. apply bal_reset_globals.
Qed.

(* all story operations (HostFrame.story_op) *)
Theorem story_ops_balanced op : Balanced (run_story_op I sw op).
Proof.
  destruct op; cbn [run_story_op].
  - apply bal_bind; [apply bal_api_cont|intros; apply bal_keeps, keeps_ret].
  - apply bal_bind; [apply bal_continue_maximally|intros; apply bal_keeps, keeps_ret].
  - apply bal_continue_async.
  - apply bal_choose_choice_index.
  - apply bal_choose_path_string.
  - apply bal_bind; [apply bal_evaluate_function|intros; apply bal_keeps, keeps_ret].
  - apply bal_set_variable.
  - apply bal_switch_flow.
  - apply bal_switch_default.
  - apply bal_remove_flow.
  - apply bal_reset_state.
Qed.

(* ---------- the invariant ---------- *)
(* no operation of the session ended in a panic (a panic poisons the story object) *)
Fixpoint no_panic (ops : list story_op) (w : world) : Prop :=
  match ops with
  | [] => True
  | op :: r => (forall s, fst (run_story_op I sw op w) <> OPanic s) /\ no_panic r (snd (run_story_op I sw op w))
  end.

Theorem nesting_counter_invariant : forall ops w,
  w_rcc w = 0 -> no_panic ops w -> w_rcc (run_story_ops I sw ops w) = 0.
Proof.
  induction ops as [|op r IH]; intros w H0 Hnp; cbn [run_story_ops]; [exact H0|].
  destruct Hnp as [Hp Hr]. apply IH; [|exact Hr].
  pose proof (story_ops_balanced op 0 w H0) as H.
  destruct (run_story_op I sw op w) as [[x|k e|s] w'] eqn:E; cbn [snd fst] in *.
  - exact H.
  - exact H.
  - exfalso. exact (Hp s eq_refl).
Qed.
End Balance.
