(* Shell/PatchInv.v — "a look-ahead patch exists exactly while a look-ahead snapshot exists":
       Inv3 w := no snapshot  -> no patch (neither StoryState.patch nor the VariablesState's copy)
              /\ snapshot s   -> s is patch-free and the live state carries both patches
   is preserved by the single step of the continue loop, by the loop, by continue_internal and by
   every story operation.  Consequences: (1) every snapshot is taken of a patch-free state, which is
   the hypothesis of the rewind theorem (Shell/Rewind.v) — so rewinding is exact in every reachable
   world; (2) between host calls there is no patch, so what save_state writes are the base maps. *)
From Ink.Engine Require Import Api Tie.
From Ink.Shell Require Import Keeps KeepsStep Invariant PatchShape Rewind HostFrame Balance BetweenCalls ResetProofs.

Definition Inv3 (w : world) : Prop :=
  match w_snapshot w with
  | None => wshape w = (false, false)
  | Some s => shape s = (false, false) /\ wshape w = (true, true)
  end.

Lemma patch_free_shape s : patch_free s <-> shape s = (false, false).
Proof.
  unfold patch_free, shape. destruct (ss_patch s), (vs_patch (ss_vars s)); split; intros H;
    try (destruct H; discriminate); try discriminate; auto.
Qed.

Definition sv (w : world) := (w_snapshot w, wshape w).
Lemma sv_inv3 w w' : sv w' = sv w -> Inv3 w -> Inv3 w'.
Proof.
  unfold sv, Inv3. intros E.
  assert (E1 : w_snapshot w' = w_snapshot w) by exact (f_equal fst E).
  assert (E2 : wshape w' = wshape w) by exact (f_equal snd E).
  rewrite E1, E2. auto.
Qed.

Lemma keeps_pair {A X Y} (f : world -> X) (g : world -> Y) (m : M A) :
  Keeps f m -> Keeps g m -> Keeps (fun w => (f w, g w)) m.
Proof. intros Hf Hg w. now rewrite Hf, Hg. Qed.

Lemma inv3_keeps {A} (m : M A) : Keeps sv m -> triple Inv3 m (fun _ => Inv3) Inv3.
Proof.
  intros Hk w Hw. specialize (Hk w).
  destruct (m w) as [[a|k e|s] w']; cbn [snd] in Hk; try exact (sv_inv3 _ _ Hk Hw). exact Logic.I.
Qed.

Section PatchInv.
Variable I : iface.
Variable sw : switches.

Ltac snapfacts := intros w ?; destruct w; reflexivity.
Lemma ksv_step : Keeps sv (step I sw).
Proof. apply keeps_pair; [apply ks_step|apply kw_step_thm]. Qed.
Lemma ksv_can : Keeps sv m_can_continue.
Proof. apply keeps_pair; [apply ks_can_continue|apply kw_can_continue]. Qed.
Lemma ksv_follow : Keeps sv (try_follow_default_invisible_choice I sw).
Proof. apply keeps_pair; [apply ks_try_follow|apply kw_try_follow]. Qed.
Lemma ksv_m_read {A} (g : sstate -> Res A) : Keeps sv (m_read g).
Proof. apply keeps_pair; [apply keeps_m_read; snapfacts|apply kw_m_read]. Qed.
Lemma ksv_add_error_msg m b : Keeps sv (add_error_msg m b).
Proof. apply keeps_pair; [apply kp_add_error_msg; snapfacts|apply kw_add_error_msg]. Qed.

(* restoring: the snapshot's (patch-free) state comes back *)
Lemma restore_inv3 : triple (fun w => Inv3 w /\ w_snapshot w <> None) restore_state_snapshot (fun _ => Inv3) Inv3.
Proof.
  intros w [Hi Hs]. unfold Inv3 in Hi. destruct (w_snapshot w) as [snap|] eqn:Es; [|contradiction].
  destruct Hi as [Hsnap _]. apply patch_free_shape in Hsnap.
  destruct (restore_gives_snapshot w snap Es Hsnap) as [w3 [E [Hst [Hn _]]]]. rewrite E.
  unfold Inv3. rewrite Hn. unfold wshape. rewrite Hst. now apply patch_free_shape.
Qed.

(* discarding: the patches are applied and cleared *)
Lemma apply_any_patch_shape s s' : apply_any_patch s = Ok s' ->
  (shape s = (true, true) \/ shape s = (false, false)) -> shape s' = (false, false).
Proof.
  unfold apply_any_patch, shape. intros E H.
  destruct s as [fl se va ev er wa pa nm di vi tu t sd pr]. cbn in *.
  destruct pa as [p|].
  - unfold vs_apply_patch in E. destruct va as [g df bt ch vp]. cbn in *.
    destruct vp as [q|]; cbn in E; [|discriminate]. injection E as <-. reflexivity.
  - injection E as <-. cbn. destruct H as [H|H]; [discriminate|exact H].
Qed.
Lemma m_state_res_run f w :
  m_state_res f w = match f (w_state w) with
                    | Ok s' => (OOk tt, w <| w_state := s' |>)
                    | Err k e => (OErr k e, w)
                    | Panic s => (OPanic s, w)
                    end.
Proof.
  unfold m_state_res, mbind, get_state, gets, lift, mod_state, modify.
  destruct (f (w_state w)); reflexivity.
Qed.
Lemma discard_inv3 : triple Inv3 discard_snapshot (fun _ => Inv3) Inv3.
Proof.
  unfold discard_snapshot.
  eapply (triple_bind _ _ (fun _ w => wshape w = (false, false))).
  - intros w Hi. rewrite m_state_res_run.
    assert (H : shape (w_state w) = (true, true) \/ shape (w_state w) = (false, false)).
    { unfold Inv3, wshape in Hi. destruct (w_snapshot w); [left; apply Hi|right; exact Hi]. }
    destruct (apply_any_patch (w_state w)) as [s'|k e|s0] eqn:E.
    + pose proof (apply_any_patch_shape _ _ E H) as Hs. destruct w. exact Hs.
    + exfalso. unfold apply_any_patch in E. destruct (ss_patch (w_state w)); [|discriminate].
      unfold vs_apply_patch in E. destruct (vs_patch (ss_vars (w_state w))); cbn in E; discriminate.
    + exact Logic.I.
  - intros _. intros w Hw. unfold modify. unfold Inv3. destruct w. exact Hw.
Qed.

(* taking a snapshot when there is none *)
Lemma snapshot_inv3 : triple (fun w => Inv3 w /\ w_snapshot w = None) (state_snapshot sw) (fun _ => Inv3) Inv3.
Proof.
  intros w [Hi Hs]. unfold Inv3 in Hi. rewrite Hs in Hi.
  unfold state_snapshot, modify. unfold Inv3. destruct w as [a st c d sn o1 o2 o3 o4 o5 o6 o7 o8 o9 o10 o11].
  cbn in *. subst sn. split; [exact Hi|].
  unfold copy_and_start_patching, shape. destruct st as [fl se va ev er wa pa nm di vi tu t sd pr]. cbn.
  reflexivity.
Qed.

Lemma tw {A} (P P' : world -> Prop) (m : M A) Q E :
  triple P' m Q E -> (forall w, P w -> P' w) -> triple P m Q E.
Proof. intros H HP. eapply triple_weaken; [exact H|exact HP|auto|auto]. Qed.

Theorem continue_single_step_inv3 : triple Inv3 (continue_single_step I sw) (fun _ => Inv3) Inv3.
Proof.
  unfold continue_single_step.
  eapply triple_bind; [apply inv3_keeps, ksv_step|]. intros ?.
  eapply triple_bind; [apply inv3_keeps, ksv_can|]. intros can.
  eapply triple_bind; [apply inv3_keeps, ksv_m_read|]. intros fg.
  eapply triple_bind; [apply inv3_keeps, keeps_when, ksv_follow|]. intros ?.
  eapply triple_bind; [apply inv3_keeps, keeps_gets|]. intros s.
  destruct (in_string_evaluation s); [apply inv3_keeps, keeps_ret|].
  eapply triple_bind; [apply triple_get|]. intros w. cbn beta.
  eapply (triple_bind _ _ (fun _ => Inv3)).
  { destruct (w_snapshot w) as [snap|] eqn:Es.
    - assert (R : triple (fun w0 => w = w0 /\ Inv3 w0) (let* _ := restore_state_snapshot in ret true) (fun _ => Inv3) Inv3).
      { eapply triple_bind; [|intros ?; apply inv3_keeps, keeps_ret].
        eapply tw; [apply restore_inv3|]. intros w0 [<- Hi]. split; [exact Hi|rewrite Es; discriminate]. }
      assert (D : triple (fun w0 => w = w0 /\ Inv3 w0) (let* _ := discard_snapshot in ret false) (fun _ => Inv3) Inv3).
      { eapply triple_bind; [|intros ?; apply inv3_keeps, keeps_ret].
        eapply tw; [apply discard_inv3|]. intros w0 [_ Hi]. exact Hi. }
      assert (N : forall b : bool, triple (fun w0 => w = w0 /\ Inv3 w0) (ret b) (fun _ => Inv3) Inv3).
      { intros b w0 [_ Hi]. exact Hi. }
      destruct (newline_output_state_change _ _ _ _); [| exact R |];
        destruct (w_saw_unsafe w); try exact R; try exact D; apply N.
    - intros w0 [_ Hi]. exact Hi. }
  intros finished. destruct finished; [apply inv3_keeps, keeps_ret|].
  eapply triple_bind; [apply inv3_keeps, keeps_gets|]. intros s2.
  eapply (triple_bind _ _ (fun _ => Inv3)); [|intros ?; apply inv3_keeps, keeps_ret].
  destruct (output_ends_in_newline s2); [|apply inv3_keeps, keeps_ret].
  eapply triple_bind; [apply inv3_keeps, ksv_can|]. intros can2.
  destruct can2; [|apply discard_inv3].
  eapply triple_bind; [apply triple_get|]. intros w2. cbn beta.
  destruct (w_snapshot w2) eqn:Es2.
  - intros w0 [_ Hi]. exact Hi.
  - eapply tw; [apply snapshot_inv3|]. intros w0 [<- Hi]. split; [exact Hi|exact Es2].
Qed.

Definition Pres3 {A} (m : M A) : Prop := triple Inv3 m (fun _ => Inv3) Inv3.
Lemma p3_keeps {A} (m : M A) : Keeps sv m -> Pres3 m.
Proof. apply inv3_keeps. Qed.
Lemma p3_bind {A B} (m : M A) (f : A -> M B) : Pres3 m -> (forall x, Pres3 (f x)) -> Pres3 (mbind m f).
Proof. intros Hm Hf. eapply triple_bind; [apply Hm|]. intros x. apply Hf. Qed.

(* world-level writes that touch neither the snapshot nor the state *)
Lemma ksv_modify g : (forall w, w_snapshot (g w) = w_snapshot w /\ w_state (g w) = w_state w) -> Keeps sv (modify g).
Proof. intros H. apply keeps_modify. intros w. destruct (H w) as [H1 H2]. unfold sv, wshape. now rewrite H1, H2. Qed.
Lemma ksv_mod_state g : SK g -> Keeps sv (mod_state g).
Proof.
  intros H. apply keeps_pair; [apply keeps_mod_state; intros w ?; destruct w; reflexivity|apply kw_mod_state, H].
Qed.
Lemma ksv_clock_tick : Keeps sv clock_tick.
Proof.
  unfold clock_tick. apply keeps_bind; [apply keeps_get|]. intros w0.
  destruct (N.eqb (w_pause_left w0) 0); [apply keeps_ret|].
  destruct (N.eqb (w_pause_left w0) 1); (apply keeps_bind; [|intros ?; apply keeps_ret]); apply ksv_modify; intros w.
  - destruct (w_pauses w); destruct w; split; reflexivity.
  - destruct w; split; reflexivity.
Qed.

Lemma p3_continue_loop fuel : Pres3 (continue_loop I sw fuel).
Proof.
  induction fuel as [|n IH]; cbn [continue_loop]; [apply p3_keeps, keeps_panic|].
  intros w Hw. pose proof (continue_single_step_inv3 w Hw) as H1.
  destruct (continue_single_step I sw w) as [[ends|k m|site] w1]; [| |exact Logic.I].
  - destruct ends; [exact H1|].
    assert (H : Pres3 (let* tick := (let* a := gets w_async in if a then clock_tick else ret false) in
                       if tick then ret false else
                       let* can := m_can_continue in
                       if negb can then ret false else continue_loop I sw n)).
    { apply p3_bind.
      - apply p3_keeps. apply keeps_bind; [apply keeps_gets|]. intros a. destruct a; [apply ksv_clock_tick|apply keeps_ret].
      - intros tick. destruct tick; [apply p3_keeps, keeps_ret|].
        apply p3_bind; [apply p3_keeps, ksv_can|]. intros can. destruct can; cbn [negb]; [exact IH|apply p3_keeps, keeps_ret]. }
    exact (H w1 H1).
  - pose proof (inv3_keeps _ (ksv_add_error_msg m false) w1 H1) as H2.
    destruct (add_error_msg m false w1) as [[?|? ?|?] w2]; exact H2.
Qed.

Lemma ksv_log_event e : Keeps sv (log_event e).
Proof. unfold log_event. apply ksv_modify. intros w. destruct w; split; reflexivity. Qed.
Lemma ksv_add_error m b : Keeps sv (add_error m b).
Proof. unfold add_error. apply ksv_add_error_msg. Qed.
Lemma ksv_end_of_content : Keeps sv end_of_content_errors.
Proof.
  unfold end_of_content_errors.
  repeat (first [apply ksv_add_error | apply keeps_ret | apply keeps_lift | apply keeps_gets
                | (apply keeps_bind; [|intros ?]) | apply keeps_when
                | match goal with |- Keeps _ (if ?b then _ else _) => destruct b end
                | match goal with |- Keeps _ (match ?x with _ => _ end) => destruct x end]).
Qed.
Lemma ksv_notify n x : Keeps sv (notify_variable_changed n x).
Proof.
  unfold notify_variable_changed. apply keeps_bind; [apply keeps_get|]. intros w.
  destruct (assoc n (w_observers w)); [|apply keeps_ret]. apply keeps_mfor. intros o. apply ksv_log_event.
Qed.
Lemma ksv_deliver : Keeps sv (deliver_errors sw).
Proof.
  unfold deliver_errors, reset_errors, reset_warnings.
  apply keeps_bind; [apply keeps_get|]. intros w.
  destruct (ss_has_error (w_state w) || ss_has_warning (w_state w)); [|apply keeps_ret].
  destruct (w_handler w).
  - apply keeps_bind; [apply keeps_mfor; intros; apply ksv_log_event|]. intros ?.
    apply keeps_bind; [apply keeps_mfor; intros; apply ksv_log_event|]. intros ?.
    apply keeps_bind; [apply ksv_mod_state; intros s; apply sh_errors|]. intros ?.
    apply keeps_when. apply ksv_mod_state. intros s. apply sh_warnings.
  - destruct (ss_has_error (w_state w)); [apply keeps_fail|]. apply ksv_mod_state. intros s. apply sh_errors.
Qed.

Lemma sk_start_observation : SK (fun s => s <| ss_vars ::= vs_start_observation |>).
Proof. intros s. destruct s as [fl se va]. destruct va. reflexivity. Qed.
Lemma sk_reset_and_safe : SK (fun s => reset_output [] (s <| ss_safe_exit := false |>)).
Proof. intros s. rewrite sk_reset_output. apply sh_safe_exit. Qed.
Lemma sk_safe_exit b : SK (fun s => s <| ss_safe_exit := b |>).
Proof. intros s. apply sh_safe_exit. Qed.

(* the observation-completion block: the variables state it writes back has the same patch *)
Lemma p3_complete_block :
  Pres3 (let* s := get_state in
         let* (m, v') := lift (vs_complete_observation (ss_vars s)) in
         let* _ := mod_state (fun s => s <| ss_vars := v' |>) in
         ret (Some m)).
Proof.
  intros w Hw. unfold mbind at 1. unfold get_state, gets. unfold mbind at 1. unfold lift.
  destruct (vs_complete_observation (ss_vars (w_state w))) as [[m v']| |] eqn:E; try exact Hw; try exact Logic.I.
  assert (Hv : vs_patch v' = vs_patch (ss_vars (w_state w))).
  { unfold vs_complete_observation in E. destruct (foldM _ _ _); cbn [bind] in E; try discriminate.
    injection E as _ <-. destruct (ss_vars (w_state w)); reflexivity. }
  unfold mbind, mod_state, modify, ret.
  apply (sv_inv3 w); [|exact Hw].
  unfold sv, wshape. destruct w as [a st c d sn o1 o2 o3 o4 o5 o6 o7 o8 o9 o10 o11]. cbn in *.
  f_equal. unfold shape. destruct st as [fl se va ev er wa pa nm di vi tu t sd pr]. cbn in *. now rewrite Hv.
Qed.

Theorem p3_continue_internal limited : Pres3 (continue_internal I sw limited).
Proof.
  unfold continue_internal.
  apply p3_bind; [apply p3_keeps, keeps_get|]. intros w00.
  apply p3_bind; [apply p3_keeps, ksv_can|]. intros can0.
  destruct (sw_cont_check_first sw && negb (w_async w00) && negb can0); [apply p3_keeps, keeps_fail|].
  apply p3_bind; [apply p3_keeps, ksv_modify; intros w; destruct w; split; reflexivity|]. intros ?.
  apply p3_bind; [apply p3_keeps, keeps_get|]. intros w.
  apply p3_bind.
  { apply p3_keeps. destruct (negb (w_async w)).
    - apply keeps_bind; [apply ksv_modify; intros w0; destruct w0; split; reflexivity|]. intros ?.
      apply keeps_bind; [apply ksv_can|]. intros can.
      destruct (negb (sw_cont_check_first sw) && negb can); [apply keeps_fail|].
      apply keeps_bind; [apply ksv_mod_state, sk_reset_and_safe|]. intros ?.
      apply keeps_bind; [apply keeps_get|]. intros w1.
      apply keeps_when, ksv_mod_state, sk_start_observation.
    - destruct (negb limited); [apply ksv_modify; intros w0; destruct w0; split; reflexivity|apply keeps_ret]. }
  intros ?.
  apply p3_bind; [apply p3_keeps, ksv_modify; intros w0; destruct w0; split; reflexivity|]. intros ?.
  apply p3_bind; [apply p3_keeps, keeps_get|]. intros w2.
  apply p3_bind; [apply p3_continue_loop|]. intros ends.
  apply p3_bind; [apply p3_keeps, ksv_can|]. intros can.
  apply p3_bind.
  { destruct (ends || negb can); [|apply p3_keeps, keeps_ret].
    eapply triple_bind; [apply triple_get|]. intros w3. cbn beta.
    eapply (triple_bind _ _ (fun _ => Inv3)).
    { destruct (w_snapshot w3) eqn:Es.
      - eapply tw; [apply restore_inv3|]. intros w0 [<- Hi]. split; [exact Hi|rewrite Es; discriminate].
      - intros w0 [_ Hi]. exact Hi. }
    intros ?.
    apply p3_bind; [apply p3_keeps, ksv_can|]. intros can2.
    apply p3_bind; [apply p3_keeps, keeps_when, ksv_end_of_content|]. intros ?.
    apply p3_bind; [apply p3_keeps, ksv_mod_state, sk_safe_exit|]. intros ?.
    apply p3_bind; [apply p3_keeps, ksv_modify; intros w0; destruct w0; split; reflexivity|]. intros ?.
    apply p3_bind; [apply p3_keeps, keeps_get|]. intros w4.
    apply p3_bind.
    { destruct (N.eqb (w_rcc w4) 1); [apply p3_complete_block|apply p3_keeps, keeps_ret]. }
    intros ch.
    apply p3_bind; [apply p3_keeps, ksv_modify; intros w0; destruct w0; split; reflexivity|]. intros ?.
    apply p3_keeps, keeps_ret. }
  intros changed.
  apply p3_bind; [apply p3_keeps, keeps_when, ksv_modify; intros w0; destruct w0; split; reflexivity|]. intros ?.
  apply p3_bind; [apply p3_keeps, ksv_deliver|]. intros ?.
  apply p3_bind; [apply p3_keeps, keeps_when, ksv_modify; intros w0; destruct w0; split; reflexivity|]. intros ?.
  destruct changed as [m|]; [|apply p3_keeps, keeps_ret].
  apply p3_keeps, keeps_mfor. intros kv. apply ksv_notify.
Qed.

(* ---------- the host API ---------- *)
Ltac wsame := intros w0; destruct w0; split; reflexivity.

Lemma ksv_if_async : Keeps sv if_async_we_cant.
Proof. unfold if_async_we_cant. apply keeps_bind; [apply keeps_gets|]. intros a. destruct a; [apply keeps_fail|apply keeps_ret]. Qed.
Lemma ksv_validate : Keeps sv validate_external_bindings.
Proof.
  unfold validate_external_bindings. apply keeps_bind; [apply keeps_get|]. intros w.
  apply keeps_bind; [apply keeps_lift|]. intros missing.
  destruct missing; [apply ksv_modify; wsame|apply keeps_fail].
Qed.
Lemma p3_continue_async l : Pres3 (continue_async I sw l).
Proof.
  unfold continue_async, cont_internal. apply p3_bind; [apply p3_keeps, keeps_gets|]. intros v.
  apply p3_bind; [apply p3_keeps, keeps_when, ksv_validate|]. intros ?. apply p3_continue_internal.
Qed.
Lemma p3_story_cont : Pres3 (story_cont I sw).
Proof.
  unfold story_cont. apply p3_bind; [apply p3_continue_async|]. intros ?.
  apply p3_keeps. unfold get_current_text.
  apply keeps_bind; [apply ksv_if_async|]. intros ?. apply keeps_bind; [apply keeps_gets|]. intros s. apply keeps_ret.
Qed.
Lemma p3_api_cont : Pres3 (api_cont I sw).
Proof.
  unfold api_cont. apply p3_bind; [apply p3_story_cont|]. intros t.
  apply p3_keeps. apply keeps_bind; [apply ksv_modify; wsame|]. intros ?. apply keeps_ret.
Qed.
Lemma p3_cont_max_fuel fuel : forall acc, Pres3 (continue_maximally_fuel I sw fuel acc).
Proof.
  induction fuel as [|n IH]; intros acc; cbn [continue_maximally_fuel]; [apply p3_keeps, keeps_fail|].
  apply p3_bind; [apply p3_keeps, ksv_can|]. intros can. destruct can; [|apply p3_keeps, keeps_ret].
  apply p3_bind; [apply p3_story_cont|]. intros t. apply IH.
Qed.
Lemma p3_continue_maximally : Pres3 (continue_maximally I sw).
Proof.
  unfold continue_maximally. apply p3_bind; [apply p3_keeps, ksv_if_async|]. intros ?.
  apply p3_bind; [apply p3_keeps, keeps_get|]. intros w. apply p3_cont_max_fuel.
Qed.

Lemma ksv_choose_path pa b : Keeps sv (choose_path I sw pa b).
Proof. apply keeps_pair; [apply kp_choose_path; intros w ?; destruct w; reflexivity|apply kw_choose_path]. Qed.
Lemma ksv_push_eval o : Keeps sv (push_eval I o).
Proof. apply keeps_pair; [apply kp_push_eval; intros w ?; destruct w; reflexivity|apply kw_push_eval]. Qed.
Lemma ksv_pop_eval : Keeps sv pop_eval.
Proof. apply keeps_pair; [apply kp_pop_eval; intros w ?; destruct w; reflexivity|apply kw_pop_eval]. Qed.
Lemma ksv_m_cs_res g : Keeps sv (m_cs_res g).
Proof. apply keeps_pair; [apply keeps_m_cs_res; intros w ?; destruct w; reflexivity|apply kw_m_cs_res]. Qed.
Lemma ksv_m_state_res g : SKR g -> Keeps sv (m_state_res g).
Proof. intros H. apply keeps_pair; [apply keeps_m_state_res; intros w ?; destruct w; reflexivity|apply kw_m_state_res, H]. Qed.

Lemma p3_choose i : Pres3 (choose_choice_index I sw i).
Proof.
  apply p3_keeps. unfold choose_choice_index, get_current_choices.
  apply keeps_bind.
  { apply keeps_bind; [apply keeps_gets|]. intros s. apply keeps_bind; [apply ksv_can|]. intros can.
    destruct can; [apply keeps_ret|]. apply keeps_bind; [|intros ?; apply keeps_ret].
    apply ksv_mod_state. intros s0. apply sh_set_choices. }
  intros cs. destruct (nth_error cs i) as [c|]; [|apply keeps_fail].
  destruct (ch_thread c); [|apply keeps_panic].
  apply keeps_bind; [apply ksv_mod_state; intros s0; apply sh_set_cs|]. intros ?. apply ksv_choose_path.
Qed.
Lemma ksv_validate_args a : Keeps sv (validate_arguments a).
Proof. unfold validate_arguments. apply keeps_mfor. intros x. destruct x; try apply keeps_ret; apply keeps_fail. Qed.
Lemma ksv_pass_args a : Keeps sv (pass_arguments I a).
Proof. unfold pass_arguments. apply keeps_mfor. intros x. destruct x; try apply ksv_push_eval; apply keeps_fail. Qed.
Lemma p3_path p r a : Pres3 (choose_path_string I sw p r a).
Proof.
  apply p3_keeps. unfold choose_path_string.
  apply keeps_bind; [apply ksv_if_async|]. intros ?.
  apply keeps_bind.
  { apply keeps_when. apply keeps_bind; [apply keeps_gets|]. intros root.
    apply keeps_bind; [apply keeps_lift|]. intros ?. apply ksv_validate_args. }
  intros ?.
  apply keeps_bind.
  { destruct r.
    - apply keeps_bind; [apply ksv_if_async|]. intros ?. apply ksv_m_state_res, skr_force_end.
    - apply keeps_bind; [apply ksv_m_read|]. intros e. destruct (pushpop_eqb _ _); [apply keeps_fail|apply keeps_ret]. }
  intros ?.
  apply keeps_bind; [apply ksv_pass_args|]. intros ?. apply ksv_choose_path.
Qed.
Lemma p3_eval_loop fuel : forall acc, Pres3 (eval_loop I sw fuel acc).
Proof.
  induction fuel as [|n IH]; intros acc; cbn [eval_loop]; [apply p3_keeps, keeps_fail|].
  apply p3_bind; [apply p3_keeps, ksv_can|]. intros can. destruct can; [|apply p3_keeps, keeps_ret].
  apply p3_bind; [apply p3_story_cont|]. intros t. apply IH.
Qed.
Lemma ksv_pop_down_to fuel : forall h r, Keeps sv (pop_down_to fuel h r).
Proof.
  induction fuel as [|n IH]; intros h r; cbn [pop_down_to]; [apply keeps_ret|].
  apply keeps_bind; [apply keeps_gets|]. intros s. destruct (h <? nlength (ss_eval s))%N; [|apply keeps_ret].
  apply keeps_bind; [apply ksv_pop_eval|]. intros o. apply IH.
Qed.
Lemma ksv_complete_fn : Keeps sv complete_function_evaluation_from_game.
Proof.
  unfold complete_function_evaluation_from_game.
  apply keeps_bind; [apply ksv_m_read|]. intros e.
  destruct (negb (pushpop_eqb (el_type e) PFunctionEvalFromGame)); [apply keeps_fail|].
  apply keeps_bind; [apply keeps_gets|]. intros s.
  apply keeps_bind; [apply ksv_pop_down_to|]. intros r.
  apply keeps_bind; [apply ksv_m_cs_res|]. intros ?.
  destruct r as [[| [] | | | | | | | | | | |]|]; apply keeps_ret.
Qed.
Lemma p3_eval n a : Pres3 (evaluate_function I sw n a).
Proof.
  unfold evaluate_function.
  apply p3_bind; [apply p3_keeps, ksv_if_async|]. intros ?.
  destruct (match trim n with [] => true | _ => false end); [apply p3_keeps, keeps_fail|].
  apply p3_bind; [apply p3_keeps, keeps_gets|]. intros root.
  destruct (knot_container_with_name root n) as [fp|]; [|apply p3_keeps, keeps_fail].
  apply p3_bind; [apply p3_keeps, keeps_when, ksv_validate_args|]. intros ?.
  apply p3_bind; [apply p3_keeps, keeps_gets|]. intros s.
  apply p3_bind; [apply p3_keeps, ksv_mod_state, sk_reset_output|]. intros ?.
  apply p3_bind; [apply p3_keeps, ksv_m_cs_res|]. intros ?.
  apply p3_bind; [apply p3_keeps, ksv_m_state_res, skr_set_cur_pointer|]. intros ?.
  apply p3_bind; [apply p3_keeps, ksv_pass_args|]. intros ?.
  apply p3_bind; [apply p3_keeps, keeps_get|]. intros w.
  apply p3_bind; [apply p3_eval_loop|]. intros txt.
  apply p3_bind; [apply p3_keeps, ksv_mod_state, sk_reset_output|]. intros ?.
  apply p3_bind; [apply p3_keeps, ksv_complete_fn|]. intros r0.
  apply p3_keeps, keeps_ret.
Qed.

Lemma sk_switch_flow_internal name : SK (switch_flow_internal name).
Proof. intros s. unfold switch_flow_internal. destruct (text_eqb _ _); [reflexivity|]. now rewrite sh_named, sh_flow. Qed.
Lemma sk_switch_default_internal : SK switch_to_default_flow_internal.
Proof. intros s. unfold switch_to_default_flow_internal. destruct (ss_named s); [apply sk_switch_flow_internal|reflexivity]. Qed.

Lemma p3_switch n : Pres3 (switch_flow n).
Proof.
  apply p3_keeps. unfold switch_flow. apply keeps_bind; [apply ksv_if_async|]. intros ?.
  apply ksv_mod_state, sk_switch_flow_internal.
Qed.
Lemma p3_switch_default : Pres3 (switch_to_default_flow sw).
Proof.
  apply p3_keeps. unfold switch_to_default_flow. apply keeps_bind; [apply keeps_gets|]. intros a.
  destruct (sw_guard_switch_default sw && a); [apply keeps_ret|apply ksv_mod_state, sk_switch_default_internal].
Qed.
Lemma p3_remove n : Pres3 (remove_flow sw n).
Proof.
  apply p3_keeps. unfold remove_flow.
  apply keeps_bind; [apply keeps_when, ksv_if_async|]. intros ?.
  destruct (text_eqb n DEFAULT_FLOW); [apply keeps_fail|].
  apply keeps_bind.
  { apply ksv_mod_state. intros s. destruct (text_eqb _ _); [apply sk_switch_default_internal|reflexivity]. }
  intros ?. apply keeps_bind; [apply keeps_gets|]. intros s.
  destruct (ss_named s).
  - apply ksv_mod_state. intros s0. apply sh_named.
  - destruct (sw_remove_flow_checked sw); [apply keeps_ret|apply keeps_panic].
Qed.

Lemma sh_vs_host_set s name x b s' : vs_host_set I s name x = Ok (b, s') -> shape s' = shape s.
Proof. unfold vs_host_set. destruct (negb _); [discriminate|]. apply sh_set_global. Qed.

Lemma p3_set_variable n x : Pres3 (set_variable I sw n x).
Proof.
  unfold set_variable. apply p3_bind; [apply p3_keeps, keeps_when, ksv_if_async|]. intros ?.
  intros w Hw. unfold mbind at 1. unfold get_state, gets. unfold mbind at 1. unfold m_defs, gets.
  unfold mbind at 1. unfold lift.
  destruct (vs_host_set I (w_state w) n x) as [[b s']| |] eqn:E; try exact Hw; try exact Logic.I.
  pose proof (sh_vs_host_set _ _ _ _ _ E) as Hs.
  assert (Hi : Inv3 (w <| w_state := s' |>)).
  { apply (sv_inv3 w); [|exact Hw]. unfold sv, wshape. destruct w; cbn in *. now rewrite Hs. }
  assert (T : Pres3 (when b (notify_variable_changed n x))) by (apply p3_keeps, keeps_when, ksv_notify).
  unfold mbind, mod_state, modify.
  exact (T _ Hi).
Qed.

(* reset: needs the bookkeeping invariant too (no snapshot when no time-limited continue is pending) *)
Lemma sk_snapshot_defaults : SK (fun s => s <| ss_vars ::= vs_snapshot_defaults |>).
Proof. intros s. destruct s as [fl se va]. destruct va. reflexivity. Qed.
Lemma p3_reset_globals : Pres3 (reset_globals I sw).
Proof.
  unfold reset_globals, cont_internal.
  apply p3_bind; [apply p3_keeps, keeps_gets|]. intros root.
  apply p3_bind; [|intros ?; apply p3_keeps, ksv_mod_state, sk_snapshot_defaults].
  destruct (lookup_named root (T "global decl")); [|apply p3_keeps, keeps_ret].
  apply p3_bind; [apply p3_keeps, ksv_m_read|]. intros orig.
  apply p3_bind; [apply p3_keeps, ksv_choose_path|]. intros ?.
  apply p3_bind; [apply p3_continue_internal|]. intros ?.
  apply p3_keeps, ksv_m_state_res, skr_set_cur_pointer.
Qed.
Lemma reset_inv3 seed : triple (fun w => Inv2 w /\ Inv3 w) (reset_state I sw seed) (fun _ => Inv3) Inv3.
Proof.
  unfold reset_state. intros w [H2 H3].
  unfold mbind at 1. unfold if_async_we_cant, mbind, gets.
  destruct (w_async w) eqn:Ea; [exact H3|]. cbn [ret].
  destruct (H2 Ea) as [Hs _].
  assert (Hi : Inv3 (w <| w_state := sstate_new seed |>)).
  { unfold Inv3. destruct w; cbn in *. subst. reflexivity. }
  unfold mod_state, modify.
  exact (p3_reset_globals _ Hi).
Qed.
End PatchInv.

(* ---------- the combined invariant over all story operations ---------- *)
Section AllOps3.
Variable I : iface.
Variable sw : switches.
Hypothesis Hfirst : sw_cont_check_first sw = true.
Hypothesis Hdec : sw_counter_dec_first sw = true.

Definition InvAll (w : world) : Prop := Inv w /\ Inv3 w.

Lemma story_op_inv3 op : triple (fun w => Inv2 w /\ Inv3 w) (run_story_op I sw op) (fun _ => Inv3) Inv3.
Proof.
  assert (W : forall A (m : M A), Pres3 m -> triple (fun w => Inv2 w /\ Inv3 w) m (fun _ => Inv3) Inv3).
  { intros A m H. eapply tw; [exact H|]. intros w [_ H3]. exact H3. }
  destruct op; cbn [run_story_op].
  - apply W, p3_bind; [apply p3_api_cont|intros; apply p3_keeps, keeps_ret].
  - apply W, p3_bind; [apply p3_continue_maximally|intros; apply p3_keeps, keeps_ret].
  - apply W, p3_continue_async.
  - apply W, p3_choose.
  - apply W, p3_path.
  - apply W, p3_bind; [apply p3_eval|intros; apply p3_keeps, keeps_ret].
  - apply W, p3_set_variable.
  - apply W, p3_switch.
  - apply W, p3_switch_default.
  - apply W, p3_remove.
  - apply reset_inv3.
Qed.

Theorem all_invariants_preserved : forall ops w,
  InvAll w -> no_panic I sw ops w -> InvAll (run_story_ops I sw ops w).
Proof.
  induction ops as [|op r IH]; intros w [Hi H3] Hnp; cbn [run_story_ops]; [split; assumption|].
  destruct Hnp as [Hp Hr]. apply IH; [|exact Hr].
  pose proof (invariant_preserved I sw Hfirst Hdec [op] w Hi (conj Hp Logic.I)) as Hi'. cbn [run_story_ops] in Hi'.
  destruct Hi as [H0 H2].
  pose proof (story_op_inv3 op w (conj H2 H3)) as H3'.
  destruct (run_story_op I sw op w) as [[x|k e|s] w'] eqn:E; cbn [snd fst] in *.
  - split; assumption.
  - split; assumption.
  - exfalso. exact (Hp s eq_refl).
Qed.

Lemma invall_world_init st seed fuel : InvAll (world_init st seed fuel).
Proof. split; [apply inv_world_init|reflexivity]. Qed.

(* every reachable world without a snapshot is patch-free ... *)
Corollary reachable_patch_free : forall ops st seed fuel,
  no_panic I sw ops (world_init st seed fuel) ->
  let w := run_story_ops I sw ops (world_init st seed fuel) in
  w_snapshot w = None -> patch_free (w_state w).
Proof.
  intros ops st seed fuel Hnp w Hs.
  destruct (all_invariants_preserved ops _ (invall_world_init st seed fuel) Hnp) as [_ H3].
  fold w in H3. unfold Inv3 in H3. rewrite Hs in H3. apply patch_free_shape. exact H3.
Qed.
End AllOps3.
