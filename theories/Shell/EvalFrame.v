(* Shell/EvalFrame.v — C16: a successful evaluate_function puts the pending output back.
   Whatever the evaluated function printed or did, when the call returns normally the output
   stream of the main story (pending text and tags) is exactly what it was before the call. *)
From Ink.Engine Require Import Api Tie.
From Ink.Shell Require Import Keeps Invariant.

Section EvalFrame.
Variable I : iface.
Variable sw : switches.

Definition out_of (w : world) : list obj := ss_out (w_state w).
Definition OutIs (o : list obj) (w : world) : Prop := out_of w = o.

Lemma t_keeps {A} (m : M A) o : Keeps out_of m -> triple (OutIs o) m (fun _ => OutIs o) (fun _ => True).
Proof.
  intros Hk w Hw. specialize (Hk w). unfold OutIs in *.
  destruct (m w) as [[a|k e|s] w']; cbn [snd] in Hk; try exact Logic.I. congruence.
Qed.
Lemma t_any {A} (m : M A) (P : world -> Prop) : triple P m (fun _ _ => True) (fun _ => True).
Proof. intros w _. destruct (m w) as [[a|k e|s] w']; exact Logic.I. Qed.

Lemma t_const_pre {A} (P0 : Prop) (m : M A) Q E :
  (P0 -> triple (fun _ => True) m Q E) -> triple (fun _ => P0) m Q E.
Proof. intros H w0 Hp. exact (H Hp w0 Logic.I). Qed.
Lemma k_gets {A} (g : world -> A) : Keeps out_of (gets g). Proof. apply keeps_gets. Qed.
Lemma k_if_async : Keeps out_of if_async_we_cant.
Proof. unfold if_async_we_cant. apply keeps_bind; [apply keeps_gets|]. intros a. destruct a; [apply keeps_fail|apply keeps_ret]. Qed.
Lemma k_validate_arguments a : Keeps out_of (validate_arguments a).
Proof. unfold validate_arguments. apply keeps_mfor. intros x. destruct x; try apply keeps_ret; apply keeps_fail. Qed.

(* pieces of complete_function_evaluation_from_game *)
Lemma k_m_read {A} (g : sstate -> Res A) : Keeps out_of (m_read g).
Proof. unfold m_read. apply keeps_bind; [apply keeps_gets|]. intros s. apply keeps_lift. Qed.
Lemma k_pop_eval : Keeps out_of pop_eval.
Proof.
  unfold pop_eval. apply keeps_bind; [apply keeps_gets|]. intros s.
  destruct (last_opt (ss_eval s)); [|apply keeps_panic].
  apply keeps_bind; [|intros _; apply keeps_ret]. apply keeps_modify. intros w. destruct w as [? st]. destruct st. reflexivity.
Qed.
Lemma k_pop_down_to fuel : forall h r, Keeps out_of (pop_down_to fuel h r).
Proof.
  induction fuel as [|n IH]; intros h r; cbn [pop_down_to]; [apply keeps_ret|].
  apply keeps_bind; [apply keeps_gets|]. intros s.
  destruct (h <? nlength (ss_eval s))%N; [|apply keeps_ret].
  apply keeps_bind; [apply k_pop_eval|]. intros o. apply IH.
Qed.
Lemma k_m_cs_res g : Keeps out_of (m_cs_res g).
Proof.
  intros w. unfold m_cs_res, m_state_res, mbind, get_state, gets, lift, mod_state, modify.
  destruct (g (ss_cs (w_state w))) as [cs| |]; cbn; try reflexivity;
  destruct w as [? st]; destruct st; reflexivity.
Qed.
Lemma k_complete : Keeps out_of complete_function_evaluation_from_game.
Proof.
  unfold complete_function_evaluation_from_game.
  apply keeps_bind; [apply k_m_read|]. intros e.
  destruct (negb (pushpop_eqb (el_type e) PFunctionEvalFromGame)); [apply keeps_fail|].
  apply keeps_bind; [apply keeps_gets|]. intros s.
  apply keeps_bind; [apply k_pop_down_to|]. intros r.
  apply keeps_bind; [apply k_m_cs_res|]. intros _.
  destruct r as [[| [] | | | | | | | | | | |]|]; apply keeps_ret.
Qed.

(* THE THEOREM *)
Theorem evaluate_function_restores_output : forall name args w r txt w',
  evaluate_function I sw name args w = (OOk (r, txt), w') ->
  ss_out (w_state w') = ss_out (w_state w).
Proof.
  intros name args w r txt w' H.
  assert (T : triple (OutIs (out_of w)) (evaluate_function I sw name args)
                     (fun _ => OutIs (out_of w)) (fun _ => True)).
  { unfold evaluate_function.
    eapply triple_bind; [apply t_keeps, k_if_async|]. intros ?.
    destruct (match trim name with [] => true | _ => false end); [intros w0 _; exact Logic.I|].
    eapply triple_bind; [apply t_keeps, k_gets|]. intros root.
    destruct (knot_container_with_name root name) as [fp|]; [|intros w0 _; exact Logic.I].
    eapply triple_bind; [apply t_keeps, keeps_when, k_validate_arguments|]. intros ?.
    eapply (triple_bind _ _ (fun s w0 => ss_out s = out_of w)).
    { intros w0 Hw0. cbn. exact Hw0. }
    intros s. cbn beta. apply t_const_pre. intros Hs.
    eapply triple_bind; [apply t_any|]. intros ?.
    eapply triple_bind; [apply t_any|]. intros ?.
    eapply triple_bind; [apply t_any|]. intros ?.
    eapply triple_bind; [apply t_any|]. intros ?.
    eapply triple_bind; [apply t_any|]. intros w5. cbn beta.
    eapply triple_bind; [apply t_any|]. intros txt0.
    eapply (triple_bind _ _ (fun _ => OutIs (out_of w))).
    { intros w0 _. cbn. unfold OutIs, out_of. destruct w0 as [? st]. destruct st. cbn. exact Hs. }
    intros ?.
    eapply triple_bind; [apply t_keeps, k_complete|]. intros r0.
    intros w0 Hw0. exact Hw0. }
  specialize (T w eq_refl). rewrite H in T. exact T.
Qed.
End EvalFrame.
