(* Shell/PathJump.v — C17, second sentence: jumping to a path with a call-stack reset keeps the
   variables but abandons all tunnels, threads and functions.
   (1) choose_path_string — with or without the reset, however it ends — leaves the VariablesState exactly as
       it was (globals, defaults, observation batch, patch): only counts and the position change.
   (2) with reset_callstack = true, when it returns Ok the call stack consists of ONE thread holding ONE
       element: whatever tunnels, function calls and forked threads were active are gone. *)
From Ink.Engine Require Import Api Tie.
From Ink.Shell Require Import Keeps KeepsStep HostFrame DeliveryAll.
From Ink.Shell Require Import VarsKept FramesKept.

Section PathJump.
Variable I : iface.
Variable sw : switches.

Lemma kv_if_async : Keeps wvshape if_async_we_cant. Proof. apply hk_if_async. Qed.
Lemma kc_if_async : Keeps wcshape if_async_we_cant. Proof. apply hk_if_async. Qed.
Lemma kv_validate_args a : Keeps wvshape (validate_arguments a).
Proof. unfold validate_arguments. apply keeps_mfor. intros x. destruct x; try apply keeps_ret; apply keeps_fail. Qed.
Lemma kv_pass_args a : Keeps wvshape (pass_arguments I a).
Proof. unfold pass_arguments. apply keeps_mfor. intros x. destruct x; try apply kv_push_eval; apply keeps_fail. Qed.
Lemma kc_pass_args a : Keeps wcshape (pass_arguments I a).
Proof. unfold pass_arguments. apply keeps_mfor. intros x. destruct x; try apply kc_push_eval; apply keeps_fail. Qed.

Theorem path_jump_keeps_variables p r a : Keeps wvshape (choose_path_string I sw p r a).
Proof.
  unfold choose_path_string.
  apply keeps_bind; [apply kv_if_async|]. intros ?.
  apply keeps_bind.
  { apply keeps_when. apply keeps_bind; [apply keeps_gets|]. intros root.
    apply keeps_bind; [apply keeps_lift|]. intros ?. apply kv_validate_args. }
  intros ?.
  apply keeps_bind.
  { destruct r.
    - apply keeps_bind; [apply kv_if_async|]. intros ?. apply kv_m_state_res, vskr_force_end.
    - apply keeps_bind; [apply kv_m_read|]. intros e. destruct (pushpop_eqb _ _); [apply keeps_fail|apply keeps_ret]. }
  intros ?.
  apply keeps_bind; [apply kv_pass_args|]. intros ?. apply kv_choose_path.
Qed.

Lemma force_end_one_frame s s' : force_end s = Ok s' -> cshape s' = [1%nat].
Proof.
  unfold force_end, ss_set_cur_pointer, ss_set_prev_pointer, cs_upd_cur_element, cs_cur_element, cs_cur_thread,
    cs_set_cur_thread_raw, cs_reset, unwrap_or_panic, ss_set_choices, ss_set_cs, ss_cs, last_opt.
  destruct s as [fl se va ev er wa pa nm di vi tu t sd pr]. destruct fl as [nm0 cs ou ch al]. destruct cs as [ths cnt].
  cbn. intros E. injection E as <-. reflexivity.
Qed.

Definition OneFrame (w : world) : Prop := wcshape w = [1%nat].

Theorem path_jump_with_reset_leaves_one_frame p a : Post OneFrame (choose_path_string I sw p true a).
Proof.
  unfold choose_path_string.
  apply post_bind_r; intros ?. apply post_bind_r; intros ?.
  apply (post_bind_keeps wcshape OneFrame).
  - unfold OneFrame. intros w w' E H. now rewrite E.
  - apply post_bind_r; intros ?.
    intros w y w' E. unfold m_state_res, mbind, get_state, gets, lift in E.
    destruct (force_end (w_state w)) as [s'| |] eqn:Ef; try discriminate.
    unfold mod_state, modify in E. injection E as _ <-.
    unfold OneFrame, wcshape. destruct w; cbn. exact (force_end_one_frame _ _ Ef).
  - intros ?. apply keeps_bind; [apply kc_pass_args|]. intros ?. apply kc_choose_path.
Qed.

Corollary path_jump_reset_statement p a w w' :
  choose_path_string I sw p true a w = (OOk tt, w') ->
  (exists t e, cs_threads (ss_cs (w_state w')) = [t] /\ th_cs t = [e])
  /\ ss_vars (w_state w') = ss_vars (w_state w).
Proof.
  intros E. split.
  - pose proof (path_jump_with_reset_leaves_one_frame p a w tt w' E) as H.
    unfold OneFrame, wcshape, cshape in H.
    destruct (cs_threads (ss_cs (w_state w'))) as [|t [|t2 r]]; try discriminate.
    injection H as H. destruct (th_cs t) as [|e [|e2 r]] eqn:Et; try discriminate. exists t, e. split; [reflexivity|exact Et].
  - pose proof (path_jump_keeps_variables p true a w) as H. rewrite E in H. exact H.
Qed.
End PathJump.
