(* Shell/EventsTie.v — the tie of the event-log theorems (Shell/Events.v) to the code: the model writes its log
   in log_event only, used by notify_variable_changed, the delivery block and call_external_function; the regenerated
   fact says that the Rust engine calls into the host (observer.changed / handler.error / external.call) at exactly
   those places and from exactly those callers (tools/gen_engine.py, item 12).  A new call site — or a new caller of
   one — makes the fact false and this file stops compiling. *)
From Ink.Gen Require Import EngineGen.
Lemma now_host_calls_confined : host_calls_confined = true.
Proof. reflexivity. Qed.
