(* Shell/StructureTie.v — the tie of the structural look-ahead theorems (Rewind, PatchShape / PatchInv,
   BatchShape / BatchClosed) to the code.  Those theorems are about a model in which the observation batch is opened
   and closed by continue_internal only, and the look-ahead snapshot is taken, restored and discarded by
   continue_single_step / continue_internal only.  The regenerated fact says that the Rust sources have the same
   call structure (tools/gen_engine.py, item 13); another caller makes it false and this file stops compiling. *)
From Ink.Gen Require Import EngineGen.
Lemma now_lookahead_structure_confined : lookahead_structure_confined = true.
Proof. reflexivity. Qed.

(* the tie of registrations_survive (Shell/HostFrame.v): in the Rust sources what the host has registered is written
   by the registration calls only (tools/gen_engine.py, item 14) *)
Lemma now_registrations_written_by_registration_calls : registrations_written_by_registration_calls = true.
Proof. reflexivity. Qed.

(* the ties of "a load writes the StoryState only" (Shell/HostFrameLoad.v, LoadErrors.v, Events.v) and of "reset does
   not read the old state" (Shell/ResetProofs.v) — tools/gen_engine.py, item 15 *)
Lemma now_load_writes_state_only : load_writes_state_only = true.
Proof. reflexivity. Qed.
Lemma now_reset_replaces_state : reset_replaces_state = true.
Proof. reflexivity. Qed.
