(* Shell/KeepsStep.v — the Keeps calculus lifted through the whole interpreter: an observation of
   the world that is insensitive to the four ways the interpreter writes to it (the StoryState, the
   event log, the rewind flag, the step fuel) is kept by every interpreter function, by the single
   interpreter step and by try_follow_default_invisible_choice.  Instances: the look-ahead snapshot
   (Shell/Rewind.v), the nesting counter and async flag, the host's registrations (observers,
   externals, error handler, fallbacks flag), the lines counter and the virtual clock. *)
From Ink.Engine Require Import Api Tie.
From Ink.Shell Require Import Keeps.

Section InterpKeeps.
Variable I : iface.
Variable sw : switches.
Context {X : Type}.
Variable obs : world -> X.
(* the four ways the interpreter writes to the world *)
Hypothesis f_state : forall w g, obs (w <| w_state ::= g |>) = obs w.
Hypothesis f_events : forall w g, obs (w <| w_events ::= g |>) = obs w.
Hypothesis f_unsafe : forall w b, obs (w <| w_saw_unsafe := b |>) = obs w.
Hypothesis f_fuel : forall w g, obs (w <| w_fuel ::= g |>) = obs w.
Notation K := (Keeps obs).
Notation snap_state := f_state.

Ltac ks := repeat ((apply keeps_modify; intros ?; first [apply f_events|apply f_unsafe|apply f_fuel]) || keeps_step || (apply keeps_mod_state; exact snap_state)
                   || (apply keeps_m_read; exact snap_state) || (apply keeps_m_state_res; exact snap_state)
                   || (apply keeps_m_cs_res; exact snap_state) || (apply keeps_get_state)).

Lemma kp_m_root : K m_root. Proof. unfold m_root. ks. Qed.
Lemma kp_m_defs : K m_defs. Proof. unfold m_defs. ks. Qed.
Hint Resolve kp_m_root kp_m_defs : keeps.
Lemma kp_log_event e : K (log_event e). Proof. unfold log_event. ks. Qed.
Hint Resolve kp_log_event : keeps.
Lemma kp_push_eval o : K (push_eval I o). Proof. unfold push_eval. ks. Qed.
Lemma kp_pop_eval : K pop_eval. Proof. unfold pop_eval. ks. Qed.
Lemma kp_peek_eval : K peek_eval. Proof. unfold peek_eval. ks. Qed.
Lemma kp_pop_eval_multiple n : K (pop_eval_multiple n). Proof. unfold pop_eval_multiple. ks. Qed.
Hint Resolve kp_push_eval kp_pop_eval kp_peek_eval kp_pop_eval_multiple : keeps.
Lemma kp_m_push_output o : K (m_push_output o). Proof. unfold m_push_output. ks. Qed.
Hint Resolve kp_m_push_output : keeps.
Lemma kp_add_error_msg m b : K (add_error_msg m b). Proof. unfold add_error_msg. ks. Qed.
Hint Resolve kp_add_error_msg : keeps.
Lemma kp_add_error m b : K (add_error m b). Proof. unfold add_error. ks. Qed.
Hint Resolve kp_add_error : keeps.
Lemma kp_visit_container cp b : K (visit_container cp b). Proof. unfold visit_container. ks. Qed.
Hint Resolve kp_visit_container : keeps.
Lemma kp_visit_changed_loop fuel : forall prevs child b, K (visit_changed_loop fuel prevs child b).
Proof. induction fuel as [|f IH]; intros; cbn [visit_changed_loop]; ks. Qed.
Hint Resolve kp_visit_changed_loop : keeps.
Lemma kp_visit_changed : K visit_changed_containers_due_to_divert.
Proof. unfold visit_changed_containers_due_to_divert. ks. Qed.
Hint Resolve kp_visit_changed : keeps.
Lemma kp_increment_content_pointer : K increment_content_pointer.
Proof. unfold increment_content_pointer. ks. Qed.
Hint Resolve kp_increment_content_pointer : keeps.
Lemma kp_pop_callstack t : K (pop_callstack t). Proof. unfold pop_callstack. ks. Qed.
Hint Resolve kp_pop_callstack : keeps.
Lemma kp_try_exit : K try_exit_function_evaluation_from_game.
Proof. unfold try_exit_function_evaluation_from_game. ks. Qed.
Hint Resolve kp_try_exit : keeps.
Lemma kp_next_content_fuel fuel : K (next_content_fuel I fuel).
Proof. induction fuel as [|f IH]; cbn [next_content_fuel]; ks. Qed.
Hint Resolve kp_next_content_fuel : keeps.
Lemma kp_next_content : K (next_content I). Proof. unfold next_content. ks. Qed.
Hint Resolve kp_next_content : keeps.
Lemma kp_choose_path pa b : K (choose_path I sw pa b). Proof. unfold choose_path. ks. Qed.
Hint Resolve kp_choose_path : keeps.
Lemma kp_pop_args n : forall acc, K (pop_args n acc).
Proof. induction n as [|n IH]; intros; cbn [pop_args]; ks. Qed.
Hint Resolve kp_pop_args : keeps.
Lemma kp_call_external name n : K (call_external_function I sw name n).
Proof. unfold call_external_function. ks. Qed.
Hint Resolve kp_call_external : keeps.
Lemma kp_shuffle : K (next_sequence_shuffle_index I). Proof. unfold next_sequence_shuffle_index. ks. Qed.
Hint Resolve kp_shuffle : keeps.
Lemma kp_pop_tags fuel : forall tags, K (pop_tags fuel tags).
Proof. induction fuel as [|f IH]; intros; cbn [pop_tags]; ks. Qed.
Hint Resolve kp_pop_tags : keeps.
Lemma kp_pop_choice_string tags : K (pop_choice_string_and_tags tags).
Proof. unfold pop_choice_string_and_tags. ks. Qed.
Hint Resolve kp_pop_choice_string : keeps.
Lemma kp_process_choice cp f pa : K (process_choice I cp f pa). Proof. unfold process_choice. ks. Qed.
Hint Resolve kp_process_choice : keeps.
Lemma kp_try_follow : K (try_follow_default_invisible_choice I sw).
Proof. unfold try_follow_default_invisible_choice. ks. Qed.
Hint Resolve kp_try_follow : keeps.
Lemma kp_set_in_expr b : K (set_in_expr b). Proof. unfold set_in_expr. ks. Qed.
Hint Resolve kp_set_in_expr : keeps.
Lemma kp_do_command c o : K (do_command I c o). Proof. unfold do_command. destruct c; ks. Qed.
Hint Resolve kp_do_command : keeps.
Lemma kp_perform_logic op : K (perform_logic_and_flow_control I sw op).
Proof. unfold perform_logic_and_flow_control. ks. Qed.
Hint Resolve kp_perform_logic : keeps.
Lemma kp_enter_containers fuel : forall pt, K (enter_containers fuel pt).
Proof. induction fuel as [|f IH]; intros; cbn [enter_containers]; ks. Qed.
Hint Resolve kp_enter_containers : keeps.
Lemma kp_take_fuel : K take_fuel. Proof. unfold take_fuel. ks. Qed.
Hint Resolve kp_take_fuel : keeps.
Theorem kp_step : K (step I sw). Proof. unfold step. ks. Qed.
Lemma kp_can_continue : K m_can_continue. Proof. unfold m_can_continue. ks. Qed.
End InterpKeeps.
