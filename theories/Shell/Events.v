(* Shell/Events.v — what the host has been told stays told.
   The event log of the model records every call the engine makes INTO the host: a variable
   observer (EvObs), the error handler (EvHandler), an external function (EvExt).  Theorem: for
   the whole engine model the log is append-only — no interpreter step, no look-ahead rewind
   (restore_state_snapshot replaces the StoryState, not the log), no form of continue, choose,
   jump, evaluate, set a variable, flow switch / removal or RESET, however it ends (Ok, Err or a
   panic caught by the host), retracts, reorders or rewrites a call already made.  "Exactly once"
   (C11 observers, C12 externals, C13 error delivery) therefore reduces to "at most once per cause
   at the point of the call": nothing later can undo or repeat it by rewinding.
   Proved with a monotonicity calculus (Grows) closed under the monad's combinators, lifted through
   the interpreter function by function, like Keeps. *)
From Ink.Engine Require Import Api Tie.

Definition ext (w w' : world) : Prop := exists l, w_events w' = w_events w ++ l.

Lemma ext_refl w : ext w w.
Proof. exists []. now rewrite app_nil_r. Qed.
Lemma ext_trans a b c : ext a b -> ext b c -> ext a c.
Proof. intros [l1 H1] [l2 H2]. exists (l1 ++ l2). now rewrite H2, H1, app_assoc. Qed.
Lemma ext_same w w' : w_events w' = w_events w -> ext w w'.
Proof. intros H. exists []. now rewrite app_nil_r. Qed.

Definition Grows {A} (m : M A) : Prop := forall w, ext w (snd (m w)).

Lemma grows_ret {A} (x : A) : Grows (ret x).
Proof. intros w. apply ext_refl. Qed.
Lemma grows_fail {A} k msg : Grows (@fail A k msg).
Proof. intros w. apply ext_refl. Qed.
Lemma grows_panic {A} s : Grows (@panic A s).
Proof. intros w. apply ext_refl. Qed.
Lemma grows_lift {A} (x : Res A) : Grows (lift x).
Proof. intros w. destruct x; apply ext_refl. Qed.
Lemma grows_get : Grows get.
Proof. intros w. apply ext_refl. Qed.
Lemma grows_gets {A} (g : world -> A) : Grows (gets g).
Proof. intros w. apply ext_refl. Qed.
Lemma grows_bind {A B} (m : M A) (k : A -> M B) :
  Grows m -> (forall x, Grows (k x)) -> Grows (mbind m k).
Proof.
  intros Hm Hk w. unfold mbind. specialize (Hm w).
  destruct (m w) as [[x|e s|s] w']; cbn [snd] in *; try exact Hm.
  eapply ext_trans; [exact Hm|apply Hk].
Qed.
Lemma grows_modify (g : world -> world) : (forall w, w_events (g w) = w_events w) -> Grows (modify g).
Proof. intros H w. apply ext_same, H. Qed.
Lemma grows_when (b : bool) (m : M unit) : Grows m -> Grows (when b m).
Proof. intros H. destruct b; [exact H|apply grows_ret]. Qed.
Lemma grows_mfor {A} (xs : list A) (k : A -> M unit) : (forall x, Grows (k x)) -> Grows (mfor xs k).
Proof.
  intros H. induction xs as [|x xs IH]; cbn [mfor]; [apply grows_ret|].
  apply grows_bind; [apply H|]. intros _. exact IH.
Qed.
Lemma grows_mod_state (g : sstate -> sstate) : Grows (mod_state g).
Proof. apply grows_modify. intros []; reflexivity. Qed.
Lemma grows_get_state : Grows get_state.
Proof. apply grows_gets. Qed.
Lemma grows_m_read {A} (g : sstate -> Res A) : Grows (m_read g).
Proof. unfold m_read. apply grows_bind; [apply grows_get_state|]. intros s. apply grows_lift. Qed.
Lemma grows_m_state_res (g : sstate -> Res sstate) : Grows (m_state_res g).
Proof.
  unfold m_state_res. apply grows_bind; [apply grows_get_state|]. intros s.
  apply grows_bind; [apply grows_lift|]. intros s'. apply grows_mod_state.
Qed.
Lemma grows_m_cs_res g : Grows (m_cs_res g).
Proof. unfold m_cs_res. apply grows_m_state_res. Qed.
(* the one writer of the log *)
Lemma grows_log_event e : Grows (log_event e).
Proof. intros w. exists [e]. destruct w; reflexivity. Qed.

#[export] Hint Resolve grows_ret grows_fail grows_panic grows_lift grows_get grows_gets grows_log_event
  grows_mod_state grows_get_state grows_m_read grows_m_state_res grows_m_cs_res : grows.

Ltac gstep :=
  match goal with
  | |- Grows (mbind _ _) => apply grows_bind; [|intros ?]
  | |- Grows (when _ _) => apply grows_when
  | |- Grows (mfor _ _) => apply grows_mfor; intros ?
  | |- Grows (log_event _) => apply grows_log_event
  | |- Grows (modify _) => apply grows_modify; intros []; reflexivity
  | |- Grows (mod_state _) => apply grows_mod_state
  | |- Grows (m_read _) => apply grows_m_read
  | |- Grows (m_state_res _) => apply grows_m_state_res
  | |- Grows (m_cs_res _) => apply grows_m_cs_res
  | |- Grows get_state => apply grows_get_state
  | |- Grows (match ?x with _ => _ end) => destruct x
  | |- Grows (if ?b then _ else _) => destruct b
  | |- Grows (let '(_, _) := ?x in _) => destruct x
  | |- Grows _ => solve [auto with grows]
  end.
Ltac gs := repeat gstep.

Section Interp.
Variable I : iface.
Variable sw : switches.
Notation G := Grows.

Lemma g_m_root : G m_root. Proof. unfold m_root. gs. Qed.
Lemma g_m_defs : G m_defs. Proof. unfold m_defs. gs. Qed.
Hint Resolve g_m_root g_m_defs : grows.
Lemma g_push_eval o : G (push_eval I o). Proof. unfold push_eval. gs. Qed.
Lemma g_pop_eval : G pop_eval. Proof. unfold pop_eval. gs. Qed.
Lemma g_peek_eval : G peek_eval. Proof. unfold peek_eval. gs. Qed.
Lemma g_pop_eval_multiple n : G (pop_eval_multiple n). Proof. unfold pop_eval_multiple. gs. Qed.
Hint Resolve g_push_eval g_pop_eval g_peek_eval g_pop_eval_multiple : grows.
Lemma g_m_push_output o : G (m_push_output o). Proof. unfold m_push_output. gs. Qed.
Hint Resolve g_m_push_output : grows.
Lemma g_add_error_msg m b : G (add_error_msg m b). Proof. unfold add_error_msg. gs. Qed.
Hint Resolve g_add_error_msg : grows.
Lemma g_add_error m b : G (add_error m b). Proof. unfold add_error. gs. Qed.
Hint Resolve g_add_error : grows.
Lemma g_visit_container cp b : G (visit_container cp b). Proof. unfold visit_container. gs. Qed.
Hint Resolve g_visit_container : grows.
Lemma g_visit_changed_loop fuel : forall prevs child b, G (visit_changed_loop fuel prevs child b).
Proof. induction fuel as [|f IH]; intros; cbn [visit_changed_loop]; gs. Qed.
Hint Resolve g_visit_changed_loop : grows.
Lemma g_visit_changed : G visit_changed_containers_due_to_divert.
Proof. unfold visit_changed_containers_due_to_divert. gs. Qed.
Hint Resolve g_visit_changed : grows.
Lemma g_increment_content_pointer : G increment_content_pointer.
Proof. unfold increment_content_pointer. gs. Qed.
Hint Resolve g_increment_content_pointer : grows.
Lemma g_pop_callstack t : G (pop_callstack t). Proof. unfold pop_callstack. gs. Qed.
Hint Resolve g_pop_callstack : grows.
Lemma g_try_exit : G try_exit_function_evaluation_from_game.
Proof. unfold try_exit_function_evaluation_from_game. gs. Qed.
Hint Resolve g_try_exit : grows.
Lemma g_next_content_fuel fuel : G (next_content_fuel I fuel).
Proof. induction fuel as [|f IH]; cbn [next_content_fuel]; gs. Qed.
Hint Resolve g_next_content_fuel : grows.
Lemma g_next_content : G (next_content I). Proof. unfold next_content. gs. Qed.
Hint Resolve g_next_content : grows.
Lemma g_choose_path pa b : G (choose_path I sw pa b). Proof. unfold choose_path. gs. Qed.
Hint Resolve g_choose_path : grows.
Lemma g_pop_args n : forall acc, G (pop_args n acc).
Proof. induction n as [|n IH]; intros; cbn [pop_args]; gs. Qed.
Hint Resolve g_pop_args : grows.
Lemma g_call_external name n : G (call_external_function I sw name n).
Proof. unfold call_external_function. gs. Qed.
Hint Resolve g_call_external : grows.
Lemma g_shuffle : G (next_sequence_shuffle_index I). Proof. unfold next_sequence_shuffle_index. gs. Qed.
Hint Resolve g_shuffle : grows.
Lemma g_pop_tags fuel : forall tags, G (pop_tags fuel tags).
Proof. induction fuel as [|f IH]; intros; cbn [pop_tags]; gs. Qed.
Hint Resolve g_pop_tags : grows.
Lemma g_pop_choice_string tags : G (pop_choice_string_and_tags tags).
Proof. unfold pop_choice_string_and_tags. gs. Qed.
Hint Resolve g_pop_choice_string : grows.
Lemma g_process_choice cp f pa : G (process_choice I cp f pa). Proof. unfold process_choice. gs. Qed.
Hint Resolve g_process_choice : grows.
Lemma g_try_follow : G (try_follow_default_invisible_choice I sw).
Proof. unfold try_follow_default_invisible_choice. gs. Qed.
Hint Resolve g_try_follow : grows.
Lemma g_set_in_expr b : G (set_in_expr b). Proof. unfold set_in_expr. gs. Qed.
Hint Resolve g_set_in_expr : grows.
Lemma g_do_command c o : G (do_command I c o). Proof. unfold do_command. destruct c; gs. Qed.
Hint Resolve g_do_command : grows.
Lemma g_perform_logic op : G (perform_logic_and_flow_control I sw op).
Proof. unfold perform_logic_and_flow_control. gs. Qed.
Hint Resolve g_perform_logic : grows.
Lemma g_enter_containers fuel : forall pt, G (enter_containers fuel pt).
Proof. induction fuel as [|f IH]; intros; cbn [enter_containers]; gs. Qed.
Hint Resolve g_enter_containers : grows.
Lemma g_take_fuel : G take_fuel. Proof. unfold take_fuel. gs. Qed.
Hint Resolve g_take_fuel : grows.
Theorem g_step : G (step I sw). Proof. unfold step. gs. Qed.
Hint Resolve g_step : grows.
Lemma g_can_continue : G m_can_continue. Proof. unfold m_can_continue. gs. Qed.
Hint Resolve g_can_continue : grows.

(* ---------- the look-ahead machinery: a rewind does not touch the log ---------- *)
Lemma g_state_snapshot : G (state_snapshot sw).
Proof. unfold state_snapshot. gs. Qed.
Lemma g_restore : G restore_state_snapshot.
Proof. unfold restore_state_snapshot. gs. Qed.
Lemma g_discard : G discard_snapshot.
Proof. unfold discard_snapshot. gs. Qed.
Hint Resolve g_state_snapshot g_restore g_discard : grows.

Theorem g_continue_single_step : G (continue_single_step I sw).
Proof. unfold continue_single_step. gs. Qed.
Hint Resolve g_continue_single_step : grows.

Lemma g_clock_tick : G clock_tick.
Proof.
  unfold clock_tick. apply grows_bind; [apply grows_get|]. intros w0.
  destruct (N.eqb (w_pause_left w0) 0); [apply grows_ret|].
  destruct (N.eqb (w_pause_left w0) 1).
  - apply grows_bind; [|intros _; apply grows_ret]. apply grows_modify. intros w.
    destruct (w_pauses w); destruct w; reflexivity.
  - apply grows_bind; [|intros _; apply grows_ret]. apply grows_modify. intros []; reflexivity.
Qed.
Hint Resolve g_clock_tick : grows.

Lemma g_continue_loop fuel : G (continue_loop I sw fuel).
Proof.
  induction fuel as [|n IH]; cbn [continue_loop]; [apply grows_panic|].
  intros w. pose proof (g_continue_single_step w) as H1.
  destruct (continue_single_step I sw w) as [[ends|k m|site] w']; cbn [snd] in *; [| |exact H1].
  - destruct ends; [exact H1|].
    assert (H : G (let* tick := (let* a := gets w_async in if a then clock_tick else ret false) in
                   if tick then ret false else
                   let* can := m_can_continue in
                   if negb can then ret false else continue_loop I sw n)) by gs.
    eapply ext_trans; [exact H1|apply H].
  - pose proof (g_add_error_msg m false w') as H2.
    destruct (add_error_msg m false w') as [[?|? ?|?] w'']; cbn [snd] in *; eapply ext_trans; eassumption.
Qed.
Hint Resolve g_continue_loop : grows.

Lemma g_end_of_content : G end_of_content_errors.
Proof. unfold end_of_content_errors. gs. Qed.
Lemma g_notify n x : G (notify_variable_changed n x).
Proof. unfold notify_variable_changed. gs. Qed.
Lemma g_deliver : G (deliver_errors sw).
Proof. unfold deliver_errors, reset_errors, reset_warnings. gs. Qed.
Hint Resolve g_end_of_content g_notify g_deliver : grows.

Theorem g_continue_internal limited : G (continue_internal I sw limited).
Proof. unfold continue_internal. gs. Qed.
Hint Resolve g_continue_internal : grows.

(* ---------- the host API ---------- *)
Lemma g_if_async : G if_async_we_cant. Proof. unfold if_async_we_cant. gs. Qed.
Hint Resolve g_if_async : grows.
Lemma g_validate : G validate_external_bindings. Proof. unfold validate_external_bindings. gs. Qed.
Hint Resolve g_validate : grows.
Lemma g_continue_async l : G (continue_async I sw l). Proof. unfold continue_async, cont_internal. gs. Qed.
Hint Resolve g_continue_async : grows.
Lemma g_story_cont : G (story_cont I sw). Proof. unfold story_cont, get_current_text. gs. Qed.
Hint Resolve g_story_cont : grows.
Theorem g_api_cont : G (api_cont I sw). Proof. unfold api_cont. gs. Qed.
Lemma g_cont_max_fuel fuel : forall acc, G (continue_maximally_fuel I sw fuel acc).
Proof. induction fuel as [|n IH]; intros; cbn [continue_maximally_fuel]; gs. Qed.
Hint Resolve g_cont_max_fuel : grows.
Theorem g_continue_maximally : G (continue_maximally I sw). Proof. unfold continue_maximally. gs. Qed.
Lemma g_get_current_choices : G get_current_choices. Proof. unfold get_current_choices. gs. Qed.
Hint Resolve g_get_current_choices : grows.
Theorem g_choose_choice_index i : G (choose_choice_index I sw i). Proof. unfold choose_choice_index. gs. Qed.
Lemma g_validate_args a : G (validate_arguments a). Proof. unfold validate_arguments. gs. Qed.
Lemma g_pass_args a : G (pass_arguments I a). Proof. unfold pass_arguments. gs. Qed.
Hint Resolve g_validate_args g_pass_args : grows.
Theorem g_choose_path_string p r a : G (choose_path_string I sw p r a). Proof. unfold choose_path_string. gs. Qed.
Lemma g_eval_loop fuel : forall acc, G (eval_loop I sw fuel acc).
Proof. induction fuel as [|n IH]; intros; cbn [eval_loop]; gs. Qed.
Lemma g_pop_down_to fuel : forall h r, G (pop_down_to fuel h r).
Proof. induction fuel as [|n IH]; intros; cbn [pop_down_to]; gs. Qed.
Hint Resolve g_eval_loop g_pop_down_to : grows.
Lemma g_complete_fn : G complete_function_evaluation_from_game.
Proof. unfold complete_function_evaluation_from_game. gs. Qed.
Hint Resolve g_complete_fn : grows.
Theorem g_evaluate_function n a : G (evaluate_function I sw n a). Proof. unfold evaluate_function. gs. Qed.
Theorem g_set_variable n x : G (set_variable I sw n x). Proof. unfold set_variable. gs. Qed.
Theorem g_switch_flow n : G (switch_flow n). Proof. unfold switch_flow. gs. Qed.
Theorem g_switch_default : G (switch_to_default_flow sw). Proof. unfold switch_to_default_flow. gs. Qed.
Theorem g_remove_flow n : G (remove_flow sw n). Proof. unfold remove_flow. gs. Qed.
Lemma g_reset_globals : G (reset_globals I sw). Proof. unfold reset_globals, cont_internal. gs. Qed.
Hint Resolve g_reset_globals : grows.
Theorem g_reset_state seed : G (reset_state I sw seed). Proof. unfold reset_state. gs. Qed.
End Interp.

(* ---------- every story operation, any sequence of them ---------- *)
From Ink.Shell Require Import HostFrame HostFrameLoad.
From Ink.Gen Require Import SaveGen.
From Ink.Engine Require Import Save.

Section Ops.
Variable I : iface.
Variable sw : switches.

Theorem story_op_grows : forall op, Grows (run_story_op I sw op).
Proof.
  destruct op; cbn [run_story_op].
  - apply grows_bind; [apply g_api_cont; assumption|intros; apply grows_ret].
  - apply grows_bind; [apply g_continue_maximally; assumption|intros; apply grows_ret].
  - apply g_continue_async; assumption.
  - apply g_choose_choice_index; assumption.
  - apply g_choose_path_string; assumption.
  - apply grows_bind; [apply g_evaluate_function; assumption|intros; apply grows_ret].
  - apply g_set_variable; assumption.
  - apply g_switch_flow; assumption.
  - apply g_switch_default; assumption.
  - apply g_remove_flow; assumption.
  - apply g_reset_state; assumption.
Qed.

(* however each call ends — Ok, Err, or a panic caught by the host *)
Theorem event_log_append_only : forall ops w,
  exists l, w_events (run_story_ops I sw ops w) = w_events w ++ l.
Proof.
  induction ops as [|op r IH]; intros w; cbn [run_story_ops]; [apply ext_refl|].
  apply (ext_trans w (snd (run_story_op I sw op w))); [apply story_op_grows|apply IH].
Qed.

(* so a call made to the host during a history is still there, at the same position, after any continuation *)
Corollary host_call_is_never_retracted : forall ops1 ops2 w n e,
  nth_error (w_events (run_story_ops I sw ops1 w)) n = Some e ->
  nth_error (w_events (run_story_ops I sw ops2 (run_story_ops I sw ops1 w))) n = Some e.
Proof.
  intros ops1 ops2 w n e H.
  destruct (event_log_append_only ops2 (run_story_ops I sw ops1 w)) as [l ->].
  rewrite nth_error_app1; [exact H|]. apply nth_error_Some. congruence.
Qed.
End Ops.

(* loading a saved state makes no call to the host and forgets none *)
Theorem load_keeps_event_log sp ssw w j : w_events (snd (load_state sp ssw w j)) = w_events w.
Proof. unfold load_state. apply (lk_load_json_obj sp ssw w_events). intros w0 g. destruct w0; reflexivity. Qed.
