(* Shell/Frame.v — the interpreter does not depend on, and does not touch, the
   Story-level bookkeeping of the continue loop (recursive_continue_count,
   async_continue_active and the virtual clock): every engine computation
   COMMUTES with an arbitrary update of those fields.  Proved compositionally:
   per primitive, closed under bind / case analysis / fuelled recursion. *)
From Ink.Engine Require Import Api Tie.

(* an arbitrary update of the shell fields *)
Definition shell_upd (a : bool) (r : N) (p : list N) (l : N) (w : world) : world :=
  w <| w_async := a |> <| w_rcc := r |> <| w_pauses := p |> <| w_pause_left := l |>.

Section Frame.
Variables (a : bool) (r : N) (p : list N) (l : N).
Notation u := (shell_upd a r p l).

Definition Commutes {A} (m : M A) : Prop :=
  forall w, m (u w) = (let (o, w') := m w in (o, u w')).

Lemma commutes_ret {A} (x : A) : Commutes (ret x).
Proof. intros w. reflexivity. Qed.
Lemma commutes_fail {A} k msg : Commutes (@fail A k msg).
Proof. intros w. reflexivity. Qed.
Lemma commutes_panic {A} s : Commutes (@panic A s).
Proof. intros w. reflexivity. Qed.
Lemma commutes_lift {A} (x : Res A) : Commutes (lift x).
Proof. intros w. destruct x; reflexivity. Qed.

Lemma commutes_bind {A B} (m : M A) (f : A -> M B) :
  Commutes m -> (forall x, Commutes (f x)) -> Commutes (mbind m f).
Proof.
  intros Hm Hf w. unfold mbind. rewrite Hm. destruct (m w) as [[x|k e|s] w']; try reflexivity.
  apply Hf.
Qed.

(* reading the world: fine as long as the continuation ignores the shell fields of what it read *)
Lemma commutes_get {A} (k : world -> M A) :
  (forall w0, Commutes (k w0)) -> (forall w0 w, k (u w0) w = k w0 w) ->
  Commutes (mbind get k).
Proof.
  intros Hk Hins w. unfold mbind, get. rewrite Hins. apply Hk.
Qed.

Lemma commutes_gets {A} (f : world -> A) : (forall w, f (u w) = f w) -> Commutes (gets f).
Proof. intros H w. unfold gets. now rewrite H. Qed.

Lemma commutes_modify (g : world -> world) : (forall w, g (u w) = u (g w)) -> Commutes (modify g).
Proof. intros H w. unfold modify. now rewrite H. Qed.

Lemma commutes_mod_state (f : sstate -> sstate) : Commutes (mod_state f).
Proof. apply commutes_modify. intros w. destruct w; reflexivity. Qed.

Lemma commutes_get_state : Commutes get_state.
Proof. apply commutes_gets. intros w. destruct w; reflexivity. Qed.

Lemma commutes_when (b : bool) (m : M unit) : Commutes m -> Commutes (when b m).
Proof. intros H. destruct b; [exact H|apply commutes_ret]. Qed.

Lemma commutes_m_read {A} (f : sstate -> Res A) : Commutes (m_read f).
Proof.
  unfold m_read. apply commutes_bind; [apply commutes_get_state|]. intros s. apply commutes_lift.
Qed.

Lemma commutes_m_state_res (f : sstate -> Res sstate) : Commutes (m_state_res f).
Proof.
  unfold m_state_res. apply commutes_bind; [apply commutes_get_state|]. intros s.
  apply commutes_bind; [apply commutes_lift|]. intros s'. apply commutes_mod_state.
Qed.

Lemma commutes_m_cs_res (f : callstack -> Res callstack) : Commutes (m_cs_res f).
Proof. unfold m_cs_res. apply commutes_m_state_res. Qed.

Lemma commutes_mfor {A} (xs : list A) (f : A -> M unit) :
  (forall x, Commutes (f x)) -> Commutes (mfor xs f).
Proof.
  intros H. induction xs as [|x xs IH]; cbn [mfor]; [apply commutes_ret|].
  apply commutes_bind; [apply H|]. intros _. exact IH.
Qed.

Lemma commutes_m_root : Commutes m_root.
Proof. apply commutes_gets. intros w. destruct w; reflexivity. Qed.
Lemma commutes_m_defs : Commutes m_defs.
Proof. apply commutes_gets. intros w. destruct w; reflexivity. Qed.

Lemma commutes_log_event e : Commutes (log_event e).
Proof. apply commutes_modify. intros w. destruct w; reflexivity. Qed.

End Frame.

(* ---------- automation ---------- *)
#[export] Hint Resolve commutes_ret commutes_fail commutes_panic commutes_lift commutes_mod_state
  commutes_get_state commutes_m_read commutes_m_state_res commutes_m_cs_res commutes_m_root
  commutes_m_defs commutes_log_event : comm.

Ltac comm_step :=
  match goal with
  | |- Commutes _ _ _ _ (mbind get _) =>
      apply commutes_get; [intros ?|intros [] ?; reflexivity]
  | |- Commutes _ _ _ _ (mbind _ _) => apply commutes_bind; [|intros ?]
  | |- Commutes _ _ _ _ (when _ _) => apply commutes_when
  | |- Commutes _ _ _ _ (mfor _ _) => apply commutes_mfor; intros ?
  | |- Commutes _ _ _ _ (gets _) => apply commutes_gets; intros []; reflexivity
  | |- Commutes _ _ _ _ (modify _) => apply commutes_modify; intros []; reflexivity
  | |- Commutes _ _ _ _ (match ?x with _ => _ end) => destruct x
  | |- Commutes _ _ _ _ (if ?b then _ else _) => destruct b
  | |- Commutes _ _ _ _ (let '(_, _) := ?x in _) => destruct x
  | |- Commutes _ _ _ _ _ => solve [auto with comm]
  end.
Ltac comm := repeat comm_step.
