(* Shell/RejectProofs.v — C09: a host call that is rejected because of a bad
   argument or because it is not allowed in the current state returns an error
   (never a panic) and leaves the world literally unchanged.  Each lemma is
   about the API function of Engine/Api.v with the CURRENT switches (Tie.v). *)
From Coq Require Import Lia.
From Ink.Engine Require Import Api Tie.
From Ink.Gen Require Import PathGen.
From Ink.Data Require Import PathProofs.

Local Arguments continue_internal : simpl never.
Local Arguments validate_arguments : simpl never.
Local Arguments pointer_at_path : simpl never.
Local Arguments get_current_choices : simpl never.
Local Arguments knot_container_with_name : simpl never.
Local Arguments trim : simpl never.
Local Arguments path_of_string_gen : simpl never.

Section Reject.
Variable I : iface.
Notation sw := sw_now.

Ltac munfold :=
  repeat (progress (unfold m_can_continue, if_async_we_cant, m_read, get_state, mod_state, when,
                           mbind, ret, fail, get, gets, put, modify, lift in *)).

(* ---------- cont / continue_async when the story cannot continue ---------- *)
Lemma continue_internal_rejected (limited : bool) (w : world) :
  w_async w = false -> ss_can_continue (w_state w) = Ok false ->
  exists msg, continue_internal I sw limited w = (OErr InvalidState msg, w).
Proof.
  intros Ha Hc. unfold continue_internal. munfold. rewrite Hc, Ha. cbn.
  rewrite ?now_cont_check_first. cbn. eexists. reflexivity.
Qed.

Lemma cont_rejected_noop (w : world) :
  w_async w = false -> w_validated w = true -> ss_can_continue (w_state w) = Ok false ->
  exists msg, api_cont I sw w = (OErr InvalidState msg, w).
Proof.
  intros Ha Hv Hc. destruct (continue_internal_rejected false w Ha Hc) as [msg H].
  unfold api_cont, story_cont, continue_async, cont_internal. munfold. rewrite Hv. cbn.
  rewrite H. eexists. reflexivity.
Qed.

Lemma continue_async_rejected_noop (limited : bool) (w : world) :
  w_async w = false -> w_validated w = true -> ss_can_continue (w_state w) = Ok false ->
  exists msg, continue_async I sw limited w = (OErr InvalidState msg, w).
Proof.
  intros Ha Hv Hc. destruct (continue_internal_rejected limited w Ha Hc) as [msg H].
  unfold continue_async, cont_internal. munfold. rewrite Hv. cbn. rewrite H. eexists. reflexivity.
Qed.

(* ---------- choosing an index that is not offered ---------- *)
(* Reading the choices assigns their indices (a RefCell in Rust), so the world
   after a rejected choose is the world after merely looking at the choices. *)
Lemma choose_rejected_noop (i : nat) (w : world) cs w' :
  get_current_choices w = (OOk cs, w') -> nth_error cs i = None ->
  exists msg, choose_choice_index I sw i w = (OErr BadArgument msg, w').
Proof.
  intros Hg Hn. unfold choose_choice_index. unfold mbind at 1. rewrite Hg, Hn.
  unfold fail. eexists. reflexivity.
Qed.

(* ---------- variables and observers ---------- *)
Lemma set_variable_rejected_noop (name : text) (v : value) (w : world) :
  w_async w = false -> assoc_mem name (vs_defaults (ss_vars (w_state w))) = false ->
  exists msg, set_variable I sw name v w = (OErr BadArgument msg, w).
Proof.
  intros Ha H. unfold set_variable, vs_host_set, m_defs. munfold. cbn. rewrite Ha. cbn. rewrite H. cbn.
  eexists. reflexivity.
Qed.

Lemma observe_rejected_noop (name obs : text) (w : world) :
  w_async w = false -> vs_global_exists (ss_vars (w_state w)) name = false ->
  exists msg, observe_variable name obs w = (OErr BadArgument msg, w).
Proof.
  intros Ha H. unfold observe_variable. munfold. rewrite Ha. cbn. rewrite H. cbn.
  eexists. reflexivity.
Qed.

(* removing an observer that is not registered: no panic, nothing changes *)
Lemma remove_first_text_none x l : mem_text x l = false -> remove_first_text x l = None.
Proof.
  induction l as [|y l IH]; cbn; [reflexivity|]. intros H.
  apply Bool.orb_false_iff in H as [H1 H2]. rewrite H1, (IH H2). reflexivity.
Qed.

Lemma remove_observer_unregistered_noop (obs name : text) (w : world) :
  w_async w = false ->
  (forall l, assoc name (w_observers w) = Some l -> mem_text obs l = false) ->
  remove_variable_observer sw obs (Some name) w = (OOk tt, w).
Proof.
  intros Ha H. unfold remove_variable_observer. munfold. rewrite Ha. cbn.
  destruct (assoc name (w_observers w)) as [l|] eqn:E; cbn.
  - unfold remove_observer_from. rewrite (remove_first_text_none _ _ (H l eq_refl)).
    rewrite ?now_observer_removal_checked. cbn. destruct w; reflexivity.
  - destruct w; reflexivity.
Qed.

(* ---------- external bindings ---------- *)
Lemma bind_twice_rejected_noop (name : text) (def : extdef) (w : world) :
  w_async w = false -> assoc_mem name (w_externals w) = true ->
  exists msg, bind_external name def w = (OErr BadArgument msg, w).
Proof.
  intros Ha H. unfold bind_external. munfold. rewrite Ha. cbn. rewrite H. eexists. reflexivity.
Qed.

Lemma unbind_absent_rejected_noop (name : text) (w : world) :
  w_async w = false -> assoc_mem name (w_externals w) = false ->
  exists msg, unbind_external name w = (OErr BadArgument msg, w).
Proof.
  intros Ha H. unfold unbind_external. munfold. rewrite Ha. cbn. rewrite H. eexists. reflexivity.
Qed.

(* ---------- evaluate_function ---------- *)
Lemma eval_blank_rejected_noop (name : text) args (w : world) :
  w_async w = false -> trim name = [] ->
  exists msg, evaluate_function I sw name args w = (OErr InvalidState msg, w).
Proof.
  intros Ha H. unfold evaluate_function. munfold. rewrite Ha. cbn. rewrite H. eexists. reflexivity.
Qed.

Lemma eval_unknown_rejected_noop (name : text) args (w : world) :
  w_async w = false -> trim name <> [] -> knot_container_with_name (root_of w) name = None ->
  exists msg, evaluate_function I sw name args w = (OErr BadArgument msg, w).
Proof.
  intros Ha Hn H. unfold evaluate_function. munfold. rewrite Ha. cbn.
  destruct (trim name) eqn:E; [congruence|]. rewrite H. eexists. reflexivity.
Qed.

Definition passable (v : value) : bool :=
  match v with VBool _ | VInt _ | VFloat _ | VList _ | VString _ => true | _ => false end.

Lemma validate_arguments_rejects (args : list value) (w : world) :
  forallb passable args = false ->
  exists msg, validate_arguments args w = (OErr InvalidState msg, w).
Proof.
  induction args as [|a args IH]; cbn [forallb]; [discriminate|]. intros H.
  unfold validate_arguments in *. cbn [mfor]. unfold mbind.
  destruct (passable a) eqn:Pa.
  - cbn [andb] in H. destruct (IH H) as [msg Hm].
    destruct a; try discriminate Pa; exists msg; unfold ret at 1; cbn beta iota; exact Hm.
  - destruct a; try discriminate Pa; unfold fail; eexists; reflexivity.
Qed.

Lemma eval_bad_argument_rejected_noop (name : text) (args : list value) (w : world) fp :
  w_async w = false -> trim name <> [] -> knot_container_with_name (root_of w) name = Some fp ->
  forallb passable args = false ->
  exists msg, evaluate_function I sw name (Some args) w = (OErr InvalidState msg, w).
Proof.
  intros Ha Hn Hk Hb. unfold evaluate_function. munfold. rewrite Ha. cbn.
  destruct (trim name) eqn:E; [congruence|]. rewrite Hk. rewrite ?now_eval_args_first. cbn.
  destruct (validate_arguments_rejects args w Hb) as [msg Hm]. rewrite Hm. eexists. reflexivity.
Qed.

(* ---------- choose_path_string ---------- *)
Lemma path_unknown_rejected_noop (p : text) (reset : bool) (args : list value) (w : world) k msg :
  w_async w = false ->
  pointer_at_path (root_of w) (path_of_string_gen cache_input (Some p)) = Err k msg ->
  choose_path_string I sw p reset args w = (OErr k msg, w).
Proof.
  intros Ha H. unfold choose_path_string. munfold. rewrite Ha. cbn.
  rewrite ?now_path_validated_first. cbn. rewrite H. reflexivity.
Qed.

Lemma path_bad_argument_rejected_noop (p : text) (reset : bool) (args : list value) (w : world) ptr :
  w_async w = false ->
  pointer_at_path (root_of w) (path_of_string_gen cache_input (Some p)) = Ok ptr ->
  forallb passable args = false ->
  exists msg, choose_path_string I sw p reset args w = (OErr InvalidState msg, w).
Proof.
  intros Ha H Hb. unfold choose_path_string. munfold. rewrite Ha. cbn.
  rewrite ?now_path_validated_first. cbn. rewrite H.
  destruct (validate_arguments_rejects args w Hb) as [msg Hm]. rewrite Hm. eexists. reflexivity.
Qed.

(* ---------- flows ---------- *)
Lemma remove_default_flow_rejected_noop (w : world) :
  exists k msg, remove_flow sw DEFAULT_FLOW w = (OErr k msg, w).
Proof.
  unfold remove_flow. munfold. cbn. destruct (w_async w); cbn.
  - eexists; eexists; reflexivity.
  - rewrite ?text_eqb_refl. eexists; eexists; reflexivity.
Qed.

Lemma assoc_remove_absent {V} (k : text) (l : list (text * V)) :
  assoc_mem k l = false -> assoc_remove k l = l.
Proof.
  unfold assoc_mem. induction l as [|[k' v] l IH]; cbn; [reflexivity|].
  destruct (text_eqb k k') eqn:E; [discriminate|]. intros H. now rewrite IH.
Qed.

(* removing a flow that does not exist: no panic, nothing changes *)
Lemma remove_absent_flow_noop (name : text) (w : world) :
  w_async w = false -> text_eqb name DEFAULT_FLOW = false ->
  text_eqb (fl_name (ss_flow (w_state w))) name = false ->
  (forall nf, ss_named (w_state w) = Some nf -> assoc_mem name nf = false) ->
  remove_flow sw name w = (OOk tt, w).
Proof.
  intros Ha Hd Hc Hn. unfold remove_flow.
  destruct w as [st s rcc asy snap obs val fb unsafe exts hdl evs lines fuel pauses pl].
  destruct s as [fl se vars ev errs warns pa named div vis turns turn seed prnd]. cbn in Ha, Hc, Hn.
  unfold DEFAULT_FLOW in Hd; cbn in Hd.
  munfold. unfold set. cbn. rewrite Ha. cbn. rewrite Hd. cbn. rewrite Hc. cbn.
  destruct named as [nf|]; unfold set; cbn.
  - rewrite (assoc_remove_absent name nf (Hn nf eq_refl)). reflexivity.
  - rewrite ?now_remove_flow_checked. reflexivity.
Qed.

(* ---------- while a time-limited continue is unfinished ---------- *)
Lemma async_guard (w : world) : w_async w = true ->
  exists msg, if_async_we_cant w = (OErr InvalidState msg, w).
Proof. intros H. unfold if_async_we_cant. munfold. rewrite H. eexists. reflexivity. Qed.

End Reject.
