(* Shell/PatchShape.v — whether a look-ahead patch is present (StoryState.patch, and the
   VariablesState's own copy of it) is changed by NO interpreter function: only taking a snapshot
   creates the patches and only restoring / discarding it removes them.  Proved for the whole
   interpreter with the Keeps calculus on the observation `shape`. *)
From Ink.Engine Require Import Api Tie.
From Ink.Shell Require Import Keeps.

Definition shape (s : sstate) : bool * bool :=
  (match ss_patch s with Some _ => true | None => false end,
   match vs_patch (ss_vars s) with Some _ => true | None => false end).
Definition wshape (w : world) : bool * bool := shape (w_state w).

(* state-level facts: f preserves the shape *)
Definition SK (f : sstate -> sstate) : Prop := forall s, shape (f s) = shape s.
Definition SKR (f : sstate -> Res sstate) : Prop := forall s s', f s = Ok s' -> shape s' = shape s.

Lemma sh_flow s g : shape (s <| ss_flow ::= g |>) = shape s. Proof. destruct s; reflexivity. Qed.
Lemma sh_safe_exit s g : shape (s <| ss_safe_exit ::= g |>) = shape s. Proof. destruct s; reflexivity. Qed.
Lemma sh_eval s g : shape (s <| ss_eval ::= g |>) = shape s. Proof. destruct s; reflexivity. Qed.
Lemma sh_errors s g : shape (s <| ss_errors ::= g |>) = shape s. Proof. destruct s; reflexivity. Qed.
Lemma sh_warnings s g : shape (s <| ss_warnings ::= g |>) = shape s. Proof. destruct s; reflexivity. Qed.
Lemma sh_named s g : shape (s <| ss_named ::= g |>) = shape s. Proof. destruct s; reflexivity. Qed.
Lemma sh_diverted s g : shape (s <| ss_diverted ::= g |>) = shape s. Proof. destruct s; reflexivity. Qed.
Lemma sh_visits s g : shape (s <| ss_visits ::= g |>) = shape s. Proof. destruct s; reflexivity. Qed.
Lemma sh_turns s g : shape (s <| ss_turns ::= g |>) = shape s. Proof. destruct s; reflexivity. Qed.
Lemma sh_turn s g : shape (s <| ss_turn ::= g |>) = shape s. Proof. destruct s; reflexivity. Qed.
Lemma sh_seed s g : shape (s <| ss_seed ::= g |>) = shape s. Proof. destruct s; reflexivity. Qed.
Lemma sh_prev_random s g : shape (s <| ss_prev_random ::= g |>) = shape s. Proof. destruct s; reflexivity. Qed.
Lemma sh_set_cs s c : shape (ss_set_cs s c) = shape s. Proof. destruct s; reflexivity. Qed.
Lemma sh_set_out s c : shape (ss_set_out s c) = shape s. Proof. destruct s; reflexivity. Qed.
Lemma sh_set_choices s c : shape (ss_set_choices s c) = shape s. Proof. destruct s; reflexivity. Qed.
#[export] Hint Rewrite sh_flow sh_safe_exit sh_eval sh_errors sh_warnings sh_named sh_diverted sh_visits sh_turns
  sh_turn sh_seed sh_prev_random sh_set_cs sh_set_out sh_set_choices : shdb.

(* solve SK / SKR goals: unfold the function before calling *)
Ltac shs := autorewrite with shdb; try reflexivity;
  repeat (match goal with |- context [if ?b then _ else _] => destruct b end; autorewrite with shdb; try reflexivity).
Ltac skr :=
  unfold SK, SKR; intros;
  repeat (match goal with
          | H : Ok _ = Ok _ |- _ => injection H as H; subst
          | H : Err _ _ = Ok _ |- _ => discriminate H
          | H : Panic _ = Ok _ |- _ => discriminate H
          | H : bind ?x _ = Ok _ |- _ => let E := fresh "E" in destruct x eqn:E; cbn [bind] in H
          | H : (match ?x with _ => _ end) = Ok _ |- _ => let E := fresh "E" in destruct x eqn:E
          | H : (let '(_, _) := ?x in _) = Ok _ |- _ => let E := fresh "E" in destruct x eqn:E
          end);
  shs.

Lemma skr_set_cur_pointer p : SKR (fun s => ss_set_cur_pointer s p).
Proof. unfold ss_set_cur_pointer. skr. Qed.
Lemma skr_set_prev_pointer p : SKR (fun s => ss_set_prev_pointer s p).
Proof. unfold ss_set_prev_pointer. skr. Qed.
Lemma skr_set_in_expr b : SKR (fun s => ss_set_in_expr s b).
Proof. unfold ss_set_in_expr. skr. Qed.
Lemma skr_push_individual o : SKR (push_individual o).
Proof. unfold push_individual. skr. Qed.
Lemma skr_foldM {A} (f : sstate -> A -> Res sstate) l :
  (forall a, SKR (fun s => f s a)) -> SKR (foldM f l).
Proof.
  intros H. induction l as [|x l IH]; intros s s' E; cbn [foldM] in E; [now injection E as <-|].
  destruct (f s x) as [s1| |] eqn:E1; cbn [bind] in E; try discriminate.
  rewrite (IH _ _ E). exact (H x s s1 E1).
Qed.
Lemma skr_push_to_output o : SKR (push_to_output o).
Proof.
  unfold push_to_output. destruct o as [?|vl|?|? ?|?|?|?|?|? ? ?|?| | |?]; try apply skr_push_individual.
  destruct vl; try apply skr_push_individual.
  destruct (try_split_head_tail _); [|apply skr_push_individual].
  apply skr_foldM. intros a. apply skr_push_individual.
Qed.
Lemma skr_trim : SKR trim_whitespace_from_function_end.
Proof. unfold trim_whitespace_from_function_end. skr. Qed.
Lemma skr_force_end : SKR force_end.
Proof.
  unfold force_end. intros s s' E.
  destruct (ss_set_cur_pointer _ _) as [s2| |] eqn:E2; cbn [bind] in E; try discriminate.
  destruct (ss_set_prev_pointer _ _) as [s3| |] eqn:E3; cbn [bind] in E; try discriminate.
  injection E as <-. rewrite sh_safe_exit.
  rewrite (skr_set_prev_pointer _ _ _ E3), (skr_set_cur_pointer _ _ _ E2). shs.
Qed.
Lemma sk_pop_from_output n : SK (pop_from_output n).
Proof. unfold pop_from_output. intros s. destruct (Nat.leb _ _); shs. Qed.
Lemma sk_reset_output l : SK (reset_output l).
Proof. unfold reset_output. intros s. shs. Qed.

Section VarsShape.
Variable I : iface.

Lemma sh_set_global s name val b s' : set_global I s name val = Ok (b, s') -> shape s' = shape s.
Proof.
  unfold set_global. intros E.
  destruct (match match match vs_patch (ss_vars s) with Some p => assoc name (pa_globals p) | None => None end with
                  | Some x => Some x | None => assoc name (vs_globals (ss_vars s)) end with
            | Some o => if_retain I o val | None => Ok val end) as [val'| |]; cbn [bind] in E; try discriminate.
  destruct s as [fl se va ev er wa pa nm di vi tu t sd pr]. destruct va as [g df bt ch vp]. cbn in *.
  destruct vp as [p|]; destruct bt; cbn in E;
    repeat (match type of E with context [match ?x with _ => _ end] => destruct x end);
    injection E as _ <-; reflexivity.
Qed.

Lemma skr_assign defs name is_new is_global val : SKR (fun s => assign I defs s name is_new is_global val).
Proof.
  unfold assign. intros s s' E.
  destruct is_new.
  - destruct (match val with VVarPtr n c => resolve_variable_pointer I defs s n c | _ => Ok val end) as [val'| |];
      cbn [bind] in E; try discriminate.
    destruct is_global.
    + destruct (set_global I s name val') as [[b s1]| |] eqn:Eg; cbn [bind] in E; try discriminate.
      injection E as <-. exact (sh_set_global _ _ _ _ _ Eg).
    + destruct (cs_set_temp _ _ _ _ _ _) as [cs| |]; cbn [bind] in E; try discriminate.
      injection E as <-. apply sh_set_cs.
  - destruct (assign_chase _ _ _ _ _ _ _) as [[[n c] g]| |]; cbn [bind] in E; try discriminate.
    destruct g.
    + destruct (set_global I s n val) as [[b s1]| |] eqn:Eg; cbn [bind] in E; try discriminate.
      injection E as <-. exact (sh_set_global _ _ _ _ _ Eg).
    + destruct (cs_set_temp _ _ _ _ _ _) as [cs| |]; cbn [bind] in E; try discriminate.
      injection E as <-. apply sh_set_cs.
Qed.
End VarsShape.

Lemma skr_increment_visit_count root cp : SKR (fun s => increment_visit_count root s cp).
Proof.
  unfold increment_visit_count. intros s s' E. destruct s as [fl se va ev er wa pa nm di vi tu t sd pr]. cbn in *.
  destruct pa as [p|]; cbn in E;
    repeat (match type of E with
            | bind ?x _ = _ => destruct x; cbn [bind] in E; try discriminate
            end);
    injection E as <-; reflexivity.
Qed.
Lemma skr_record_turn_index_visit root cp : SKR (fun s => record_turn_index_visit root s cp).
Proof.
  unfold record_turn_index_visit. intros s s' E. destruct s as [fl se va ev er wa pa nm di vi tu t sd pr]. cbn in *.
  destruct (path_text_of root cp); cbn [bind] in E; try discriminate.
  destruct pa; injection E as <-; reflexivity.
Qed.

(* ---------- lifting through the monad ---------- *)
Notation KW := (Keeps wshape).

Lemma kw_mod_state g : SK g -> KW (mod_state g).
Proof. intros H. apply keeps_modify. intros w. destruct w; unfold wshape; cbn. apply H. Qed.
Lemma kw_m_read {A} (g : sstate -> Res A) : KW (m_read g).
Proof. unfold m_read. apply keeps_bind; [apply keeps_gets|]. intros s. apply keeps_lift. Qed.
Lemma kw_m_state_res g : SKR g -> KW (m_state_res g).
Proof.
  intros H w. unfold m_state_res, mbind, get_state, gets, lift, mod_state, modify.
  destruct (g (w_state w)) as [s'| |] eqn:E; cbn; try reflexivity.
  unfold wshape. destruct w; cbn in *. exact (H _ _ E).
Qed.
Lemma kw_m_cs_res g : KW (m_cs_res g).
Proof.
  unfold m_cs_res. apply kw_m_state_res. intros s s' E.
  destruct (g (ss_cs s)); cbn [bind] in E; try discriminate. injection E as <-. apply sh_set_cs.
Qed.
Lemma kw_modify_world (g : world -> world) : (forall w, w_state (g w) = w_state w) -> KW (modify g).
Proof. intros H. apply keeps_modify. intros w. unfold wshape. now rewrite H. Qed.

#[export] Hint Resolve kw_m_read kw_m_cs_res skr_set_cur_pointer skr_set_prev_pointer skr_set_in_expr
  skr_push_individual skr_push_to_output skr_trim skr_force_end sk_pop_from_output sk_reset_output
  skr_increment_visit_count skr_record_turn_index_visit skr_assign : keeps.

Ltac kw_step :=
  match goal with
  | |- Keeps wshape (mod_state _) => apply kw_mod_state; first [solve [auto with keeps] | intros ?; solve [shs]]
  | |- Keeps wshape (m_read _) => apply kw_m_read
  | |- Keeps wshape (m_state_res _) => apply kw_m_state_res; first [solve [auto with keeps] | solve [skr]]
  | |- Keeps wshape (m_cs_res _) => apply kw_m_cs_res
  | |- Keeps wshape get_state => apply keeps_gets
  | |- Keeps wshape (modify _) => apply kw_modify_world; intros []; reflexivity
  | _ => keeps_step
  end.
Ltac kw := repeat kw_step.

Section StepShape.
Variable I : iface.
Variable sw : switches.

Lemma kw_m_root : KW m_root. Proof. unfold m_root. kw. Qed.
Lemma kw_m_defs : KW m_defs. Proof. unfold m_defs. kw. Qed.
Hint Resolve kw_m_root kw_m_defs : keeps.
Lemma kw_log_event e : KW (log_event e). Proof. unfold log_event. kw. Qed.
Hint Resolve kw_log_event : keeps.
Lemma kw_push_eval o : KW (push_eval I o). Proof. unfold push_eval. kw. Qed.
Lemma kw_pop_eval : KW pop_eval. Proof. unfold pop_eval. kw. Qed.
Lemma kw_peek_eval : KW peek_eval. Proof. unfold peek_eval. kw. Qed.
Lemma kw_pop_eval_multiple n : KW (pop_eval_multiple n). Proof. unfold pop_eval_multiple. kw. Qed.
Hint Resolve kw_push_eval kw_pop_eval kw_peek_eval kw_pop_eval_multiple : keeps.
Lemma kw_m_push_output o : KW (m_push_output o). Proof. unfold m_push_output. kw. Qed.
Hint Resolve kw_m_push_output : keeps.
Lemma kw_add_error_msg m b : KW (add_error_msg m b). Proof. unfold add_error_msg. kw. Qed.
Hint Resolve kw_add_error_msg : keeps.
Lemma kw_add_error m b : KW (add_error m b). Proof. unfold add_error. kw. Qed.
Hint Resolve kw_add_error : keeps.
Lemma kw_visit_container cp b : KW (visit_container cp b). Proof. unfold visit_container. kw. Qed.
Hint Resolve kw_visit_container : keeps.
Lemma kw_visit_changed_loop fuel : forall prevs child b, KW (visit_changed_loop fuel prevs child b).
Proof. induction fuel as [|f IH]; intros; cbn [visit_changed_loop]; kw. Qed.
Hint Resolve kw_visit_changed_loop : keeps.
Lemma kw_visit_changed : KW visit_changed_containers_due_to_divert.
Proof. unfold visit_changed_containers_due_to_divert. kw. Qed.
Hint Resolve kw_visit_changed : keeps.
Lemma kw_increment_content_pointer : KW increment_content_pointer.
Proof. unfold increment_content_pointer. kw. Qed.
Hint Resolve kw_increment_content_pointer : keeps.
Lemma kw_pop_callstack t : KW (pop_callstack t). Proof. unfold pop_callstack. kw. Qed.
Hint Resolve kw_pop_callstack : keeps.
Lemma kw_try_exit : KW try_exit_function_evaluation_from_game.
Proof. unfold try_exit_function_evaluation_from_game. kw. Qed.
Hint Resolve kw_try_exit : keeps.
Lemma kw_next_content_fuel fuel : KW (next_content_fuel I fuel).
Proof. induction fuel as [|f IH]; cbn [next_content_fuel]; kw. Qed.
Hint Resolve kw_next_content_fuel : keeps.
Lemma kw_next_content : KW (next_content I). Proof. unfold next_content. kw. Qed.
Hint Resolve kw_next_content : keeps.
Lemma kw_choose_path pa b : KW (choose_path I sw pa b). Proof. unfold choose_path. kw. Qed.
Hint Resolve kw_choose_path : keeps.
Lemma kw_pop_args n : forall acc, KW (pop_args n acc).
Proof. induction n as [|n IH]; intros; cbn [pop_args]; kw. Qed.
Hint Resolve kw_pop_args : keeps.
Lemma kw_call_external name n : KW (call_external_function I sw name n).
Proof. unfold call_external_function. kw. Qed.
Hint Resolve kw_call_external : keeps.
Lemma kw_shuffle : KW (next_sequence_shuffle_index I). Proof. unfold next_sequence_shuffle_index. kw. Qed.
Hint Resolve kw_shuffle : keeps.
Lemma kw_pop_tags fuel : forall tags, KW (pop_tags fuel tags).
Proof. induction fuel as [|f IH]; intros; cbn [pop_tags]; kw. Qed.
Hint Resolve kw_pop_tags : keeps.
Lemma kw_pop_choice_string tags : KW (pop_choice_string_and_tags tags).
Proof. unfold pop_choice_string_and_tags. kw. Qed.
Hint Resolve kw_pop_choice_string : keeps.
Lemma kw_process_choice cp f pa : KW (process_choice I cp f pa). Proof. unfold process_choice. kw. Qed.
Hint Resolve kw_process_choice : keeps.
Lemma kw_try_follow : KW (try_follow_default_invisible_choice I sw).
Proof. unfold try_follow_default_invisible_choice. kw. Qed.
Hint Resolve kw_try_follow : keeps.
Lemma kw_set_in_expr b : KW (set_in_expr b). Proof. unfold set_in_expr. kw. Qed.
Hint Resolve kw_set_in_expr : keeps.
Lemma kw_do_command c o : KW (do_command I c o). Proof. unfold do_command. destruct c; kw. Qed.
Hint Resolve kw_do_command : keeps.
Lemma kw_perform_logic op : KW (perform_logic_and_flow_control I sw op).
Proof. unfold perform_logic_and_flow_control. kw. Qed.
Hint Resolve kw_perform_logic : keeps.
Lemma kw_enter_containers fuel : forall pt, KW (enter_containers fuel pt).
Proof. induction fuel as [|f IH]; intros; cbn [enter_containers]; kw. Qed.
Hint Resolve kw_enter_containers : keeps.
Lemma kw_take_fuel : KW take_fuel. Proof. unfold take_fuel. kw. Qed.
Hint Resolve kw_take_fuel : keeps.
Theorem kw_step_thm : KW (step I sw). Proof. unfold step. kw. Qed.
Lemma kw_can_continue : KW m_can_continue. Proof. unfold m_can_continue. kw. Qed.
End StepShape.
