(* Shell/HostFrameLoad.v — loading a saved state writes the StoryState only: anything that does not
   look at it (the host's registrations, the look-ahead snapshot, the loop bookkeeping, the program)
   is kept, however the load ends. *)
From Ink.Gen Require Import SaveGen.
From Ink.Engine Require Import Api Tie Save.
From Ink.Shell Require Import Keeps KeepsStep HostFrame.

Section LoadKeeps.
Variable sp : ssite -> bool.
Variable ssw : save_switches.
Context {X : Type}.
Variable obs : world -> X.
Hypothesis f_state : forall w g, obs (w <| w_state ::= g |>) = obs w.
Notation K := (Keeps obs).

Ltac lk := repeat ((apply keeps_mod_state; exact f_state) || (apply keeps_m_read; exact f_state)
                   || (apply keeps_m_state_res; exact f_state) || (apply keeps_m_cs_res; exact f_state)
                   || (apply keeps_get_state) || keeps_step).

Lemma lk_set_named v : K (set_named v). Proof. unfold set_named. lk. Qed.
Lemma lk_set_flow fl : K (set_flow fl). Proof. unfold set_flow. lk. Qed.
Hint Resolve lk_set_named lk_set_flow : keeps.

Lemma lk_load_flows_loop single l : K (load_flows_loop sp ssw single l).
Proof. induction l as [|[n fj] r IH]; cbn [load_flows_loop]; lk. Qed.
Hint Resolve lk_load_flows_loop : keeps.
Lemma lk_load_flows j : K (load_flows sp ssw j).
Proof. unfold load_flows. lk. Qed.
Hint Resolve lk_load_flows : keeps.
Lemma lk_load_i32_field j k msg set : K (load_i32_field j k msg set).
Proof. unfold load_i32_field. lk. Qed.
Hint Resolve lk_load_i32_field : keeps.
Theorem lk_load_json_obj j : K (load_json_obj sp ssw j).
Proof. unfold load_json_obj. lk. Qed.
End LoadKeeps.

Theorem load_keeps_registrations sp ssw w j :
  host_regs (snd (load_state sp ssw w j)) = host_regs w.
Proof. unfold load_state. apply lk_load_json_obj. intros w0 g. destruct w0; reflexivity. Qed.

(* ---------- C15: a load — successful or failed — is followed by a reset that is a fresh start ---------- *)
From Ink.Shell Require Import ResetProofs.

Lemma load_keeps_between_calls sp ssw w j :
  between_calls w -> between_calls (snd (load_state sp ssw w j)).
Proof.
  intros H.
  pose proof (lk_load_json_obj sp ssw (fun w => (w_async w, w_rcc w, w_snapshot w, w_saw_unsafe w))
                (fun w g => ltac:(destruct w; reflexivity)) j w) as E.
  unfold load_state. unfold between_calls in *.
  injection E as E1 E2 E3 E4. rewrite E1, E2, E3, E4. exact H.
Qed.

Theorem reset_after_any_load_is_fresh (I : iface) sp ssw (seed : Z) w j :
  between_calls w ->
  reset_state I sw_now seed (snd (load_state sp ssw w j)) =
  reset_globals I sw_now (rebind (snd (load_state sp ssw w j))
                                 (world_init (w_story (snd (load_state sp ssw w j))) seed
                                             (w_fuel (snd (load_state sp ssw w j))))).
Proof. intros H. apply reset_is_fresh_init. apply load_keeps_between_calls, H. Qed.
