(* Shell/Rewind.v — C01, the "rewind" half of look-ahead transparency.
   (1) No interpreter step touches the look-ahead snapshot (Story::state_snapshot_at_last_new_line):
       proved for the whole interpreter with the Keeps calculus.
   (2) Hence, however many steps the engine runs past a line end, restoring the snapshot gives
       back EXACTLY the StoryState the story had when the snapshot was taken: call stack, threads,
       output stream, choices, evaluation stack, globals, changed-variable batch, visit counts,
       turn indices, turn index, seeds, errors, warnings, flows — nothing a discarded look-ahead
       wrote survives, so every effect after the line end is produced (again, and only) by the
       continue that commits it. *)
From Ink.Engine Require Import Api Tie.
From Ink.Shell Require Import Keeps.

Section SnapKeeps.
Variable I : iface.
Variable sw : switches.
Notation K := (Keeps w_snapshot).

Lemma snap_state w g : w_snapshot (w <| w_state ::= g |>) = w_snapshot w.
Proof. destruct w; reflexivity. Qed.
Hint Resolve snap_state : keeps.

Ltac ks := repeat (keeps_step || (apply keeps_mod_state; exact snap_state)
                   || (apply keeps_m_read; exact snap_state) || (apply keeps_m_state_res; exact snap_state)
                   || (apply keeps_m_cs_res; exact snap_state) || (apply keeps_get_state)).

Lemma ks_m_root : K m_root. Proof. unfold m_root. ks. Qed.
Lemma ks_m_defs : K m_defs. Proof. unfold m_defs. ks. Qed.
Hint Resolve ks_m_root ks_m_defs : keeps.
Lemma ks_log_event e : K (log_event e). Proof. unfold log_event. ks. Qed.
Hint Resolve ks_log_event : keeps.
Lemma ks_push_eval o : K (push_eval I o). Proof. unfold push_eval. ks. Qed.
Lemma ks_pop_eval : K pop_eval. Proof. unfold pop_eval. ks. Qed.
Lemma ks_peek_eval : K peek_eval. Proof. unfold peek_eval. ks. Qed.
Lemma ks_pop_eval_multiple n : K (pop_eval_multiple n). Proof. unfold pop_eval_multiple. ks. Qed.
Hint Resolve ks_push_eval ks_pop_eval ks_peek_eval ks_pop_eval_multiple : keeps.
Lemma ks_m_push_output o : K (m_push_output o). Proof. unfold m_push_output. ks. Qed.
Hint Resolve ks_m_push_output : keeps.
Lemma ks_add_error_msg m b : K (add_error_msg m b). Proof. unfold add_error_msg. ks. Qed.
Hint Resolve ks_add_error_msg : keeps.
Lemma ks_add_error m b : K (add_error m b). Proof. unfold add_error. ks. Qed.
Hint Resolve ks_add_error : keeps.
Lemma ks_visit_container cp b : K (visit_container cp b). Proof. unfold visit_container. ks. Qed.
Hint Resolve ks_visit_container : keeps.
Lemma ks_visit_changed_loop fuel : forall prevs child b, K (visit_changed_loop fuel prevs child b).
Proof. induction fuel as [|f IH]; intros; cbn [visit_changed_loop]; ks. Qed.
Hint Resolve ks_visit_changed_loop : keeps.
Lemma ks_visit_changed : K visit_changed_containers_due_to_divert.
Proof. unfold visit_changed_containers_due_to_divert. ks. Qed.
Hint Resolve ks_visit_changed : keeps.
Lemma ks_increment_content_pointer : K increment_content_pointer.
Proof. unfold increment_content_pointer. ks. Qed.
Hint Resolve ks_increment_content_pointer : keeps.
Lemma ks_pop_callstack t : K (pop_callstack t). Proof. unfold pop_callstack. ks. Qed.
Hint Resolve ks_pop_callstack : keeps.
Lemma ks_try_exit : K try_exit_function_evaluation_from_game.
Proof. unfold try_exit_function_evaluation_from_game. ks. Qed.
Hint Resolve ks_try_exit : keeps.
Lemma ks_next_content_fuel fuel : K (next_content_fuel I fuel).
Proof. induction fuel as [|f IH]; cbn [next_content_fuel]; ks. Qed.
Hint Resolve ks_next_content_fuel : keeps.
Lemma ks_next_content : K (next_content I). Proof. unfold next_content. ks. Qed.
Hint Resolve ks_next_content : keeps.
Lemma ks_choose_path pa b : K (choose_path I sw pa b). Proof. unfold choose_path. ks. Qed.
Hint Resolve ks_choose_path : keeps.
Lemma ks_pop_args n : forall acc, K (pop_args n acc).
Proof. induction n as [|n IH]; intros; cbn [pop_args]; ks. Qed.
Hint Resolve ks_pop_args : keeps.
Lemma ks_call_external name n : K (call_external_function I sw name n).
Proof. unfold call_external_function. ks. Qed.
Hint Resolve ks_call_external : keeps.
Lemma ks_shuffle : K (next_sequence_shuffle_index I). Proof. unfold next_sequence_shuffle_index. ks. Qed.
Hint Resolve ks_shuffle : keeps.
Lemma ks_pop_tags fuel : forall tags, K (pop_tags fuel tags).
Proof. induction fuel as [|f IH]; intros; cbn [pop_tags]; ks. Qed.
Hint Resolve ks_pop_tags : keeps.
Lemma ks_pop_choice_string tags : K (pop_choice_string_and_tags tags).
Proof. unfold pop_choice_string_and_tags. ks. Qed.
Hint Resolve ks_pop_choice_string : keeps.
Lemma ks_process_choice cp f pa : K (process_choice I cp f pa). Proof. unfold process_choice. ks. Qed.
Hint Resolve ks_process_choice : keeps.
Lemma ks_try_follow : K (try_follow_default_invisible_choice I sw).
Proof. unfold try_follow_default_invisible_choice. ks. Qed.
Hint Resolve ks_try_follow : keeps.
Lemma ks_set_in_expr b : K (set_in_expr b). Proof. unfold set_in_expr. ks. Qed.
Hint Resolve ks_set_in_expr : keeps.
Lemma ks_do_command c o : K (do_command I c o). Proof. unfold do_command. destruct c; ks. Qed.
Hint Resolve ks_do_command : keeps.
Lemma ks_perform_logic op : K (perform_logic_and_flow_control I sw op).
Proof. unfold perform_logic_and_flow_control. ks. Qed.
Hint Resolve ks_perform_logic : keeps.
Lemma ks_enter_containers fuel : forall pt, K (enter_containers fuel pt).
Proof. induction fuel as [|f IH]; intros; cbn [enter_containers]; ks. Qed.
Hint Resolve ks_enter_containers : keeps.
Lemma ks_take_fuel : K take_fuel. Proof. unfold take_fuel. ks. Qed.
Hint Resolve ks_take_fuel : keeps.
Theorem ks_step : K (step I sw). Proof. unfold step. ks. Qed.
Lemma ks_can_continue : K m_can_continue. Proof. unfold m_can_continue. ks. Qed.
End SnapKeeps.

Section Rewind.
Variable sw : switches.

(* no patch is pending: the situation whenever a snapshot is taken (a snapshot is only taken
   when there is none, and discarding / restoring one applies and clears the patch) *)
Definition patch_free (s : sstate) : Prop := ss_patch s = None /\ vs_patch (ss_vars s) = None.

Lemma snapshot_taken w : w_snapshot (snd (state_snapshot sw w)) = Some (w_state w).
Proof. destruct w; reflexivity. Qed.

Lemma restore_gives_snapshot w s :
  w_snapshot w = Some s -> patch_free s ->
  exists w3, restore_state_snapshot w = (OOk tt, w3) /\ w_state w3 = s /\ w_snapshot w3 = None
             /\ w_events w3 = w_events w /\ w_rcc w3 = w_rcc w /\ w_async w3 = w_async w.
Proof.
  intros Hs [Hp Hv].
  destruct w as [a st c d sn o1 o2 o3 o4 o5 o6 o7 o8 o9 o10 o11]. cbn in Hs. subst sn.
  destruct s as [fl se va ev er wa pa nm di vi tu t sd pr]. cbn in Hp, Hv. subst pa.
  destruct va as [g df b ch vp]. cbn in Hv. subst vp.
  eexists. split; [lazy; reflexivity|]. repeat split; reflexivity.
Qed.

(* THE REWIND THEOREM: take a snapshot, run ANY computation that keeps the snapshot field
   (every interpreter step does: ks_step; so does any sequence of them), restore — the
   StoryState is the one the snapshot was taken from, whatever the computation did. *)
Theorem rewind_exact {A} (m : M A) :
  Keeps w_snapshot m ->
  forall w, patch_free (w_state w) ->
  exists w3, restore_state_snapshot (snd (m (snd (state_snapshot sw w)))) = (OOk tt, w3)
             /\ w_state w3 = w_state w /\ w_snapshot w3 = None.
Proof.
  intros Hk w Hpf.
  pose proof (Hk (snd (state_snapshot sw w))) as H. rewrite snapshot_taken in H.
  destruct (restore_gives_snapshot _ _ H Hpf) as [w3 [E [Hs [Hn _]]]].
  exists w3. auto.
Qed.
End Rewind.

(* any number of interpreter steps (errors end the run; the world is still the argument of restore) *)
Section Steps.
Variable I : iface.
Variable sw : switches.
Fixpoint steps (n : nat) : M unit :=
  match n with
  | O => ret tt
  | S k => let* _ := step I sw in
           let* can := m_can_continue in
           let* _ := when (negb can) (try_follow_default_invisible_choice I sw) in
           steps k
  end.
Lemma ks_steps n : Keeps w_snapshot (steps n).
Proof.
  induction n as [|k IH]; cbn [steps]; [apply keeps_ret|].
  apply keeps_bind; [apply ks_step|]. intros _.
  apply keeps_bind; [apply ks_can_continue|]. intros can.
  apply keeps_bind; [apply keeps_when, ks_try_follow|]. intros _. exact IH.
Qed.

Corollary lookahead_rewind_exact : forall n w, patch_free (w_state w) ->
  exists w3, restore_state_snapshot (snd (steps n (snd (state_snapshot sw w)))) = (OOk tt, w3)
             /\ w_state w3 = w_state w /\ w_snapshot w3 = None.
Proof. intros n w H. apply (rewind_exact sw (steps n) (ks_steps n) w H). Qed.
End Steps.
