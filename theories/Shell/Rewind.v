(* Shell/Rewind.v — C01, the "rewind" half of look-ahead transparency.
   (1) No interpreter step touches the look-ahead snapshot (Story::state_snapshot_at_last_new_line):
       proved for the whole interpreter with the Keeps calculus.
   (2) Hence, however many steps the engine runs past a line end, restoring the snapshot gives
       back EXACTLY the StoryState the story had when the snapshot was taken: call stack, threads,
       output stream, choices, evaluation stack, globals, changed-variable batch, visit counts,
       turn indices, turn index, seeds, errors, warnings, flows — nothing a discarded look-ahead
       wrote survives, so every effect after the line end is produced (again, and only) by the
       continue that commits it. *)
From Ink.Engine Require Import Api Tie.
From Ink.Shell Require Import Keeps KeepsStep.

Section SnapKeeps.
Variable I : iface.
Variable sw : switches.
Lemma snap_state w g : w_snapshot (w <| w_state ::= g |>) = w_snapshot w.
Proof. destruct w; reflexivity. Qed.
Lemma snap_events w g : w_snapshot (w <| w_events ::= g |>) = w_snapshot w.
Proof. destruct w; reflexivity. Qed.
Lemma snap_unsafe w b : w_snapshot (w <| w_saw_unsafe := b |>) = w_snapshot w.
Proof. destruct w; reflexivity. Qed.
Lemma snap_fuel w g : w_snapshot (w <| w_fuel ::= g |>) = w_snapshot w.
Proof. destruct w; reflexivity. Qed.
Theorem ks_step : Keeps w_snapshot (step I sw).
Proof. apply kp_step; intros; first [apply snap_state|apply snap_events|apply snap_unsafe|apply snap_fuel]. Qed.
Lemma ks_can_continue : Keeps w_snapshot m_can_continue.
Proof. apply kp_can_continue; intros; apply snap_state. Qed.
Lemma ks_try_follow : Keeps w_snapshot (try_follow_default_invisible_choice I sw).
Proof. apply kp_try_follow; intros; first [apply snap_state|apply snap_events|apply snap_unsafe|apply snap_fuel]. Qed.
End SnapKeeps.

Section Rewind.
Variable sw : switches.

(* no patch is pending: the situation whenever a snapshot is taken (a snapshot is only taken
   when there is none, and discarding / restoring one applies and clears the patch) *)
Definition patch_free (s : sstate) : Prop := ss_patch s = None /\ vs_patch (ss_vars s) = None.

Lemma snapshot_taken w : w_snapshot (snd (state_snapshot sw w)) = Some (w_state w).
Proof. destruct w; reflexivity. Qed.

Lemma restore_gives_snapshot w s :
  w_snapshot w = Some s -> patch_free s ->
  exists w3, restore_state_snapshot w = (OOk tt, w3) /\ w_state w3 = s /\ w_snapshot w3 = None
             /\ w_events w3 = w_events w /\ w_rcc w3 = w_rcc w /\ w_async w3 = w_async w.
Proof.
  intros Hs [Hp Hv].
  destruct w as [a st c d sn o1 o2 o3 o4 o5 o6 o7 o8 o9 o10 o11]. cbn in Hs. subst sn.
  destruct s as [fl se va ev er wa pa nm di vi tu t sd pr]. cbn in Hp, Hv. subst pa.
  destruct va as [g df b ch vp]. cbn in Hv. subst vp.
  eexists. split; [lazy; reflexivity|]. repeat split; reflexivity.
Qed.

(* THE REWIND THEOREM: take a snapshot, run ANY computation that keeps the snapshot field
   (every interpreter step does: ks_step; so does any sequence of them), restore — the
   StoryState is the one the snapshot was taken from, whatever the computation did. *)
Theorem rewind_exact {A} (m : M A) :
  Keeps w_snapshot m ->
  forall w, patch_free (w_state w) ->
  exists w3, restore_state_snapshot (snd (m (snd (state_snapshot sw w)))) = (OOk tt, w3)
             /\ w_state w3 = w_state w /\ w_snapshot w3 = None.
Proof.
  intros Hk w Hpf.
  pose proof (Hk (snd (state_snapshot sw w))) as H. rewrite snapshot_taken in H.
  destruct (restore_gives_snapshot _ _ H Hpf) as [w3 [E [Hs [Hn _]]]].
  exists w3. auto.
Qed.
End Rewind.

(* any number of interpreter steps (errors end the run; the world is still the argument of restore) *)
Section Steps.
Variable I : iface.
Variable sw : switches.
Fixpoint steps (n : nat) : M unit :=
  match n with
  | O => ret tt
  | S k => let* _ := step I sw in
           let* can := m_can_continue in
           let* _ := when (negb can) (try_follow_default_invisible_choice I sw) in
           steps k
  end.
Lemma ks_steps n : Keeps w_snapshot (steps n).
Proof.
  induction n as [|k IH]; cbn [steps]; [apply keeps_ret|].
  apply keeps_bind; [apply ks_step|]. intros _.
  apply keeps_bind; [apply ks_can_continue|]. intros can.
  apply keeps_bind; [apply keeps_when, ks_try_follow|]. intros _. exact IH.
Qed.

Corollary lookahead_rewind_exact : forall n w, patch_free (w_state w) ->
  exists w3, restore_state_snapshot (snd (steps n (snd (state_snapshot sw w)))) = (OOk tt, w3)
             /\ w_state w3 = w_state w /\ w_snapshot w3 = None.
Proof. intros n w H. apply (rewind_exact sw (steps n) (ks_steps n) w H). Qed.
End Steps.
