(* Shell/FlowFootprint.v — what host operations on the CURRENT flow can see and touch:
   every such operation (continue in all its forms, choose, jump, evaluate a function, set a
   variable) commutes with an arbitrary replacement of the parked flows.  Consequences:
     (1) the parked flows are literally unchanged by any sequence of such operations;
     (2) nothing the current flow shows, returns or logs depends on the parked flows. *)
From Ink.Engine Require Import Api Tie.
From Ink.Shell Require Import FlowFrame.

(* host operations that address the current flow (flow switching / removal, save / load and
   reset are the operations that move whole flow records; they are treated in FlowProofs) *)
Inductive cur_op :=
| OpCont | OpContMax | OpContAsync (limited : bool)
| OpChoose (i : nat)
| OpPath (p : text) (reset_cs : bool) (args : list value)
| OpEval (name : text) (args : option (list value))
| OpSetVar (name : text) (x : value).

Section Footprint.
Variable I : iface.
Variable sw : switches.
Hypothesis Hsw : sw_alias_current sw = false.

(* the value an operation returns to the host, rendered uniformly *)
Inductive op_result := RUnit | RText (t : text) | REval (r : option value) (t : text).

Definition run_cur_op (op : cur_op) : M op_result :=
  match op with
  | OpCont => let* t := api_cont I sw in ret (RText t)
  | OpContMax => let* t := continue_maximally I sw in ret (RText t)
  | OpContAsync l => let* _ := continue_async I sw l in ret RUnit
  | OpChoose i => let* _ := choose_choice_index I sw i in ret RUnit
  | OpPath p r a => let* _ := choose_path_string I sw p r a in ret RUnit
  | OpEval n a => let* r := evaluate_function I sw n a in ret (REval (fst r) (snd r))
  | OpSetVar n x => let* _ := set_variable I sw n x in ret RUnit
  end.

Theorem cur_op_commutes v op : CommF v (run_cur_op op).
Proof.
  destruct op; cbn [run_cur_op]; (apply commF_bind; [|intros ?; apply commF_ret]).
  - apply fc_api_cont; exact Hsw.
  - apply fc_continue_maximally; exact Hsw.
  - apply fc_continue_async; exact Hsw.
  - apply fc_choose_choice_index; exact Hsw.
  - apply fc_choose_path_string; exact Hsw.
  - apply fc_evaluate_function; exact Hsw.
  - apply fc_set_variable; exact Hsw.
Qed.

(* a host session on the current flow: the results it returns, an error/panic ends it *)
Fixpoint run_ops (ops : list cur_op) (w : world) : list (out op_result) * world :=
  match ops with
  | [] => ([], w)
  | op :: r =>
      match run_cur_op op w with
      | (OPanic s, w') => ([OPanic s], w')             (* the process is gone *)
      | (o, w') => let (os, w'') := run_ops r w' in (o :: os, w'')
      end
  end.

Theorem run_ops_commutes v ops : forall w,
  run_ops ops (uw v w) = (let (os, w') := run_ops ops w in (os, uw v w')).
Proof.
  induction ops as [|op r IH]; intros w; cbn [run_ops]; [reflexivity|].
  rewrite (cur_op_commutes v op w).
  destruct (run_cur_op op w) as [[x|k e|s] w1]; try reflexivity.
  - rewrite IH. destruct (run_ops r w1); reflexivity.
  - rewrite IH. destruct (run_ops r w1); reflexivity.
Qed.

(* "the parked flows of w are v" (in the live state and in a pending look-ahead snapshot) *)
Definition parked_are (v : option (list (text * flow))) (w : world) : Prop :=
  ss_named (w_state w) = v /\
  match w_snapshot w with Some s => ss_named s = v | None => True end.

Lemma parked_fixed v w : parked_are v w -> uw v w = w.
Proof.
  intros [H1 H2]. destruct w as [a st c d sn o1 o2 o3 o4 o5 o6 o7 o8 o9 o10 o11]. cbn in H1, H2.
  assert (E1 : us v st = st) by (destruct st; cbn in H1; subst; reflexivity).
  assert (E2 : option_map (us v) sn = sn).
  { destruct sn as [s|]; [|reflexivity]. destruct s; cbn in H2; subst; reflexivity. }
  change (mkWorld a (us v st) c d (option_map (us v) sn) o1 o2 o3 o4 o5 o6 o7 o8 o9 o10 o11
          = mkWorld a st c d sn o1 o2 o3 o4 o5 o6 o7 o8 o9 o10 o11).
  now rewrite E1, E2.
Qed.
Lemma fixed_parked v w : uw v w = w -> parked_are v w.
Proof.
  intros H. destruct w as [a st c d sn o1 o2 o3 o4 o5 o6 o7 o8 o9 o10 o11].
  change (mkWorld a (us v st) c d (option_map (us v) sn) o1 o2 o3 o4 o5 o6 o7 o8 o9 o10 o11
          = mkWorld a st c d sn o1 o2 o3 o4 o5 o6 o7 o8 o9 o10 o11) in H.
  injection H as E1 E2. split; cbn.
  - rewrite <- E1. destruct st; reflexivity.
  - destruct sn as [s|]; [|exact Logic.I]. cbn in E2. injection E2 as E2. rewrite <- E2. destruct s; reflexivity.
Qed.

(* (1) FRAME: whatever the host does in the current flow, every parked flow is untouched *)
Theorem parked_flows_untouched : forall v ops w,
  parked_are v w -> parked_are v (snd (run_ops ops w)).
Proof.
  intros v ops w H. apply fixed_parked.
  pose proof (run_ops_commutes v ops w) as E. rewrite (parked_fixed v w H) in E.
  destruct (run_ops ops w) as [os w']. cbn [snd]. now injection E as <-.
Qed.

(* (2) INDEPENDENCE: what the current flow returns and logs does not depend on the parked flows *)
Theorem parked_flows_irrelevant : forall v ops w,
  fst (run_ops ops (uw v w)) = fst (run_ops ops w) /\
  w_events (snd (run_ops ops (uw v w))) = w_events (snd (run_ops ops w)) /\
  ss_flow (w_state (snd (run_ops ops (uw v w)))) = ss_flow (w_state (snd (run_ops ops w))) /\
  ss_vars (w_state (snd (run_ops ops (uw v w)))) = ss_vars (w_state (snd (run_ops ops w))) /\
  ss_visits (w_state (snd (run_ops ops (uw v w)))) = ss_visits (w_state (snd (run_ops ops w))) /\
  ss_turns (w_state (snd (run_ops ops (uw v w)))) = ss_turns (w_state (snd (run_ops ops w))).
Proof.
  intros v ops w. rewrite (run_ops_commutes v ops w).
  destruct (run_ops ops w) as [os w']. cbn [fst snd].
  destruct w' as [a st c d sn o1 o2 o3 o4 o5 o6 o7 o8 o9 o10 o11]. destruct st.
  repeat split; reflexivity.
Qed.
End Footprint.
