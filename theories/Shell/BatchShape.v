(* Shell/BatchShape.v — whether the variable-observation batch is open (VariablesState.batch_observing_variable_changes
   and the presence of its changed-names set) is changed by NO interpreter function: only continue_internal opens
   the batch (at the start of an outermost continue) and closes it (when the line is finished).  Same proof as
   Shell/PatchShape.v, on the observation `bshape`. *)
From Ink.Engine Require Import Api Tie.
From Ink.Shell Require Import Keeps.

Definition bshape (s : sstate) : bool * bool :=
  (vs_batch (ss_vars s), match vs_changed (ss_vars s) with Some _ => true | None => false end).
Definition wbshape (w : world) : bool * bool := bshape (w_state w).

(* state-level facts: f preserves the bshape *)
Definition BSK (f : sstate -> sstate) : Prop := forall s, bshape (f s) = bshape s.
Definition BSKR (f : sstate -> Res sstate) : Prop := forall s s', f s = Ok s' -> bshape s' = bshape s.

Lemma bsh_flow s g : bshape (s <| ss_flow ::= g |>) = bshape s. Proof. destruct s; reflexivity. Qed.
Lemma bsh_safe_exit s g : bshape (s <| ss_safe_exit ::= g |>) = bshape s. Proof. destruct s; reflexivity. Qed.
Lemma bsh_eval s g : bshape (s <| ss_eval ::= g |>) = bshape s. Proof. destruct s; reflexivity. Qed.
Lemma bsh_errors s g : bshape (s <| ss_errors ::= g |>) = bshape s. Proof. destruct s; reflexivity. Qed.
Lemma bsh_warnings s g : bshape (s <| ss_warnings ::= g |>) = bshape s. Proof. destruct s; reflexivity. Qed.
Lemma bsh_named s g : bshape (s <| ss_named ::= g |>) = bshape s. Proof. destruct s; reflexivity. Qed.
Lemma bsh_diverted s g : bshape (s <| ss_diverted ::= g |>) = bshape s. Proof. destruct s; reflexivity. Qed.
Lemma bsh_visits s g : bshape (s <| ss_visits ::= g |>) = bshape s. Proof. destruct s; reflexivity. Qed.
Lemma bsh_turns s g : bshape (s <| ss_turns ::= g |>) = bshape s. Proof. destruct s; reflexivity. Qed.
Lemma bsh_turn s g : bshape (s <| ss_turn ::= g |>) = bshape s. Proof. destruct s; reflexivity. Qed.
Lemma bsh_seed s g : bshape (s <| ss_seed ::= g |>) = bshape s. Proof. destruct s; reflexivity. Qed.
Lemma bsh_prev_random s g : bshape (s <| ss_prev_random ::= g |>) = bshape s. Proof. destruct s; reflexivity. Qed.
Lemma bsh_set_cs s c : bshape (ss_set_cs s c) = bshape s. Proof. destruct s; reflexivity. Qed.
Lemma bsh_set_out s c : bshape (ss_set_out s c) = bshape s. Proof. destruct s; reflexivity. Qed.
Lemma bsh_set_choices s c : bshape (ss_set_choices s c) = bshape s. Proof. destruct s; reflexivity. Qed.
#[export] Hint Rewrite bsh_flow bsh_safe_exit bsh_eval bsh_errors bsh_warnings bsh_named bsh_diverted bsh_visits bsh_turns
  bsh_turn bsh_seed bsh_prev_random bsh_set_cs bsh_set_out bsh_set_choices : bshdb.

(* solve BSK / BSKR goals: unfold the function before calling *)
Ltac bshs := autorewrite with bshdb; try reflexivity;
  repeat (match goal with |- context [if ?b then _ else _] => destruct b end; autorewrite with bshdb; try reflexivity).
Ltac bskr :=
  unfold BSK, BSKR; intros;
  repeat (match goal with
          | H : Ok _ = Ok _ |- _ => injection H as H; subst
          | H : Err _ _ = Ok _ |- _ => discriminate H
          | H : Panic _ = Ok _ |- _ => discriminate H
          | H : bind ?x _ = Ok _ |- _ => let E := fresh "E" in destruct x eqn:E; cbn [bind] in H
          | H : (match ?x with _ => _ end) = Ok _ |- _ => let E := fresh "E" in destruct x eqn:E
          | H : (let '(_, _) := ?x in _) = Ok _ |- _ => let E := fresh "E" in destruct x eqn:E
          end);
  bshs.

Lemma bskr_set_cur_pointer p : BSKR (fun s => ss_set_cur_pointer s p).
Proof. unfold ss_set_cur_pointer. bskr. Qed.
Lemma bskr_set_prev_pointer p : BSKR (fun s => ss_set_prev_pointer s p).
Proof. unfold ss_set_prev_pointer. bskr. Qed.
Lemma bskr_set_in_expr b : BSKR (fun s => ss_set_in_expr s b).
Proof. unfold ss_set_in_expr. bskr. Qed.
Lemma bskr_push_individual o : BSKR (push_individual o).
Proof. unfold push_individual. bskr. Qed.
Lemma bskr_foldM {A} (f : sstate -> A -> Res sstate) l :
  (forall a, BSKR (fun s => f s a)) -> BSKR (foldM f l).
Proof.
  intros H. induction l as [|x l IH]; intros s s' E; cbn [foldM] in E; [now injection E as <-|].
  destruct (f s x) as [s1| |] eqn:E1; cbn [bind] in E; try discriminate.
  rewrite (IH _ _ E). exact (H x s s1 E1).
Qed.
Lemma bskr_push_to_output o : BSKR (push_to_output o).
Proof.
  unfold push_to_output. destruct o as [?|vl|?|? ?|?|?|?|?|? ? ?|?| | |?]; try apply bskr_push_individual.
  destruct vl; try apply bskr_push_individual.
  destruct (try_split_head_tail _); [|apply bskr_push_individual].
  apply bskr_foldM. intros a. apply bskr_push_individual.
Qed.
Lemma bskr_trim : BSKR trim_whitespace_from_function_end.
Proof. unfold trim_whitespace_from_function_end. bskr. Qed.
Lemma bskr_force_end : BSKR force_end.
Proof.
  unfold force_end. intros s s' E.
  destruct (ss_set_cur_pointer _ _) as [s2| |] eqn:E2; cbn [bind] in E; try discriminate.
  destruct (ss_set_prev_pointer _ _) as [s3| |] eqn:E3; cbn [bind] in E; try discriminate.
  injection E as <-. rewrite bsh_safe_exit.
  rewrite (bskr_set_prev_pointer _ _ _ E3), (bskr_set_cur_pointer _ _ _ E2). bshs.
Qed.
Lemma bsk_pop_from_output n : BSK (pop_from_output n).
Proof. unfold pop_from_output. intros s. destruct (Nat.leb _ _); bshs. Qed.
Lemma bsk_reset_output l : BSK (reset_output l).
Proof. unfold reset_output. intros s. bshs. Qed.

Section VarsShape.
Variable I : iface.

Lemma bsh_set_global s name val b s' : set_global I s name val = Ok (b, s') -> bshape s' = bshape s.
Proof.
  unfold set_global. intros E.
  destruct (match match match vs_patch (ss_vars s) with Some p => assoc name (pa_globals p) | None => None end with
                  | Some x => Some x | None => assoc name (vs_globals (ss_vars s)) end with
            | Some o => if_retain I o val | None => Ok val end) as [val'| |]; cbn [bind] in E; try discriminate.
  destruct s as [fl se va ev er wa pa nm di vi tu t sd pr]. destruct va as [g df bt ch vp]. cbn in *.
  destruct vp as [p|]; destruct bt; cbn in E;
    repeat (match type of E with context [match ?x with _ => _ end] => destruct x end);
    injection E as _ <-; reflexivity.
Qed.

Lemma bskr_assign defs name is_new is_global val : BSKR (fun s => assign I defs s name is_new is_global val).
Proof.
  unfold assign. intros s s' E.
  destruct is_new.
  - destruct (match val with VVarPtr n c => resolve_variable_pointer I defs s n c | _ => Ok val end) as [val'| |];
      cbn [bind] in E; try discriminate.
    destruct is_global.
    + destruct (set_global I s name val') as [[b s1]| |] eqn:Eg; cbn [bind] in E; try discriminate.
      injection E as <-. exact (bsh_set_global _ _ _ _ _ Eg).
    + destruct (cs_set_temp _ _ _ _ _ _) as [cs| |]; cbn [bind] in E; try discriminate.
      injection E as <-. apply bsh_set_cs.
  - destruct (assign_chase _ _ _ _ _ _ _) as [[[n c] g]| |]; cbn [bind] in E; try discriminate.
    destruct g.
    + destruct (set_global I s n val) as [[b s1]| |] eqn:Eg; cbn [bind] in E; try discriminate.
      injection E as <-. exact (bsh_set_global _ _ _ _ _ Eg).
    + destruct (cs_set_temp _ _ _ _ _ _) as [cs| |]; cbn [bind] in E; try discriminate.
      injection E as <-. apply bsh_set_cs.
Qed.
End VarsShape.

Lemma bskr_increment_visit_count root cp : BSKR (fun s => increment_visit_count root s cp).
Proof.
  unfold increment_visit_count. intros s s' E. destruct s as [fl se va ev er wa pa nm di vi tu t sd pr]. cbn in *.
  destruct pa as [p|]; cbn in E;
    repeat (match type of E with
            | bind ?x _ = _ => destruct x; cbn [bind] in E; try discriminate
            end);
    injection E as <-; reflexivity.
Qed.
Lemma bskr_record_turn_index_visit root cp : BSKR (fun s => record_turn_index_visit root s cp).
Proof.
  unfold record_turn_index_visit. intros s s' E. destruct s as [fl se va ev er wa pa nm di vi tu t sd pr]. cbn in *.
  destruct (path_text_of root cp); cbn [bind] in E; try discriminate.
  destruct pa; injection E as <-; reflexivity.
Qed.

(* ---------- lifting through the monad ---------- *)
Notation KB := (Keeps wbshape).

Lemma kb_mod_state g : BSK g -> KB (mod_state g).
Proof. intros H. apply keeps_modify. intros w. destruct w; unfold wbshape; cbn. apply H. Qed.
Lemma kb_m_read {A} (g : sstate -> Res A) : KB (m_read g).
Proof. unfold m_read. apply keeps_bind; [apply keeps_gets|]. intros s. apply keeps_lift. Qed.
Lemma kb_m_state_res g : BSKR g -> KB (m_state_res g).
Proof.
  intros H w. unfold m_state_res, mbind, get_state, gets, lift, mod_state, modify.
  destruct (g (w_state w)) as [s'| |] eqn:E; cbn; try reflexivity.
  unfold wbshape. destruct w; cbn in *. exact (H _ _ E).
Qed.
Lemma kb_m_cs_res g : KB (m_cs_res g).
Proof.
  unfold m_cs_res. apply kb_m_state_res. intros s s' E.
  destruct (g (ss_cs s)); cbn [bind] in E; try discriminate. injection E as <-. apply bsh_set_cs.
Qed.
Lemma kb_modify_world (g : world -> world) : (forall w, w_state (g w) = w_state w) -> KB (modify g).
Proof. intros H. apply keeps_modify. intros w. unfold wbshape. now rewrite H. Qed.

#[export] Hint Resolve kb_m_read kb_m_cs_res bskr_set_cur_pointer bskr_set_prev_pointer bskr_set_in_expr
  bskr_push_individual bskr_push_to_output bskr_trim bskr_force_end bsk_pop_from_output bsk_reset_output
  bskr_increment_visit_count bskr_record_turn_index_visit bskr_assign : keeps.

Ltac kb_step :=
  match goal with
  | |- Keeps wbshape (mod_state _) => apply kb_mod_state; first [solve [auto with keeps] | intros ?; solve [bshs]]
  | |- Keeps wbshape (m_read _) => apply kb_m_read
  | |- Keeps wbshape (m_state_res _) => apply kb_m_state_res; first [solve [auto with keeps] | solve [bskr]]
  | |- Keeps wbshape (m_cs_res _) => apply kb_m_cs_res
  | |- Keeps wbshape get_state => apply keeps_gets
  | |- Keeps wbshape (modify _) => apply kb_modify_world; intros []; reflexivity
  | _ => keeps_step
  end.
Ltac kbt := repeat kb_step.

Section StepShape.
Variable I : iface.
Variable sw : switches.

Lemma kb_m_root : KB m_root. Proof. unfold m_root. kbt. Qed.
Lemma kb_m_defs : KB m_defs. Proof. unfold m_defs. kbt. Qed.
Hint Resolve kb_m_root kb_m_defs : keeps.
Lemma kb_log_event e : KB (log_event e). Proof. unfold log_event. kbt. Qed.
Hint Resolve kb_log_event : keeps.
Lemma kb_push_eval o : KB (push_eval I o). Proof. unfold push_eval. kbt. Qed.
Lemma kb_pop_eval : KB pop_eval. Proof. unfold pop_eval. kbt. Qed.
Lemma kb_peek_eval : KB peek_eval. Proof. unfold peek_eval. kbt. Qed.
Lemma kb_pop_eval_multiple n : KB (pop_eval_multiple n). Proof. unfold pop_eval_multiple. kbt. Qed.
Hint Resolve kb_push_eval kb_pop_eval kb_peek_eval kb_pop_eval_multiple : keeps.
Lemma kb_m_push_output o : KB (m_push_output o). Proof. unfold m_push_output. kbt. Qed.
Hint Resolve kb_m_push_output : keeps.
Lemma kb_add_error_msg m b : KB (add_error_msg m b). Proof. unfold add_error_msg. kbt. Qed.
Hint Resolve kb_add_error_msg : keeps.
Lemma kb_add_error m b : KB (add_error m b). Proof. unfold add_error. kbt. Qed.
Hint Resolve kb_add_error : keeps.
Lemma kb_visit_container cp b : KB (visit_container cp b). Proof. unfold visit_container. kbt. Qed.
Hint Resolve kb_visit_container : keeps.
Lemma kb_visit_changed_loop fuel : forall prevs child b, KB (visit_changed_loop fuel prevs child b).
Proof. induction fuel as [|f IH]; intros; cbn [visit_changed_loop]; kbt. Qed.
Hint Resolve kb_visit_changed_loop : keeps.
Lemma kb_visit_changed : KB visit_changed_containers_due_to_divert.
Proof. unfold visit_changed_containers_due_to_divert. kbt. Qed.
Hint Resolve kb_visit_changed : keeps.
Lemma kb_increment_content_pointer : KB increment_content_pointer.
Proof. unfold increment_content_pointer. kbt. Qed.
Hint Resolve kb_increment_content_pointer : keeps.
Lemma kb_pop_callstack t : KB (pop_callstack t). Proof. unfold pop_callstack. kbt. Qed.
Hint Resolve kb_pop_callstack : keeps.
Lemma kb_try_exit : KB try_exit_function_evaluation_from_game.
Proof. unfold try_exit_function_evaluation_from_game. kbt. Qed.
Hint Resolve kb_try_exit : keeps.
Lemma kb_next_content_fuel fuel : KB (next_content_fuel I fuel).
Proof. induction fuel as [|f IH]; cbn [next_content_fuel]; kbt. Qed.
Hint Resolve kb_next_content_fuel : keeps.
Lemma kb_next_content : KB (next_content I). Proof. unfold next_content. kbt. Qed.
Hint Resolve kb_next_content : keeps.
Lemma kb_choose_path pa b : KB (choose_path I sw pa b). Proof. unfold choose_path. kbt. Qed.
Hint Resolve kb_choose_path : keeps.
Lemma kb_pop_args n : forall acc, KB (pop_args n acc).
Proof. induction n as [|n IH]; intros; cbn [pop_args]; kbt. Qed.
Hint Resolve kb_pop_args : keeps.
Lemma kb_call_external name n : KB (call_external_function I sw name n).
Proof. unfold call_external_function. kbt. Qed.
Hint Resolve kb_call_external : keeps.
Lemma kb_shuffle : KB (next_sequence_shuffle_index I). Proof. unfold next_sequence_shuffle_index. kbt. Qed.
Hint Resolve kb_shuffle : keeps.
Lemma kb_pop_tags fuel : forall tags, KB (pop_tags fuel tags).
Proof. induction fuel as [|f IH]; intros; cbn [pop_tags]; kbt. Qed.
Hint Resolve kb_pop_tags : keeps.
Lemma kb_pop_choice_string tags : KB (pop_choice_string_and_tags tags).
Proof. unfold pop_choice_string_and_tags. kbt. Qed.
Hint Resolve kb_pop_choice_string : keeps.
Lemma kb_process_choice cp f pa : KB (process_choice I cp f pa). Proof. unfold process_choice. kbt. Qed.
Hint Resolve kb_process_choice : keeps.
Lemma kb_try_follow : KB (try_follow_default_invisible_choice I sw).
Proof. unfold try_follow_default_invisible_choice. kbt. Qed.
Hint Resolve kb_try_follow : keeps.
Lemma kb_set_in_expr b : KB (set_in_expr b). Proof. unfold set_in_expr. kbt. Qed.
Hint Resolve kb_set_in_expr : keeps.
Lemma kb_do_command c o : KB (do_command I c o). Proof. unfold do_command. destruct c; kbt. Qed.
Hint Resolve kb_do_command : keeps.
Lemma kb_perform_logic op : KB (perform_logic_and_flow_control I sw op).
Proof. unfold perform_logic_and_flow_control. kbt. Qed.
Hint Resolve kb_perform_logic : keeps.
Lemma kb_enter_containers fuel : forall pt, KB (enter_containers fuel pt).
Proof. induction fuel as [|f IH]; intros; cbn [enter_containers]; kbt. Qed.
Hint Resolve kb_enter_containers : keeps.
Lemma kb_take_fuel : KB take_fuel. Proof. unfold take_fuel. kbt. Qed.
Hint Resolve kb_take_fuel : keeps.
Theorem kb_step_thm : KB (step I sw). Proof. unfold step. kbt. Qed.
Lemma kb_can_continue : KB m_can_continue. Proof. unfold m_can_continue. kbt. Qed.
End StepShape.
