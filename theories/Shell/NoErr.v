(* Shell/NoErr.v — "m never returns a StoryError": its outcomes are normal results or panics.
   Needed to show that the continue-nesting counter is balanced: between its increment and its
   decrement no `?` can leave continue_internal. *)
From Ink.Engine Require Import Api Tie.

Definition NER {A} (r : Res A) : Prop := forall k e, r <> Err k e.
Definition NoErr {A} (m : M A) : Prop := forall w k e w', m w <> (OErr k e, w').

Lemma ne_ret {A} (x : A) : NoErr (ret x).
Proof. intros w k e w' H. discriminate. Qed.
Lemma ne_panic {A} s : NoErr (@panic A s).
Proof. intros w k e w' H. discriminate. Qed.
Lemma ne_lift {A} (r : Res A) : NER r -> NoErr (lift r).
Proof. intros H w k e w' E. destruct r; cbn in E; try discriminate. injection E as -> -> _. exact (H k e eq_refl). Qed.
Lemma ne_get : NoErr get.
Proof. intros w k e w' H. discriminate. Qed.
Lemma ne_gets {A} (g : world -> A) : NoErr (gets g).
Proof. intros w k e w' H. discriminate. Qed.
Lemma ne_modify g : NoErr (modify g).
Proof. intros w k e w' H. discriminate. Qed.
Lemma ne_bind {A B} (m : M A) (f : A -> M B) : NoErr m -> (forall x, NoErr (f x)) -> NoErr (mbind m f).
Proof.
  intros Hm Hf w k e w' E. unfold mbind in E.
  destruct (m w) as [[x|k0 e0|s] w1] eqn:Em; try discriminate.
  - exact (Hf x w1 k e w' E).
  - exact (Hm w k0 e0 w1 Em).
Qed.
Lemma ne_when b (m : M unit) : NoErr m -> NoErr (when b m).
Proof. intros H. destruct b; [exact H|apply ne_ret]. Qed.
Lemma ne_mfor {A} (xs : list A) (f : A -> M unit) : (forall x, NoErr (f x)) -> NoErr (mfor xs f).
Proof.
  intros H. induction xs as [|x xs IH]; cbn [mfor]; [apply ne_ret|].
  apply ne_bind; [apply H|]. intros _. exact IH.
Qed.
Lemma ne_mod_state g : NoErr (mod_state g).
Proof. apply ne_modify. Qed.
Lemma ne_get_state : NoErr get_state.
Proof. apply ne_gets. Qed.
Lemma ne_m_read {A} (g : sstate -> Res A) : (forall s, NER (g s)) -> NoErr (m_read g).
Proof. intros H. unfold m_read. apply ne_bind; [apply ne_get_state|]. intros s. apply ne_lift, H. Qed.
Lemma ne_m_state_res (g : sstate -> Res sstate) : (forall s, NER (g s)) -> NoErr (m_state_res g).
Proof.
  intros H. unfold m_state_res. apply ne_bind; [apply ne_get_state|]. intros s.
  apply ne_bind; [apply ne_lift, H|]. intros s'. apply ne_mod_state.
Qed.

(* ---------- Res-level facts ---------- *)
Lemma ner_ok {A} (x : A) : NER (Ok x).
Proof. intros k e H. discriminate. Qed.
Lemma ner_panic {A} s : NER (@Panic A s).
Proof. intros k e H. discriminate. Qed.
Lemma ner_bind {A B} (r : Res A) (f : A -> Res B) : NER r -> (forall x, NER (f x)) -> NER (bind r f).
Proof.
  intros Hr Hf k e E. destruct r as [x|k0 e0|s]; cbn in E; try discriminate.
  - exact (Hf x k e E).
  - exact (Hr k0 e0 eq_refl).
Qed.
Lemma ner_unwrap {A} s (o : option A) : NER (unwrap_or_panic s o).
Proof. destruct o; [apply ner_ok|apply ner_panic]. Qed.

#[export] Hint Resolve ne_ret ne_panic ne_get ne_gets ne_modify ne_mod_state ne_get_state
  ner_ok ner_panic ner_unwrap : noerr.

Ltac ner_step :=
  match goal with
  | |- NER (bind _ _) => apply ner_bind; [|intros ?]
  | |- NER (match ?x with _ => _ end) => destruct x
  | |- NER (if ?b then _ else _) => destruct b
  | |- NER (let '(_, _) := ?x in _) => destruct x
  | |- NER _ => solve [auto with noerr]
  end.
Ltac ner := repeat ner_step.

Ltac ne_step :=
  match goal with
  | |- NoErr (mbind _ _) => apply ne_bind; [|intros ?]
  | |- NoErr (when _ _) => apply ne_when
  | |- NoErr (mfor _ _) => apply ne_mfor; intros ?
  | |- NoErr (lift _) => apply ne_lift
  | |- NoErr (m_read _) => apply ne_m_read; intros ?
  | |- NoErr (m_state_res _) => apply ne_m_state_res; intros ?
  | |- NoErr (match ?x with _ => _ end) => destruct x
  | |- NoErr (if ?b then _ else _) => destruct b
  | |- NoErr (let '(_, _) := ?x in _) => destruct x
  | |- NoErr _ => solve [auto with noerr]
  | |- NER _ => ner
  end.
Ltac ne := repeat ne_step.

Lemma ner_cs_cur_thread cs : NER (cs_cur_thread cs).
Proof. unfold cs_cur_thread. ner. Qed.
#[export] Hint Resolve ner_cs_cur_thread : noerr.
Lemma ner_cs_cur_element cs : NER (cs_cur_element cs).
Proof. unfold cs_cur_element. ner. Qed.
#[export] Hint Resolve ner_cs_cur_element : noerr.
Lemma ner_cs_upd_cur_element cs f : NER (cs_upd_cur_element cs f).
Proof. unfold cs_upd_cur_element. ner. Qed.
#[export] Hint Resolve ner_cs_upd_cur_element : noerr.
Lemma ner_elem_eval cs : NER (cs_elem_is_eval_from_game cs).
Proof. unfold cs_elem_is_eval_from_game. ner. Qed.
#[export] Hint Resolve ner_elem_eval : noerr.
Lemma ner_can_pop_thread cs : NER (cs_can_pop_thread cs).
Proof. unfold cs_can_pop_thread. ner. Qed.
Lemma ner_can_pop cs : NER (cs_can_pop cs).
Proof. unfold cs_can_pop. ner. Qed.
#[export] Hint Resolve ner_can_pop_thread ner_can_pop : noerr.
Lemma ner_can_pop_type cs t : NER (cs_can_pop_type cs t).
Proof. unfold cs_can_pop_type. ner. Qed.
#[export] Hint Resolve ner_can_pop_type : noerr.
Lemma ner_ss_cur_pointer s : NER (ss_cur_pointer s).
Proof. unfold ss_cur_pointer. ner. Qed.
Lemma ner_ss_set_cur_pointer s p : NER (ss_set_cur_pointer s p).
Proof. unfold ss_set_cur_pointer. ner. Qed.
Lemma ner_ss_set_prev_pointer s p : NER (ss_set_prev_pointer s p).
Proof. unfold ss_set_prev_pointer. ner. Qed.
Lemma ner_ss_can_continue s : NER (ss_can_continue s).
Proof. unfold ss_can_continue. ner. apply ner_ss_cur_pointer. Qed.
#[export] Hint Resolve ner_ss_cur_pointer ner_ss_set_cur_pointer ner_ss_set_prev_pointer ner_ss_can_continue : noerr.
Lemma ner_force_end s : NER (force_end s).
Proof. unfold force_end. ner. Qed.
#[export] Hint Resolve ner_force_end : noerr.
Lemma ner_vs_apply_patch v : NER (vs_apply_patch v).
Proof. unfold vs_apply_patch. ner. Qed.
#[export] Hint Resolve ner_vs_apply_patch : noerr.
Lemma ner_apply_any_patch s : NER (apply_any_patch s).
Proof. unfold apply_any_patch. ner. Qed.
#[export] Hint Resolve ner_apply_any_patch : noerr.
