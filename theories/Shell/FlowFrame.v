(* Shell/FlowFrame.v — the interpreter neither reads nor writes the parked flows:
   every engine computation COMMUTES with an arbitrary replacement of
   StoryState.named_flows (in the live state and in the look-ahead snapshot). *)
From Ink.Engine Require Import Api Tie.

Definition res_map {A B} (f : A -> B) (r : Res A) : Res B :=
  match r with Ok a => Ok (f a) | Err k e => Err k e | Panic s => Panic s end.

Section FlowFrame.
Variable v : option (list (text * flow)).
Definition us (s : sstate) : sstate := s <| ss_named := v |>.
Definition uw (w : world) : world := w <| w_state ::= us |> <| w_snapshot ::= option_map us |>.

Definition CommF {A} (m : M A) : Prop :=
  forall w, m (uw w) = (let (o, w') := m w in (o, uw w')).
(* state-level facts *)
Definition Ins {A} (f : sstate -> A) : Prop := forall s, f (us s) = f s.
Definition ComS (f : sstate -> sstate) : Prop := forall s, f (us s) = us (f s).
Definition ComR (f : sstate -> Res sstate) : Prop := forall s, f (us s) = res_map us (f s).

Lemma commF_ret {A} (x : A) : CommF (ret x).
Proof. intros w. reflexivity. Qed.
Lemma commF_fail {A} k msg : CommF (@fail A k msg).
Proof. intros w. reflexivity. Qed.
Lemma commF_panic {A} s : CommF (@panic A s).
Proof. intros w. reflexivity. Qed.
Lemma commF_lift {A} (x : Res A) : CommF (lift x).
Proof. intros w. destruct x; reflexivity. Qed.

Lemma commF_bind {A B} (m : M A) (f : A -> M B) :
  CommF m -> (forall x, CommF (f x)) -> CommF (mbind m f).
Proof.
  intros Hm Hf w. unfold mbind. rewrite Hm. destruct (m w) as [[x|k e|s] w']; try reflexivity.
  apply Hf.
Qed.

Lemma commF_get {A} (k : world -> M A) :
  (forall w0, CommF (k w0)) -> (forall w0 w, k (uw w0) w = k w0 w) -> CommF (mbind get k).
Proof. intros Hk Hins w. unfold mbind, get. rewrite Hins. apply Hk. Qed.

Lemma commF_gets {A} (f : world -> A) : (forall w, f (uw w) = f w) -> CommF (gets f).
Proof. intros H w. unfold gets. now rewrite H. Qed.

Lemma commF_modify (g : world -> world) : (forall w, g (uw w) = uw (g w)) -> CommF (modify g).
Proof. intros H w. unfold modify. now rewrite H. Qed.

Lemma commF_mod_state (f : sstate -> sstate) : ComS f -> CommF (mod_state f).
Proof.
  intros H. apply commF_modify. intros w.
  destruct w as [a st c d sn o1 o2 o3 o4 o5 o6 o7 o8 o9 o10 o11].
  change (mkWorld a (f (us st)) c d (option_map us sn) o1 o2 o3 o4 o5 o6 o7 o8 o9 o10 o11
          = mkWorld a (us (f st)) c d (option_map us sn) o1 o2 o3 o4 o5 o6 o7 o8 o9 o10 o11).
  now rewrite H.
Qed.

Lemma commF_get_state {A} (k : sstate -> M A) :
  (forall s0, CommF (k s0)) -> (forall s0, k (us s0) = k s0) -> CommF (mbind get_state k).
Proof.
  intros Hk Hins w. unfold mbind, get_state, gets.
  change (w_state (uw w)) with (us (w_state w)). rewrite Hins. apply Hk.
Qed.

Lemma commF_when (b : bool) (m : M unit) : CommF m -> CommF (when b m).
Proof. intros H. destruct b; [exact H|apply commF_ret]. Qed.

Lemma commF_m_read {A} (f : sstate -> Res A) : Ins f -> CommF (m_read f).
Proof.
  intros H. unfold m_read. apply commF_get_state.
  - intros s. apply commF_lift.
  - intros s. now rewrite H.
Qed.

Lemma commF_m_state_res (f : sstate -> Res sstate) : ComR f -> CommF (m_state_res f).
Proof.
  intros H w. unfold m_state_res, mbind, get_state, gets, lift, mod_state, modify.
  change (w_state (uw w)) with (us (w_state w)). rewrite H.
  destruct (f (w_state w)) as [s'|k e|s']; cbn [res_map]; reflexivity.
Qed.

Lemma commF_mfor {A} (xs : list A) (f : A -> M unit) :
  (forall x, CommF (f x)) -> CommF (mfor xs f).
Proof.
  intros H. induction xs as [|x xs IH]; cbn [mfor]; [apply commF_ret|].
  apply commF_bind; [apply H|]. intros _. exact IH.
Qed.
End FlowFrame.

(* ---------- the update and the accessors of StoryState ---------- *)
Section UsFacts.
Variable v : option (list (text * flow)).
Notation us := (us v).
Lemma us_ss_flow s : ss_flow (us s) = ss_flow s.
Proof. destruct s; reflexivity. Qed.
Lemma us_set_ss_flow s g : (us s) <| ss_flow ::= g |> = us (s <| ss_flow ::= g |>).
Proof. destruct s; reflexivity. Qed.
Lemma us_ss_safe_exit s : ss_safe_exit (us s) = ss_safe_exit s.
Proof. destruct s; reflexivity. Qed.
Lemma us_set_ss_safe_exit s g : (us s) <| ss_safe_exit ::= g |> = us (s <| ss_safe_exit ::= g |>).
Proof. destruct s; reflexivity. Qed.
Lemma us_ss_vars s : ss_vars (us s) = ss_vars s.
Proof. destruct s; reflexivity. Qed.
Lemma us_set_ss_vars s g : (us s) <| ss_vars ::= g |> = us (s <| ss_vars ::= g |>).
Proof. destruct s; reflexivity. Qed.
Lemma us_ss_eval s : ss_eval (us s) = ss_eval s.
Proof. destruct s; reflexivity. Qed.
Lemma us_set_ss_eval s g : (us s) <| ss_eval ::= g |> = us (s <| ss_eval ::= g |>).
Proof. destruct s; reflexivity. Qed.
Lemma us_ss_errors s : ss_errors (us s) = ss_errors s.
Proof. destruct s; reflexivity. Qed.
Lemma us_set_ss_errors s g : (us s) <| ss_errors ::= g |> = us (s <| ss_errors ::= g |>).
Proof. destruct s; reflexivity. Qed.
Lemma us_ss_warnings s : ss_warnings (us s) = ss_warnings s.
Proof. destruct s; reflexivity. Qed.
Lemma us_set_ss_warnings s g : (us s) <| ss_warnings ::= g |> = us (s <| ss_warnings ::= g |>).
Proof. destruct s; reflexivity. Qed.
Lemma us_ss_patch s : ss_patch (us s) = ss_patch s.
Proof. destruct s; reflexivity. Qed.
Lemma us_set_ss_patch s g : (us s) <| ss_patch ::= g |> = us (s <| ss_patch ::= g |>).
Proof. destruct s; reflexivity. Qed.
Lemma us_ss_diverted s : ss_diverted (us s) = ss_diverted s.
Proof. destruct s; reflexivity. Qed.
Lemma us_set_ss_diverted s g : (us s) <| ss_diverted ::= g |> = us (s <| ss_diverted ::= g |>).
Proof. destruct s; reflexivity. Qed.
Lemma us_ss_visits s : ss_visits (us s) = ss_visits s.
Proof. destruct s; reflexivity. Qed.
Lemma us_set_ss_visits s g : (us s) <| ss_visits ::= g |> = us (s <| ss_visits ::= g |>).
Proof. destruct s; reflexivity. Qed.
Lemma us_ss_turns s : ss_turns (us s) = ss_turns s.
Proof. destruct s; reflexivity. Qed.
Lemma us_set_ss_turns s g : (us s) <| ss_turns ::= g |> = us (s <| ss_turns ::= g |>).
Proof. destruct s; reflexivity. Qed.
Lemma us_ss_turn s : ss_turn (us s) = ss_turn s.
Proof. destruct s; reflexivity. Qed.
Lemma us_set_ss_turn s g : (us s) <| ss_turn ::= g |> = us (s <| ss_turn ::= g |>).
Proof. destruct s; reflexivity. Qed.
Lemma us_ss_seed s : ss_seed (us s) = ss_seed s.
Proof. destruct s; reflexivity. Qed.
Lemma us_set_ss_seed s g : (us s) <| ss_seed ::= g |> = us (s <| ss_seed ::= g |>).
Proof. destruct s; reflexivity. Qed.
Lemma us_ss_prev_random s : ss_prev_random (us s) = ss_prev_random s.
Proof. destruct s; reflexivity. Qed.
Lemma us_set_ss_prev_random s g : (us s) <| ss_prev_random ::= g |> = us (s <| ss_prev_random ::= g |>).
Proof. destruct s; reflexivity. Qed.
Lemma us_ss_cs s : ss_cs (us s) = ss_cs s.
Proof. destruct s; reflexivity. Qed.
Lemma us_ss_out s : ss_out (us s) = ss_out s.
Proof. destruct s; reflexivity. Qed.
Lemma us_ss_choices s : ss_choices (us s) = ss_choices s.
Proof. destruct s; reflexivity. Qed.
Lemma us_ss_set_cs s c : ss_set_cs (us s) c = us (ss_set_cs s c).
Proof. destruct s; reflexivity. Qed.
Lemma us_ss_set_out s c : ss_set_out (us s) c = us (ss_set_out s c).
Proof. destruct s; reflexivity. Qed.
Lemma us_ss_set_choices s c : ss_set_choices (us s) c = us (ss_set_choices s c).
Proof. destruct s; reflexivity. Qed.
Lemma us_ss_has_error s : ss_has_error (us s) = ss_has_error s.
Proof. destruct s; reflexivity. Qed.
Lemma us_ss_has_warning s : ss_has_warning (us s) = ss_has_warning s.
Proof. destruct s; reflexivity. Qed.
Lemma us_in_string_evaluation s : in_string_evaluation (us s) = in_string_evaluation s.
Proof. destruct s; reflexivity. Qed.
Lemma us_current_text s : current_text (us s) = current_text s.
Proof. destruct s; reflexivity. Qed.
Lemma us_current_tags s : current_tags (us s) = current_tags s.
Proof. destruct s; reflexivity. Qed.
Lemma us_output_ends_in_newline s : output_ends_in_newline (us s) = output_ends_in_newline s.
Proof. destruct s; reflexivity. Qed.
Lemma us_output_contains_content s : output_contains_content (us s) = output_contains_content s.
Proof. destruct s; reflexivity. Qed.
Lemma us_ss_cur_pointer s : ss_cur_pointer (us s) = ss_cur_pointer s.
Proof. destruct s; reflexivity. Qed.
Lemma us_ss_prev_pointer s : ss_prev_pointer (us s) = ss_prev_pointer s.
Proof. destruct s; reflexivity. Qed.
Lemma us_ss_in_expr s : ss_in_expr (us s) = ss_in_expr s.
Proof. destruct s; reflexivity. Qed.
Lemma us_ss_can_continue s : ss_can_continue (us s) = ss_can_continue s.
Proof. destruct s; reflexivity. Qed.
Lemma us_ss_set_cur_pointer s p : ss_set_cur_pointer (us s) p = res_map us (ss_set_cur_pointer s p).
Proof. unfold ss_set_cur_pointer. rewrite us_ss_cs. destruct (cs_upd_cur_element _ _); cbn [bind res_map]; rewrite ?us_ss_set_cs; reflexivity. Qed.
Lemma us_ss_set_prev_pointer s p : ss_set_prev_pointer (us s) p = res_map us (ss_set_prev_pointer s p).
Proof. unfold ss_set_prev_pointer. rewrite us_ss_cs. destruct (cs_cur_thread _); cbn [bind res_map]; rewrite ?us_ss_set_cs; reflexivity. Qed.
Lemma us_ss_set_in_expr s p : ss_set_in_expr (us s) p = res_map us (ss_set_in_expr s p).
Proof. unfold ss_set_in_expr. rewrite us_ss_cs. destruct (cs_upd_cur_element _ _); cbn [bind res_map]; rewrite ?us_ss_set_cs; reflexivity. Qed.
Lemma res_map_ok {A B} (f : A -> B) a : res_map f (Ok a) = Ok (f a).
Proof. reflexivity. Qed.
End UsFacts.
#[export] Hint Rewrite us_ss_flow us_set_ss_flow us_ss_safe_exit us_set_ss_safe_exit us_ss_vars us_set_ss_vars us_ss_eval us_set_ss_eval us_ss_errors us_set_ss_errors us_ss_warnings us_set_ss_warnings us_ss_patch us_set_ss_patch us_ss_diverted us_set_ss_diverted us_ss_visits us_set_ss_visits us_ss_turns us_set_ss_turns us_ss_turn us_set_ss_turn us_ss_seed us_set_ss_seed us_ss_prev_random us_set_ss_prev_random us_ss_cs us_ss_out us_ss_choices us_ss_set_cs us_ss_set_out us_ss_set_choices
  us_ss_has_error us_ss_has_warning us_in_string_evaluation us_current_text us_current_tags
  us_output_ends_in_newline us_output_contains_content us_ss_cur_pointer us_ss_prev_pointer us_ss_in_expr
  us_ss_can_continue us_ss_set_cur_pointer us_ss_set_prev_pointer us_ss_set_in_expr : usdb.

(* ---------- automation ---------- *)
Ltac no_us x := lazymatch x with context [us] => fail | _ => idtac end.
Ltac ssimp := cbn [bind res_map fst snd]; autorewrite with usdb.
Ltac sdeep :=
  unfold Ins, ComS, ComR; intros; ssimp;
  repeat (match goal with
          | |- ?x = ?x => reflexivity
          | |- context [match ?x with _ => _ end] => no_us x; destruct x; ssimp
          | |- context [bind ?x _] => no_us x; destruct x; ssimp
          | |- context [res_map _ ?x] => no_us x; destruct x; ssimp
          end); try reflexivity.

Ltac sfact :=
  unfold Ins, ComS, ComR; intros;
  repeat match goal with s : sstate |- _ => destruct s end;
  try reflexivity.

Ltac wfact :=
  intros;
  repeat match goal with w : world |- _ => destruct w end;
  repeat match goal with o : option sstate |- _ => destruct o end;
  repeat match goal with s : sstate |- _ => destruct s end;
  try reflexivity;
  try (match goal with l : list N |- _ => destruct l end; reflexivity).

#[export] Hint Resolve commF_ret commF_fail commF_panic commF_lift : fcomm.

Ltac fcomm_step :=
  match goal with
  | |- CommF _ (mbind get_state _) => apply commF_get_state; [intros ?|solve [sfact | sdeep]]
  | |- CommF _ (mbind get _) => apply commF_get; [intros ?|solve [wfact]]
  | |- CommF _ (mbind _ _) => apply commF_bind; [|intros ?]
  | |- CommF _ (when _ _) => apply commF_when
  | |- CommF _ (mfor _ _) => apply commF_mfor; intros ?
  | |- CommF _ (gets _) => apply commF_gets; solve [wfact]
  | |- CommF _ (modify _) => apply commF_modify; solve [wfact]
  | |- CommF _ (mod_state _) => apply commF_mod_state; solve [auto with sfacts | sfact | sdeep]
  | |- CommF _ (m_read _) => apply commF_m_read; solve [auto with sfacts | sfact | sdeep]
  | |- CommF _ (m_state_res _) => apply commF_m_state_res; solve [auto with sfacts | sfact | sdeep]
  | |- CommF _ (match ?x with _ => _ end) => destruct x
  | |- CommF _ (if ?b then _ else _) => destruct b
  | |- CommF _ (let '(_, _) := ?x in _) => destruct x
  | |- CommF _ _ => solve [auto with fcomm]
  end.
Ltac fcomm := repeat fcomm_step.

Lemma cs_copy_and_start_patching_gen v sw :
  sw_alias_current sw = false -> ComS v (copy_and_start_patching sw).
Proof.
  intros H s. unfold copy_and_start_patching. rewrite H.
  destruct s as [? ? ? ? ? ? ? nm ? ? ? ? ? ?], v, nm; reflexivity.
Qed.

Section FlowFrameStep.
Variable v : option (list (text * flow)).
Variable I : iface.
Variable sw : switches.
Hypothesis Hsw : sw_alias_current sw = false.
Notation C := (CommF v).

Lemma fc_m_root : C m_root.
Proof. unfold m_root. fcomm. Qed.
Lemma fc_m_defs : C m_defs.
Proof. unfold m_defs. fcomm. Qed.
Hint Resolve fc_m_root fc_m_defs : fcomm.
Lemma fc_log_event e : C (log_event e).
Proof. unfold log_event. fcomm. Qed.
Hint Resolve fc_log_event : fcomm.

Lemma fc_m_cs_res f : C (m_cs_res f).
Proof.
  unfold m_cs_res. apply commF_m_state_res. intros s. destruct s. cbn.
  unfold ss_cs. cbn. destruct (f _); reflexivity.
Qed.
Hint Resolve fc_m_cs_res : fcomm.

Lemma fc_push_eval o : C (push_eval I o).
Proof. unfold push_eval. fcomm. Qed.
Hint Resolve fc_push_eval : fcomm.
Lemma fc_pop_eval : C pop_eval.
Proof. unfold pop_eval. fcomm. Qed.
Hint Resolve fc_pop_eval : fcomm.
Lemma fc_peek_eval : C peek_eval.
Proof. unfold peek_eval. fcomm. Qed.
Hint Resolve fc_peek_eval : fcomm.
Lemma fc_pop_eval_multiple n : C (pop_eval_multiple n).
Proof. unfold pop_eval_multiple. fcomm. Qed.
Hint Resolve fc_pop_eval_multiple : fcomm.

Lemma cr_push_individual o : ComR v (push_individual o).
Proof. unfold push_individual. sdeep. Qed.
Lemma cr_foldM {A} (f : sstate -> A -> Res sstate) l :
  (forall a, ComR v (fun s => f s a)) -> ComR v (foldM f l).
Proof.
  intros H. induction l as [|x l IH]; intros s; cbn [foldM]; [reflexivity|].
  rewrite (H x s). destruct (f s x); cbn [bind res_map]; [apply IH|reflexivity|reflexivity].
Qed.
Lemma cr_push_to_output o : ComR v (push_to_output o).
Proof.
  unfold push_to_output. destruct o as [?|vl|?|? ?|?|?|?|?|? ? ?|?| | |?]; try apply cr_push_individual.
  destruct vl; try apply cr_push_individual.
  destruct (try_split_head_tail _); [|apply cr_push_individual].
  apply cr_foldM. intros a. apply cr_push_individual.
Qed.
Hint Resolve cr_push_individual cr_push_to_output : sfacts.

Lemma fc_m_push_output o : C (m_push_output o).
Proof. unfold m_push_output. fcomm. Qed.
Hint Resolve fc_m_push_output : fcomm.

Lemma fc_add_error_msg m b : C (add_error_msg m b).
Proof. unfold add_error_msg. fcomm. Qed.
Hint Resolve fc_add_error_msg : fcomm.
Lemma fc_add_error m b : C (add_error m b).
Proof. unfold add_error. fcomm. Qed.
Hint Resolve fc_add_error : fcomm.

Lemma ins_visit_count_for root cp : Ins v (fun s => visit_count_for root s cp).
Proof. unfold visit_count_for. sdeep. Qed.
Lemma cr_increment_visit_count root cp : ComR v (fun s => increment_visit_count root s cp).
Proof. unfold increment_visit_count, visit_count_for. sdeep. Qed.
Lemma cr_record_turn_index_visit root cp : ComR v (fun s => record_turn_index_visit root s cp).
Proof. unfold record_turn_index_visit. sdeep. Qed.
Hint Resolve ins_visit_count_for cr_increment_visit_count cr_record_turn_index_visit : sfacts.

Lemma fc_visit_container cp b : C (visit_container cp b).
Proof. unfold visit_container. fcomm. Qed.
Hint Resolve fc_visit_container : fcomm.
Lemma fc_visit_changed_loop fuel : forall prevs child b, C (visit_changed_loop fuel prevs child b).
Proof. induction fuel as [|f IH]; intros; cbn [visit_changed_loop]; fcomm. Qed.
Hint Resolve fc_visit_changed_loop : fcomm.
Lemma fc_visit_changed : C visit_changed_containers_due_to_divert.
Proof. unfold visit_changed_containers_due_to_divert. fcomm. Qed.
Hint Resolve fc_visit_changed : fcomm.
Lemma fc_increment_content_pointer : C increment_content_pointer.
Proof. unfold increment_content_pointer. fcomm. Qed.
Hint Resolve fc_increment_content_pointer : fcomm.
Lemma cr_trim_ws_fn_end : ComR v trim_whitespace_from_function_end.
Proof. unfold trim_whitespace_from_function_end. sdeep. Qed.
Lemma cr_force_end : ComR v force_end.
Proof. unfold force_end. sdeep. Qed.
Lemma cs_pop_from_output n : ComS v (pop_from_output n).
Proof. unfold pop_from_output. sdeep. Qed.
Lemma cs_reset_output l : ComS v (reset_output l).
Proof. unfold reset_output. sdeep. Qed.
Hint Resolve cr_trim_ws_fn_end cr_force_end cs_pop_from_output cs_reset_output : sfacts.

Lemma fc_pop_callstack t : C (pop_callstack t).
Proof. unfold pop_callstack. fcomm. Qed.
Hint Resolve fc_pop_callstack : fcomm.
Lemma fc_try_exit : C try_exit_function_evaluation_from_game.
Proof. unfold try_exit_function_evaluation_from_game. fcomm. Qed.
Hint Resolve fc_try_exit : fcomm.
Lemma fc_next_content_fuel fuel : C (next_content_fuel I fuel).
Proof. induction fuel as [|f IH]; cbn [next_content_fuel]; fcomm. Qed.
Hint Resolve fc_next_content_fuel : fcomm.
Lemma fc_next_content : C (next_content I).
Proof. unfold next_content. fcomm. Qed.
Hint Resolve fc_next_content : fcomm.

Lemma fc_choose_path pa b : C (choose_path I sw pa b).
Proof. unfold choose_path. fcomm. Qed.
Hint Resolve fc_choose_path : fcomm.
Lemma fc_pop_args n : forall acc, C (pop_args n acc).
Proof. induction n as [|n IH]; intros; cbn [pop_args]; fcomm. Qed.
Hint Resolve fc_pop_args : fcomm.
Lemma fc_call_external name n : C (call_external_function I sw name n).
Proof. unfold call_external_function. fcomm. Qed.
Hint Resolve fc_call_external : fcomm.
Lemma fc_shuffle : C (next_sequence_shuffle_index I).
Proof. unfold next_sequence_shuffle_index. fcomm. Qed.
Hint Resolve fc_shuffle : fcomm.
Lemma fc_pop_tags fuel : forall tags, C (pop_tags fuel tags).
Proof. induction fuel as [|f IH]; intros; cbn [pop_tags]; fcomm. Qed.
Hint Resolve fc_pop_tags : fcomm.
Lemma fc_pop_choice_string tags : C (pop_choice_string_and_tags tags).
Proof. unfold pop_choice_string_and_tags. fcomm. Qed.
Hint Resolve fc_pop_choice_string : fcomm.
Lemma fc_process_choice cp f pa : C (process_choice I cp f pa).
Proof. unfold process_choice. fcomm. Qed.
Hint Resolve fc_process_choice : fcomm.
Lemma fc_try_follow : C (try_follow_default_invisible_choice I sw).
Proof. unfold try_follow_default_invisible_choice. fcomm. Qed.
Hint Resolve fc_try_follow : fcomm.
Lemma fc_set_in_expr b : C (set_in_expr b).
Proof. unfold set_in_expr. fcomm. Qed.
Hint Resolve fc_set_in_expr : fcomm.

Lemma ins_get_raw_variable defs name ci : Ins v (fun s => get_raw_variable I defs s name ci).
Proof. unfold get_raw_variable. sdeep. Qed.
Lemma us_get_raw_variable defs s name ci : get_raw_variable I defs (us v s) name ci = get_raw_variable I defs s name ci.
Proof. apply (ins_get_raw_variable defs name ci). Qed.
Lemma us_get_variable_fuel defs fuel : forall s name ci,
  get_variable_fuel I defs fuel (us v s) name ci = get_variable_fuel I defs fuel s name ci.
Proof.
  induction fuel as [|f IH]; intros; cbn [get_variable_fuel]; [reflexivity|].
  rewrite us_get_raw_variable. destruct (get_raw_variable _ _ _ _ _) as [[[]|]| |]; cbn [bind]; try reflexivity.
  apply IH.
Qed.
Lemma us_get_variable_with_name defs s name ci :
  get_variable_with_name I defs (us v s) name ci = get_variable_with_name I defs s name ci.
Proof. apply us_get_variable_fuel. Qed.
Lemma us_set_global s name val :
  set_global I (us v s) name val = res_map (fun r => (fst r, us v (snd r))) (set_global I s name val).
Proof. unfold set_global. sdeep. Qed.
Lemma us_assign_chase defs fuel : forall s name ci g,
  assign_chase I defs fuel (us v s) name ci g = assign_chase I defs fuel s name ci g.
Proof.
  induction fuel as [|f IH]; intros; cbn [assign_chase]; [reflexivity|].
  rewrite us_get_raw_variable. destruct (get_raw_variable _ _ _ _ _) as [[[]|]| |]; cbn [bind]; try reflexivity.
  apply IH.
Qed.
Lemma us_resolve_variable_pointer defs s name ci :
  resolve_variable_pointer I defs (us v s) name ci = resolve_variable_pointer I defs s name ci.
Proof.
  unfold resolve_variable_pointer, get_context_index_of_variable.
  autorewrite with usdb. destruct (if (ci =? -1)%Z then _ else _); cbn [bind]; try reflexivity;
  try now rewrite us_get_raw_variable.
Qed.
Hint Rewrite us_get_raw_variable us_get_variable_with_name us_set_global us_resolve_variable_pointer
  us_assign_chase : usdb.
Lemma cr_assign defs name is_new is_global val :
  ComR v (fun s => assign I defs s name is_new is_global val).
Proof. unfold assign. sdeep. Qed.
Hint Resolve ins_get_raw_variable cr_assign : sfacts.

Lemma fc_do_command c o : C (do_command I c o).
Proof. unfold do_command. destruct c; fcomm. Qed.
Hint Resolve fc_do_command : fcomm.
Lemma fc_perform_logic op : C (perform_logic_and_flow_control I sw op).
Proof. unfold perform_logic_and_flow_control. fcomm. Qed.
Hint Resolve fc_perform_logic : fcomm.
Lemma fc_enter_containers fuel : forall pt, C (enter_containers fuel pt).
Proof. induction fuel as [|f IH]; intros; cbn [enter_containers]; fcomm. Qed.
Hint Resolve fc_enter_containers : fcomm.
Lemma fc_take_fuel : C take_fuel.
Proof. unfold take_fuel. fcomm. Qed.
Hint Resolve fc_take_fuel : fcomm.
Lemma fc_step : C (step I sw).
Proof. unfold step. fcomm. Qed.
Hint Resolve fc_step : fcomm.

(* ---------- look-ahead machinery ---------- *)
Lemma cs_copy_and_start_patching : ComS v (copy_and_start_patching sw).
Proof. apply cs_copy_and_start_patching_gen. exact Hsw. Qed.
Lemma cr_apply_any_patch : ComR v apply_any_patch.
Proof. unfold apply_any_patch. sdeep. Qed.
Hint Resolve cs_copy_and_start_patching cr_apply_any_patch : sfacts.

Lemma fc_state_snapshot : C (state_snapshot sw).
Proof.
  unfold state_snapshot. apply commF_modify. intros w.
  destruct w as [a st c d sn o1 o2 o3 o4 o5 o6 o7 o8 o9 o10 o11].
  change (mkWorld a (copy_and_start_patching sw (us v st)) c d (Some (us v st)) o1 o2 o3 o4 o5 o6 o7 o8 o9 o10 o11
          = mkWorld a (us v (copy_and_start_patching sw st)) c d (Some (us v st)) o1 o2 o3 o4 o5 o6 o7 o8 o9 o10 o11).
  now rewrite cs_copy_and_start_patching.
Qed.
Hint Resolve fc_state_snapshot : fcomm.

Lemma fc_restore : C restore_state_snapshot.
Proof.
  intros w. destruct w as [a st c d [snap|] o1 o2 o3 o4 o5 o6 o7 o8 o9 o10 o11]; [|reflexivity].
  pose (fix_vars := fun s : sstate => s <| ss_vars ::= fun x => x <| vs_patch := ss_patch s |> |>).
  change (restore_state_snapshot (uw v (mkWorld a st c d (Some snap) o1 o2 o3 o4 o5 o6 o7 o8 o9 o10 o11)))
    with (m_state_res apply_any_patch (mkWorld a (fix_vars (us v snap)) c d None o1 o2 o3 o4 o5 o6 o7 o8 o9 o10 o11)).
  change (restore_state_snapshot (mkWorld a st c d (Some snap) o1 o2 o3 o4 o5 o6 o7 o8 o9 o10 o11))
    with (m_state_res apply_any_patch (mkWorld a (fix_vars snap) c d None o1 o2 o3 o4 o5 o6 o7 o8 o9 o10 o11)).
  assert (E : fix_vars (us v snap) = us v (fix_vars snap)) by (destruct snap; reflexivity).
  rewrite E.
  exact (commF_m_state_res v apply_any_patch cr_apply_any_patch
           (mkWorld a (fix_vars snap) c d None o1 o2 o3 o4 o5 o6 o7 o8 o9 o10 o11)).
Qed.
Hint Resolve fc_restore : fcomm.
Lemma fc_discard : C discard_snapshot.
Proof. unfold discard_snapshot. fcomm. Qed.
Hint Resolve fc_discard : fcomm.
Lemma fc_can_continue : C m_can_continue.
Proof. unfold m_can_continue. fcomm. Qed.
Hint Resolve fc_can_continue : fcomm.
Theorem fc_continue_single_step : C (continue_single_step I sw).
Proof. unfold continue_single_step. fcomm. Qed.
Hint Resolve fc_continue_single_step : fcomm.

Lemma fc_clock_tick : C clock_tick.
Proof. unfold clock_tick. fcomm. Qed.
Hint Resolve fc_clock_tick : fcomm.

Lemma fc_continue_loop fuel : C (continue_loop I sw fuel).
Proof.
  induction fuel as [|f IH]; cbn [continue_loop]; [apply commF_panic|].
  intros w. rewrite fc_continue_single_step.
  destruct (continue_single_step I sw w) as [[ends|k m|site] w']; [| |reflexivity].
  - destruct ends; [reflexivity|].
    assert (H : C (let* tick := (let* a := gets w_async in if a then clock_tick else ret false) in
                   if tick then ret false else
                   let* can := m_can_continue in
                   if negb can then ret false else continue_loop I sw f)) by fcomm.
    apply H.
  - rewrite (fc_add_error_msg m false w').
    destruct (add_error_msg m false w') as [[?|? ?|?] w'']; reflexivity.
Qed.
Hint Resolve fc_continue_loop : fcomm.

Lemma fc_end_of_content_errors : C end_of_content_errors.
Proof. unfold end_of_content_errors. fcomm. Qed.
Hint Resolve fc_end_of_content_errors : fcomm.
Lemma fc_notify name x : C (notify_variable_changed name x).
Proof. unfold notify_variable_changed. fcomm. Qed.
Hint Resolve fc_notify : fcomm.
Lemma fc_deliver_errors : C (deliver_errors sw).
Proof. unfold deliver_errors, reset_errors, reset_warnings. fcomm. Qed.
Hint Resolve fc_deliver_errors : fcomm.

Theorem fc_continue_internal limited : C (continue_internal I sw limited).
Proof. unfold continue_internal. fcomm. Qed.
Hint Resolve fc_continue_internal : fcomm.

(* ---------- the host API (everything except the flow operations themselves, save/load and reset) ---------- *)
Lemma fc_if_async : C if_async_we_cant.
Proof. unfold if_async_we_cant. fcomm. Qed.
Hint Resolve fc_if_async : fcomm.
Lemma fc_validate_externals : C validate_external_bindings.
Proof. unfold validate_external_bindings. fcomm. Qed.
Hint Resolve fc_validate_externals : fcomm.
Lemma fc_continue_async limited : C (continue_async I sw limited).
Proof. unfold continue_async, cont_internal. fcomm. Qed.
Hint Resolve fc_continue_async : fcomm.
Lemma fc_get_current_text : C get_current_text.
Proof. unfold get_current_text. fcomm. Qed.
Lemma fc_get_current_tags : C get_current_tags.
Proof. unfold get_current_tags. fcomm. Qed.
Hint Resolve fc_get_current_text fc_get_current_tags : fcomm.
Lemma fc_story_cont : C (story_cont I sw).
Proof. unfold story_cont. fcomm. Qed.
Hint Resolve fc_story_cont : fcomm.
Theorem fc_api_cont : C (api_cont I sw).
Proof. unfold api_cont. fcomm. Qed.
Hint Resolve fc_api_cont : fcomm.
Lemma fc_continue_maximally_fuel fuel : forall acc, C (continue_maximally_fuel I sw fuel acc).
Proof. induction fuel as [|f IH]; intros; cbn [continue_maximally_fuel]; fcomm. Qed.
Hint Resolve fc_continue_maximally_fuel : fcomm.
Theorem fc_continue_maximally : C (continue_maximally I sw).
Proof. unfold continue_maximally. fcomm. Qed.
Lemma fc_get_current_choices : C get_current_choices.
Proof. unfold get_current_choices. fcomm. Qed.
Hint Resolve fc_get_current_choices : fcomm.
Theorem fc_choose_choice_index i : C (choose_choice_index I sw i).
Proof. unfold choose_choice_index. fcomm. Qed.
Lemma fc_validate_arguments args : C (validate_arguments args).
Proof. unfold validate_arguments. fcomm. Qed.
Lemma fc_pass_arguments args : C (pass_arguments I args).
Proof. unfold pass_arguments. fcomm. Qed.
Hint Resolve fc_validate_arguments fc_pass_arguments : fcomm.
Theorem fc_choose_path_string p r args : C (choose_path_string I sw p r args).
Proof. unfold choose_path_string. fcomm. Qed.
Lemma fc_eval_loop fuel : forall acc, C (eval_loop I sw fuel acc).
Proof. induction fuel as [|f IH]; intros; cbn [eval_loop]; fcomm. Qed.
Hint Resolve fc_eval_loop : fcomm.
Lemma fc_pop_down_to fuel : forall h r, C (pop_down_to fuel h r).
Proof. induction fuel as [|f IH]; intros; cbn [pop_down_to]; fcomm. Qed.
Hint Resolve fc_pop_down_to : fcomm.
Lemma fc_complete_fn_eval : C complete_function_evaluation_from_game.
Proof. unfold complete_function_evaluation_from_game. fcomm. Qed.
Hint Resolve fc_complete_fn_eval : fcomm.
Theorem fc_evaluate_function name args : C (evaluate_function I sw name args).
Proof. unfold evaluate_function. fcomm. Qed.

Lemma us_vs_host_set s name x :
  vs_host_set I (us v s) name x = res_map (fun r => (fst r, us v (snd r))) (vs_host_set I s name x).
Proof. unfold vs_host_set. sdeep. Qed.

Lemma commF_set_state_then {A} (s' : sstate) (k : M A) : C k ->
  forall w, (let* _ := mod_state (fun _ => us v s') in k) (uw v w)
            = (let (o, w') := (let* _ := mod_state (fun _ => s') in k) w in (o, uw v w')).
Proof.
  intros Hk w. destruct w as [a st c d sn o1 o2 o3 o4 o5 o6 o7 o8 o9 o10 o11].
  exact (Hk (mkWorld a s' c d sn o1 o2 o3 o4 o5 o6 o7 o8 o9 o10 o11)).
Qed.

Theorem fc_set_variable name x : C (set_variable I sw name x).
Proof.
  unfold set_variable. apply commF_bind; [fcomm|]. intros _ w.
  unfold mbind at 1 2 5 6. unfold get_state, gets, m_defs, lift.
  change (w_state (uw v w)) with (us v (w_state w)). rewrite us_vs_host_set.
  destruct (vs_host_set I (w_state w) name x) as [[n s']| |]; cbn [res_map fst snd]; try reflexivity.
  apply commF_set_state_then. apply commF_when. apply fc_notify.
Qed.
End FlowFrameStep.
