(* Shell/HostFrame.v — what the host has registered on a story (variable observers, external
   function bindings, the error handler, the fallbacks flag) and the story program itself are
   changed by NO story operation other than the (un)registration calls themselves: not by any form
   of continue, choosing, jumping, evaluating a function, setting a variable, switching / removing
   flows, or resetting.  Proved for the whole engine model with the Keeps calculus. *)
From Ink.Engine Require Import Api Tie.
From Ink.Shell Require Import Keeps KeepsStep.

Section HostFrame.
Variable I : iface.
Variable sw : switches.
Context {X : Type}.
Variable obs : world -> X.
Hypothesis f_state : forall w g, obs (w <| w_state ::= g |>) = obs w.
Hypothesis f_events : forall w g, obs (w <| w_events ::= g |>) = obs w.
Hypothesis f_unsafe : forall w b, obs (w <| w_saw_unsafe := b |>) = obs w.
Hypothesis f_fuel : forall w g, obs (w <| w_fuel ::= g |>) = obs w.
Hypothesis f_snap : forall w g, obs (w <| w_snapshot ::= g |>) = obs w.
Hypothesis f_pauses : forall w g, obs (w <| w_pauses ::= g |>) = obs w.
Hypothesis f_pause_left : forall w g, obs (w <| w_pause_left ::= g |>) = obs w.
Hypothesis f_rcc : forall w g, obs (w <| w_rcc ::= g |>) = obs w.
Hypothesis f_async : forall w g, obs (w <| w_async ::= g |>) = obs w.
Hypothesis f_lines : forall w g, obs (w <| w_lines ::= g |>) = obs w.
Hypothesis f_validated : forall w g, obs (w <| w_validated ::= g |>) = obs w.
Notation K := (Keeps obs).

Ltac hyp := first [apply f_state|apply f_events|apply f_unsafe|apply f_fuel|apply f_snap|apply f_pauses
                  |apply f_pause_left|apply f_rcc|apply f_async|apply f_lines|apply f_validated].
Ltac hk := repeat ((apply keeps_modify; intros ?; hyp)
                   || (apply keeps_mod_state; exact f_state) || (apply keeps_m_read; exact f_state)
                   || (apply keeps_m_state_res; exact f_state) || (apply keeps_m_cs_res; exact f_state)
                   || (apply keeps_get_state) || keeps_step).

Lemma kstep : K (step I sw). Proof. apply kp_step; assumption. Qed.
Lemma kfollow : K (try_follow_default_invisible_choice I sw). Proof. apply kp_try_follow; assumption. Qed.
Lemma kadd m b : K (add_error_msg m b). Proof. apply kp_add_error_msg; assumption. Qed.
Lemma kchoose pa b : K (choose_path I sw pa b). Proof. apply kp_choose_path; assumption. Qed.
Lemma kpush o : K (push_eval I o). Proof. apply kp_push_eval; assumption. Qed.
Lemma kpop : K pop_eval. Proof. apply kp_pop_eval; assumption. Qed.
Hint Resolve kstep kfollow kadd kchoose kpush kpop : keeps.

Lemma hk_can_continue : K m_can_continue. Proof. unfold m_can_continue. hk. Qed.
Hint Resolve hk_can_continue : keeps.
Lemma hk_add_error m b : K (add_error m b). Proof. unfold add_error. hk. Qed.
Hint Resolve hk_add_error : keeps.

Lemma hk_state_snapshot : K (state_snapshot sw).
Proof.
  unfold state_snapshot. apply keeps_modify. intros w.
  transitivity (obs (w <| w_snapshot := Some (w_state w) |>)).
  - apply f_state.
  - apply (f_snap w (fun _ => Some (w_state w))).
Qed.
Lemma hk_restore : K restore_state_snapshot.
Proof.
  unfold restore_state_snapshot. apply keeps_bind; [apply keeps_get|]. intros w0.
  destruct (w_snapshot w0); [|apply keeps_panic].
  apply keeps_bind; [|intros _; apply keeps_m_state_res; exact f_state].
  apply keeps_modify. intros w.
  match goal with |- obs (?a <| w_snapshot := None |>) = _ =>
    transitivity (obs a); [apply (f_snap a (fun _ => None))|] end.
  apply (f_state w (fun _ => _)).
Qed.
Lemma hk_discard : K discard_snapshot.
Proof.
  unfold discard_snapshot. apply keeps_bind; [apply keeps_m_state_res; exact f_state|]. intros _.
  apply keeps_modify. intros w. apply (f_snap w (fun _ => None)).
Qed.
Hint Resolve hk_state_snapshot hk_restore hk_discard : keeps.

Theorem hk_continue_single_step : K (continue_single_step I sw).
Proof. unfold continue_single_step. hk. Qed.
Hint Resolve hk_continue_single_step : keeps.

Lemma hk_clock_tick : K clock_tick.
Proof.
  unfold clock_tick. apply keeps_bind; [apply keeps_get|]. intros w0.
  destruct (N.eqb (w_pause_left w0) 0); [apply keeps_ret|].
  destruct (N.eqb (w_pause_left w0) 1).
  - apply keeps_bind; [|intros _; apply keeps_ret]. apply keeps_modify. intros w.
    destruct (w_pauses w) as [|n r].
    + apply (f_pause_left w (fun _ => 0%N)).
    + transitivity (obs (w <| w_pause_left := n |>)); [apply (f_pauses _ (fun _ => r))|apply (f_pause_left w (fun _ => n))].
  - apply keeps_bind; [|intros _; apply keeps_ret]. apply keeps_modify. intros w. apply f_pause_left.
Qed.
Hint Resolve hk_clock_tick : keeps.

Lemma hk_continue_loop fuel : K (continue_loop I sw fuel).
Proof.
  induction fuel as [|n IH]; cbn [continue_loop]; [apply keeps_panic|].
  intros w. pose proof (hk_continue_single_step w) as H1.
  destruct (continue_single_step I sw w) as [[ends|k m|site] w']; cbn [snd] in *; [| |exact H1].
  - destruct ends; [exact H1|].
    assert (H : K (let* tick := (let* a := gets w_async in if a then clock_tick else ret false) in
                   if tick then ret false else
                   let* can := m_can_continue in
                   if negb can then ret false else continue_loop I sw n)) by hk.
    rewrite (H w'). exact H1.
  - pose proof (kadd m false w') as H2.
    destruct (add_error_msg m false w') as [[?|? ?|?] w'']; cbn [snd] in *; congruence.
Qed.
Hint Resolve hk_continue_loop : keeps.

Lemma hk_end_of_content : K end_of_content_errors.
Proof. unfold end_of_content_errors. hk. Qed.
Lemma hk_notify n x : K (notify_variable_changed n x).
Proof. unfold notify_variable_changed, log_event. hk. Qed.
Lemma hk_deliver : K (deliver_errors sw).
Proof. unfold deliver_errors, reset_errors, reset_warnings, log_event. hk. Qed.
Hint Resolve hk_end_of_content hk_notify hk_deliver : keeps.

Theorem hk_continue_internal limited : K (continue_internal I sw limited).
Proof. unfold continue_internal. hk. Qed.
Hint Resolve hk_continue_internal : keeps.

(* ---------- the host API ---------- *)
Lemma hk_if_async : K if_async_we_cant. Proof. unfold if_async_we_cant. hk. Qed.
Hint Resolve hk_if_async : keeps.
Lemma hk_validate : K validate_external_bindings. Proof. unfold validate_external_bindings. hk. Qed.
Hint Resolve hk_validate : keeps.
Lemma hk_continue_async l : K (continue_async I sw l). Proof. unfold continue_async, cont_internal. hk. Qed.
Hint Resolve hk_continue_async : keeps.
Lemma hk_story_cont : K (story_cont I sw). Proof. unfold story_cont, get_current_text. hk. Qed.
Hint Resolve hk_story_cont : keeps.
Theorem hk_api_cont : K (api_cont I sw). Proof. unfold api_cont. hk. Qed.
Lemma hk_cont_max_fuel fuel : forall acc, K (continue_maximally_fuel I sw fuel acc).
Proof. induction fuel as [|n IH]; intros; cbn [continue_maximally_fuel]; hk. Qed.
Hint Resolve hk_cont_max_fuel : keeps.
Theorem hk_continue_maximally : K (continue_maximally I sw). Proof. unfold continue_maximally. hk. Qed.
Lemma hk_get_current_choices : K get_current_choices. Proof. unfold get_current_choices. hk. Qed.
Hint Resolve hk_get_current_choices : keeps.
Theorem hk_choose_choice_index i : K (choose_choice_index I sw i). Proof. unfold choose_choice_index. hk. Qed.
Lemma hk_validate_args a : K (validate_arguments a). Proof. unfold validate_arguments. hk. Qed.
Lemma hk_pass_args a : K (pass_arguments I a). Proof. unfold pass_arguments. hk. Qed.
Hint Resolve hk_validate_args hk_pass_args : keeps.
Theorem hk_choose_path_string p r a : K (choose_path_string I sw p r a). Proof. unfold choose_path_string. hk. Qed.
Lemma hk_eval_loop fuel : forall acc, K (eval_loop I sw fuel acc).
Proof. induction fuel as [|n IH]; intros; cbn [eval_loop]; hk. Qed.
Lemma hk_pop_down_to fuel : forall h r, K (pop_down_to fuel h r).
Proof. induction fuel as [|n IH]; intros; cbn [pop_down_to]; hk. Qed.
Hint Resolve hk_eval_loop hk_pop_down_to : keeps.
Lemma hk_complete_fn : K complete_function_evaluation_from_game.
Proof. unfold complete_function_evaluation_from_game. hk. Qed.
Hint Resolve hk_complete_fn : keeps.
Theorem hk_evaluate_function n a : K (evaluate_function I sw n a). Proof. unfold evaluate_function. hk. Qed.
Theorem hk_set_variable n x : K (set_variable I sw n x). Proof. unfold set_variable. hk. Qed.
Theorem hk_switch_flow n : K (switch_flow n). Proof. unfold switch_flow. hk. Qed.
Theorem hk_switch_default : K (switch_to_default_flow sw). Proof. unfold switch_to_default_flow. hk. Qed.
Theorem hk_remove_flow n : K (remove_flow sw n). Proof. unfold remove_flow. hk. Qed.
Lemma hk_reset_globals : K (reset_globals I sw). Proof. unfold reset_globals, cont_internal. hk. Qed.
Hint Resolve hk_reset_globals : keeps.
Theorem hk_reset_state seed : K (reset_state I sw seed). Proof. unfold reset_state. hk. Qed.
End HostFrame.

(* ---------- instance: the host's registrations ---------- *)
Definition host_regs (w : world) :=
  (w_observers w, w_externals w, w_handler w, w_fallbacks w, w_story w).

Inductive story_op :=
| SCont | SContMax | SContAsync (limited : bool) | SChoose (i : nat)
| SPath (p : text) (reset_cs : bool) (args : list value)
| SEval (name : text) (args : option (list value))
| SSetVar (name : text) (x : value)
| SSwitch (name : text) | SSwitchDefault | SRemoveFlow (name : text)
| SReset (seed : Z).

Section HostRegs.
Variable I : iface.
Variable sw : switches.

Definition run_story_op (op : story_op) : M unit :=
  match op with
  | SCont => let* _ := api_cont I sw in ret tt
  | SContMax => let* _ := continue_maximally I sw in ret tt
  | SContAsync l => continue_async I sw l
  | SChoose i => choose_choice_index I sw i
  | SPath p r a => choose_path_string I sw p r a
  | SEval n a => let* _ := evaluate_function I sw n a in ret tt
  | SSetVar n x => set_variable I sw n x
  | SSwitch n => switch_flow n
  | SSwitchDefault => switch_to_default_flow sw
  | SRemoveFlow n => remove_flow sw n
  | SReset seed => reset_state I sw seed
  end.

Ltac regs := intros w ?; destruct w; reflexivity.

Theorem story_ops_keep_registrations : forall op, Keeps host_regs (run_story_op op).
Proof.
  destruct op; cbn [run_story_op].
  - apply keeps_bind; [apply hk_api_cont; regs|intros; apply keeps_ret].
  - apply keeps_bind; [apply hk_continue_maximally; regs|intros; apply keeps_ret].
  - apply hk_continue_async; regs.
  - apply hk_choose_choice_index; regs.
  - apply hk_choose_path_string; regs.
  - apply keeps_bind; [apply hk_evaluate_function; regs|intros; apply keeps_ret].
  - apply hk_set_variable; regs.
  - apply hk_switch_flow; regs.
  - apply hk_switch_default; regs.
  - apply hk_remove_flow; regs.
  - apply hk_reset_state; regs.
Qed.

Lemma evaluate_function_keeps_host_regs n a : Keeps host_regs (evaluate_function I sw n a).
Proof. apply hk_evaluate_function; regs. Qed.

Fixpoint run_story_ops (ops : list story_op) (w : world) : world :=
  match ops with
  | [] => w
  | op :: r => run_story_ops r (snd (run_story_op op w))
  end.

(* whatever the story does, and however each call ends (Ok, Err or even a panic caught by the
   host), observers, bindings, handler, fallbacks flag and the program stay exactly as registered *)
Theorem registrations_survive : forall ops w, host_regs (run_story_ops ops w) = host_regs w.
Proof.
  induction ops as [|op r IH]; intros w; cbn [run_story_ops]; [reflexivity|].
  rewrite IH. apply story_ops_keep_registrations.
Qed.
End HostRegs.
