(* Shell/VarsKept.v — the part of the interpreter that a path jump runs (force_end, argument passing,
   set_chosen_path and the visit bookkeeping) does not touch the variables state.  Same proof as
   Shell/PatchShape.v, on the observation `vshape` = the whole VariablesState, for that part of the interpreter. *)
From Ink.Engine Require Import Api Tie.
From Ink.Shell Require Import Keeps.

Definition vshape (s : sstate) : varstate := ss_vars s.
Definition wvshape (w : world) : varstate := vshape (w_state w).

(* state-level facts: f preserves the vshape *)
Definition VSK (f : sstate -> sstate) : Prop := forall s, vshape (f s) = vshape s.
Definition VSKR (f : sstate -> Res sstate) : Prop := forall s s', f s = Ok s' -> vshape s' = vshape s.

Lemma vsh_flow s g : vshape (s <| ss_flow ::= g |>) = vshape s. Proof. destruct s; reflexivity. Qed.
Lemma vsh_safe_exit s g : vshape (s <| ss_safe_exit ::= g |>) = vshape s. Proof. destruct s; reflexivity. Qed.
Lemma vsh_eval s g : vshape (s <| ss_eval ::= g |>) = vshape s. Proof. destruct s; reflexivity. Qed.
Lemma vsh_errors s g : vshape (s <| ss_errors ::= g |>) = vshape s. Proof. destruct s; reflexivity. Qed.
Lemma vsh_warnings s g : vshape (s <| ss_warnings ::= g |>) = vshape s. Proof. destruct s; reflexivity. Qed.
Lemma vsh_named s g : vshape (s <| ss_named ::= g |>) = vshape s. Proof. destruct s; reflexivity. Qed.
Lemma vsh_diverted s g : vshape (s <| ss_diverted ::= g |>) = vshape s. Proof. destruct s; reflexivity. Qed.
Lemma vsh_visits s g : vshape (s <| ss_visits ::= g |>) = vshape s. Proof. destruct s; reflexivity. Qed.
Lemma vsh_turns s g : vshape (s <| ss_turns ::= g |>) = vshape s. Proof. destruct s; reflexivity. Qed.
Lemma vsh_turn s g : vshape (s <| ss_turn ::= g |>) = vshape s. Proof. destruct s; reflexivity. Qed.
Lemma vsh_seed s g : vshape (s <| ss_seed ::= g |>) = vshape s. Proof. destruct s; reflexivity. Qed.
Lemma vsh_prev_random s g : vshape (s <| ss_prev_random ::= g |>) = vshape s. Proof. destruct s; reflexivity. Qed.
Lemma vsh_set_cs s c : vshape (ss_set_cs s c) = vshape s. Proof. destruct s; reflexivity. Qed.
Lemma vsh_set_out s c : vshape (ss_set_out s c) = vshape s. Proof. destruct s; reflexivity. Qed.
Lemma vsh_set_choices s c : vshape (ss_set_choices s c) = vshape s. Proof. destruct s; reflexivity. Qed.
#[export] Hint Rewrite vsh_flow vsh_safe_exit vsh_eval vsh_errors vsh_warnings vsh_named vsh_diverted vsh_visits vsh_turns
  vsh_turn vsh_seed vsh_prev_random vsh_set_cs vsh_set_out vsh_set_choices : vshdb.

(* solve VSK / VSKR goals: unfold the function before calling *)
Ltac vshs := autorewrite with vshdb; try reflexivity;
  repeat (match goal with |- context [if ?b then _ else _] => destruct b end; autorewrite with vshdb; try reflexivity).
Ltac vskr :=
  unfold VSK, VSKR; intros;
  repeat (match goal with
          | H : Ok _ = Ok _ |- _ => injection H as H; subst
          | H : Err _ _ = Ok _ |- _ => discriminate H
          | H : Panic _ = Ok _ |- _ => discriminate H
          | H : bind ?x _ = Ok _ |- _ => let E := fresh "E" in destruct x eqn:E; cbn [bind] in H
          | H : (match ?x with _ => _ end) = Ok _ |- _ => let E := fresh "E" in destruct x eqn:E
          | H : (let '(_, _) := ?x in _) = Ok _ |- _ => let E := fresh "E" in destruct x eqn:E
          end);
  vshs.

Lemma vskr_set_cur_pointer p : VSKR (fun s => ss_set_cur_pointer s p).
Proof. unfold ss_set_cur_pointer. vskr. Qed.
Lemma vskr_set_prev_pointer p : VSKR (fun s => ss_set_prev_pointer s p).
Proof. unfold ss_set_prev_pointer. vskr. Qed.
Lemma vskr_set_in_expr b : VSKR (fun s => ss_set_in_expr s b).
Proof. unfold ss_set_in_expr. vskr. Qed.
Lemma vskr_push_individual o : VSKR (push_individual o).
Proof. unfold push_individual. vskr. Qed.
Lemma vskr_foldM {A} (f : sstate -> A -> Res sstate) l :
  (forall a, VSKR (fun s => f s a)) -> VSKR (foldM f l).
Proof.
  intros H. induction l as [|x l IH]; intros s s' E; cbn [foldM] in E; [now injection E as <-|].
  destruct (f s x) as [s1| |] eqn:E1; cbn [bind] in E; try discriminate.
  rewrite (IH _ _ E). exact (H x s s1 E1).
Qed.
Lemma vskr_push_to_output o : VSKR (push_to_output o).
Proof.
  unfold push_to_output. destruct o as [?|vl|?|? ?|?|?|?|?|? ? ?|?| | |?]; try apply vskr_push_individual.
  destruct vl; try apply vskr_push_individual.
  destruct (try_split_head_tail _); [|apply vskr_push_individual].
  apply vskr_foldM. intros a. apply vskr_push_individual.
Qed.
Lemma vskr_trim : VSKR trim_whitespace_from_function_end.
Proof. unfold trim_whitespace_from_function_end. vskr. Qed.
Lemma vskr_force_end : VSKR force_end.
Proof.
  unfold force_end. intros s s' E.
  destruct (ss_set_cur_pointer _ _) as [s2| |] eqn:E2; cbn [bind] in E; try discriminate.
  destruct (ss_set_prev_pointer _ _) as [s3| |] eqn:E3; cbn [bind] in E; try discriminate.
  injection E as <-. rewrite vsh_safe_exit.
  rewrite (vskr_set_prev_pointer _ _ _ E3), (vskr_set_cur_pointer _ _ _ E2). vshs.
Qed.
Lemma vsk_pop_from_output n : VSK (pop_from_output n).
Proof. unfold pop_from_output. intros s. destruct (Nat.leb _ _); vshs. Qed.
Lemma vsk_reset_output l : VSK (reset_output l).
Proof. unfold reset_output. intros s. vshs. Qed.



Lemma vskr_increment_visit_count root cp : VSKR (fun s => increment_visit_count root s cp).
Proof.
  unfold increment_visit_count. intros s s' E. destruct s as [fl se va ev er wa pa nm di vi tu t sd pr]. cbn in *.
  destruct pa as [p|]; cbn in E;
    repeat (match type of E with
            | bind ?x _ = _ => destruct x; cbn [bind] in E; try discriminate
            end);
    injection E as <-; reflexivity.
Qed.
Lemma vskr_record_turn_index_visit root cp : VSKR (fun s => record_turn_index_visit root s cp).
Proof.
  unfold record_turn_index_visit. intros s s' E. destruct s as [fl se va ev er wa pa nm di vi tu t sd pr]. cbn in *.
  destruct (path_text_of root cp); cbn [bind] in E; try discriminate.
  destruct pa; injection E as <-; reflexivity.
Qed.

(* ---------- lifting through the monad ---------- *)
Notation KV := (Keeps wvshape).

Lemma kv_mod_state g : VSK g -> KV (mod_state g).
Proof. intros H. apply keeps_modify. intros w. destruct w; unfold wvshape; cbn. apply H. Qed.
Lemma kv_m_read {A} (g : sstate -> Res A) : KV (m_read g).
Proof. unfold m_read. apply keeps_bind; [apply keeps_gets|]. intros s. apply keeps_lift. Qed.
Lemma kv_m_state_res g : VSKR g -> KV (m_state_res g).
Proof.
  intros H w. unfold m_state_res, mbind, get_state, gets, lift, mod_state, modify.
  destruct (g (w_state w)) as [s'| |] eqn:E; cbn; try reflexivity.
  unfold wvshape. destruct w; cbn in *. exact (H _ _ E).
Qed.
Lemma kv_m_cs_res g : KV (m_cs_res g).
Proof.
  unfold m_cs_res. apply kv_m_state_res. intros s s' E.
  destruct (g (ss_cs s)); cbn [bind] in E; try discriminate. injection E as <-. apply vsh_set_cs.
Qed.
Lemma kv_modify_world (g : world -> world) : (forall w, w_state (g w) = w_state w) -> KV (modify g).
Proof. intros H. apply keeps_modify. intros w. unfold wvshape. now rewrite H. Qed.

#[export] Hint Resolve kv_m_read kv_m_cs_res vskr_set_cur_pointer vskr_set_prev_pointer vskr_set_in_expr
  vskr_push_individual vskr_push_to_output vskr_trim vskr_force_end vsk_pop_from_output vsk_reset_output
  vskr_increment_visit_count vskr_record_turn_index_visit : keeps.

Ltac kv_step :=
  match goal with
  | |- Keeps wvshape (mod_state _) => apply kv_mod_state; first [solve [auto with keeps] | intros ?; solve [vshs]]
  | |- Keeps wvshape (m_read _) => apply kv_m_read
  | |- Keeps wvshape (m_state_res _) => apply kv_m_state_res; first [solve [auto with keeps] | solve [vskr]]
  | |- Keeps wvshape (m_cs_res _) => apply kv_m_cs_res
  | |- Keeps wvshape get_state => apply keeps_gets
  | |- Keeps wvshape (modify _) => apply kv_modify_world; intros []; reflexivity
  | _ => keeps_step
  end.
Ltac kvt := repeat kv_step.

Section StepShape.
Variable I : iface.
Variable sw : switches.

Lemma kv_m_root : KV m_root. Proof. unfold m_root. kvt. Qed.
Lemma kv_m_defs : KV m_defs. Proof. unfold m_defs. kvt. Qed.
Hint Resolve kv_m_root kv_m_defs : keeps.
Lemma kv_log_event e : KV (log_event e). Proof. unfold log_event. kvt. Qed.
Hint Resolve kv_log_event : keeps.
Lemma kv_push_eval o : KV (push_eval I o). Proof. unfold push_eval. kvt. Qed.
Lemma kv_pop_eval : KV pop_eval. Proof. unfold pop_eval. kvt. Qed.
Lemma kv_peek_eval : KV peek_eval. Proof. unfold peek_eval. kvt. Qed.
Lemma kv_pop_eval_multiple n : KV (pop_eval_multiple n). Proof. unfold pop_eval_multiple. kvt. Qed.
Hint Resolve kv_push_eval kv_pop_eval kv_peek_eval kv_pop_eval_multiple : keeps.
Lemma kv_m_push_output o : KV (m_push_output o). Proof. unfold m_push_output. kvt. Qed.
Hint Resolve kv_m_push_output : keeps.
Lemma kv_add_error_msg m b : KV (add_error_msg m b). Proof. unfold add_error_msg. kvt. Qed.
Hint Resolve kv_add_error_msg : keeps.
Lemma kv_add_error m b : KV (add_error m b). Proof. unfold add_error. kvt. Qed.
Hint Resolve kv_add_error : keeps.
Lemma kv_visit_container cp b : KV (visit_container cp b). Proof. unfold visit_container. kvt. Qed.
Hint Resolve kv_visit_container : keeps.
Lemma kv_visit_changed_loop fuel : forall prevs child b, KV (visit_changed_loop fuel prevs child b).
Proof. induction fuel as [|f IH]; intros; cbn [visit_changed_loop]; kvt. Qed.
Hint Resolve kv_visit_changed_loop : keeps.
Lemma kv_visit_changed : KV visit_changed_containers_due_to_divert.
Proof. unfold visit_changed_containers_due_to_divert. kvt. Qed.
Hint Resolve kv_visit_changed : keeps.
Lemma kv_increment_content_pointer : KV increment_content_pointer.
Proof. unfold increment_content_pointer. kvt. Qed.
Hint Resolve kv_increment_content_pointer : keeps.
Lemma kv_pop_callstack t : KV (pop_callstack t). Proof. unfold pop_callstack. kvt. Qed.
Hint Resolve kv_pop_callstack : keeps.
Lemma kv_try_exit : KV try_exit_function_evaluation_from_game.
Proof. unfold try_exit_function_evaluation_from_game. kvt. Qed.
Hint Resolve kv_try_exit : keeps.
Lemma kv_next_content_fuel fuel : KV (next_content_fuel I fuel).
Proof. induction fuel as [|f IH]; cbn [next_content_fuel]; kvt. Qed.
Hint Resolve kv_next_content_fuel : keeps.
Lemma kv_next_content : KV (next_content I). Proof. unfold next_content. kvt. Qed.
Hint Resolve kv_next_content : keeps.
Lemma kv_choose_path pa b : KV (choose_path I sw pa b). Proof. unfold choose_path. kvt. Qed.
Hint Resolve kv_choose_path : keeps.
End StepShape.
