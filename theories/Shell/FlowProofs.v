(* Shell/FlowProofs.v — C10: flow switching moves whole flow records between
   `current_flow` and `named_flows`; no flow's content (call stack, threads,
   temporaries, output stream, choices) is ever changed by switching or by
   removing another flow.  (Engine/Api.v::switch_flow_internal, remove_flow) *)
From Ink.Engine Require Import Api Tie.
From Ink.Data Require Import PathProofs.
From Ink.Shell Require Import ObserverProofs.

Section Flows.

Definition named_of (s : sstate) : list (text * flow) :=
  match ss_named s with Some l => l | None => [] end.

(* the flow a name denotes: the current flow or a parked one *)
Definition lookup_flow (s : sstate) (k : text) : option flow :=
  if text_eqb k (fl_name (ss_flow s)) then Some (ss_flow s) else assoc k (named_of s).

(* parked flows are stored under their own name, the current flow is not parked,
   and (after the repair of the snapshot copy) no stale alias entry exists *)
Definition flows_ok (s : sstate) : Prop :=
  (forall k f, assoc k (named_of s) = Some f -> fl_name f = k /\ fl_alias_cs f = false)
  /\ assoc (fl_name (ss_flow s)) (named_of s) = None
  /\ fl_alias_cs (ss_flow s) = false.

Lemma assoc_remove_other {V} k k' (l : list (text * V)) : text_eqb k' k = false ->
  assoc k' (assoc_remove k l) = assoc k' l.
Proof.
  intros H. induction l as [|[k2 v2] l IH]; cbn; [reflexivity|].
  destruct (text_eqb k k2) eqn:E; cbn.
  - apply text_eqb_eq in E. subst. rewrite H. exact IH.
  - destruct (text_eqb k' k2); [reflexivity|exact IH].
Qed.

Lemma assoc_remove_same {V} k (l : list (text * V)) : assoc k (assoc_remove k l) = None.
Proof.
  induction l as [|[k2 v2] l IH]; cbn; [reflexivity|].
  destruct (text_eqb k k2) eqn:E; cbn; [exact IH|]. rewrite E. exact IH.
Qed.

Lemma alias_false_id (f : flow) : fl_alias_cs f = false -> f <| fl_alias_cs := false |> = f.
Proof. destruct f; cbn. intros ->. reflexivity. Qed.

(* the state after switching, spelled out *)
Lemma switch_unfold (name : text) (s : sstate) :
  text_eqb name (fl_name (ss_flow s)) = false ->
  let next := match assoc name (named_of s) with Some f => f | None => flow_new name end in
  ss_flow (switch_flow_internal name s) = next <| fl_alias_cs := false |>
  /\ named_of (switch_flow_internal name s)
     = assoc_set (fl_name (ss_flow s)) (ss_flow s) (assoc_remove name (named_of s)).
Proof.
  intros H. unfold switch_flow_internal, named_of. rewrite H. cbn. unfold set; cbn. split; reflexivity.
Qed.

(* FRAME: switching flows changes no existing flow whatsoever *)
Lemma switch_preserves_flows (name k : text) (s : sstate) (f : flow) :
  flows_ok s -> lookup_flow s k = Some f ->
  lookup_flow (switch_flow_internal name s) k = Some f.
Proof.
  intros (Hnames & Hcur & Hal) Hk.
  destruct (text_eqb name (fl_name (ss_flow s))) eqn:Ecur.
  - unfold switch_flow_internal. rewrite Ecur. exact Hk.
  - destruct (switch_unfold name s Ecur) as [Hf Hn]. unfold lookup_flow in *. rewrite Hf, Hn.
    set (next := match assoc name (named_of s) with Some f0 => f0 | None => flow_new name end) in *.
    assert (Hnext : fl_name next = name).
    { subst next. destruct (assoc name (named_of s)) as [f0|] eqn:E; [apply (Hnames _ _ E)|reflexivity]. }
    assert (Hname' : fl_name (next <| fl_alias_cs := false |>) = name) by (unfold set; cbn; exact Hnext).
    rewrite Hname'.
    destruct (text_eqb k name) eqn:Ekn.
    + (* k is the flow switched to: it existed, so it is the parked record itself *)
      apply text_eqb_eq in Ekn. subst k. rewrite Ecur in Hk.
      subst next. rewrite Hk. destruct (Hnames _ _ Hk) as [_ Ha]. now rewrite alias_false_id.
    + destruct (text_eqb k (fl_name (ss_flow s))) eqn:Ekc.
      * apply text_eqb_eq in Ekc. rewrite Ekc. injection Hk as <-. now rewrite assoc_set_same.
      * rewrite assoc_set_other by exact Ekc. rewrite assoc_remove_other by exact Ekn. exact Hk.
Qed.

(* the invariant is kept *)
Lemma switch_keeps_flows_ok (name : text) (s : sstate) :
  flows_ok s -> flows_ok (switch_flow_internal name s).
Proof.
  intros (Hnames & Hcur & Hal).
  destruct (text_eqb name (fl_name (ss_flow s))) eqn:Ecur.
  - unfold switch_flow_internal. rewrite Ecur. exact (conj Hnames (conj Hcur Hal)).
  - destruct (switch_unfold name s Ecur) as [Hf Hn]. unfold flows_ok. rewrite Hf, Hn.
    set (next := match assoc name (named_of s) with Some f0 => f0 | None => flow_new name end) in *.
    assert (Hnext : fl_name next = name).
    { subst next. destruct (assoc name (named_of s)) as [f0|] eqn:E; [apply (Hnames _ _ E)|reflexivity]. }
    assert (Hname' : fl_name (next <| fl_alias_cs := false |>) = name) by (unfold set; cbn; exact Hnext).
    split; [|split].
    { intros k f H.
      destruct (text_eqb k (fl_name (ss_flow s))) eqn:Ekc.
      - apply text_eqb_eq in Ekc. rewrite Ekc in H. rewrite assoc_set_same in H.
        injection H as <-. split; [symmetry; exact Ekc|exact Hal].
      - rewrite assoc_set_other in H by exact Ekc.
        destruct (text_eqb k name) eqn:Ekn.
        + apply text_eqb_eq in Ekn. rewrite Ekn in H. rewrite assoc_remove_same in H. discriminate.
        + rewrite assoc_remove_other in H by exact Ekn. apply (Hnames _ _ H). }
    { rewrite Hname'. rewrite assoc_set_other by exact Ecur. apply assoc_remove_same. }
    { unfold set; reflexivity. }
Qed.

(* switching away and back restores the current flow and every parked flow *)
Lemma switch_roundtrip (name k : text) (s : sstate) (f : flow) :
  flows_ok s -> lookup_flow s k = Some f ->
  lookup_flow (switch_flow_internal (fl_name (ss_flow s)) (switch_flow_internal name s)) k = Some f
  /\ ss_flow (switch_flow_internal (fl_name (ss_flow s)) (switch_flow_internal name s)) = ss_flow s.
Proof.
  intros Hok Hk. split.
  - apply switch_preserves_flows; [now apply switch_keeps_flows_ok|]. now apply switch_preserves_flows.
  - destruct Hok as (Hnames & Hcur & Hal).
    destruct (text_eqb name (fl_name (ss_flow s))) eqn:Ecur.
    + unfold switch_flow_internal at 2. rewrite Ecur. unfold switch_flow_internal. now rewrite text_eqb_refl.
    + destruct (switch_unfold name s Ecur) as [Hf Hn].
      set (s1 := switch_flow_internal name s) in *.
      assert (Hn1 : fl_name (ss_flow s1) = name).
      { rewrite Hf. destruct (assoc name (named_of s)) as [f0|] eqn:E.
        - unfold set; cbn. apply (Hnames _ _ E).
        - reflexivity. }
      assert (Eback : text_eqb (fl_name (ss_flow s)) (fl_name (ss_flow s1)) = false).
      { rewrite Hn1. rewrite text_eqb_sym. exact Ecur. }
      destruct (switch_unfold (fl_name (ss_flow s)) s1 Eback) as [Hf2 _].
      rewrite Hf2, Hn, assoc_set_same. now apply alias_false_id.
Qed.

(* removing a flow leaves every other flow alone *)
Lemma remove_flow_frame (name k : text) (w : world) (f : flow) :
  w_async w = false -> flows_ok (w_state w) ->
  text_eqb name DEFAULT_FLOW = false -> text_eqb k name = false ->
  text_eqb (fl_name (ss_flow (w_state w))) name = false ->
  lookup_flow (w_state w) k = Some f ->
  exists w', remove_flow sw_now name w = (OOk tt, w') /\ lookup_flow (w_state w') k = Some f.
Proof.
  intros Ha Hok Hd Hkn Hc Hk. unfold remove_flow.
  destruct w as [st s rcc asy snap obs val fb unsafe exts hdl evs lines fuel pauses pl]. cbn in *. subst asy.
  unfold DEFAULT_FLOW in Hd; cbn in Hd.
  unfold mbind, when, if_async_we_cant, gets, ret, fail, mod_state, modify, get_state, panic. cbn.
  rewrite Hd. cbn. rewrite Hc. cbn. unfold set; cbn.
  destruct (ss_named s) as [nf|] eqn:En; cbn.
  - eexists. split; [reflexivity|]. cbn. rewrite ?Hc. unfold lookup_flow, named_of in *. cbn. rewrite En in Hk.
    destruct (text_eqb k (fl_name (ss_flow s))); [exact Hk|]. now rewrite assoc_remove_other.
  - rewrite ?now_remove_flow_checked. eexists. split; [reflexivity|]. cbn. rewrite ?Hc.
    unfold lookup_flow, named_of in *. cbn. rewrite En in *. exact Hk.
Qed.

End Flows.
