(* Shell/Invariant.v — the Story-level bookkeeping between host calls.
   Hoare-style triples over the state monad with two postconditions (normal
   result / StoryError; a panic poisons the story object and is excluded),
   the frame lemmas of Shell/Frame.v as "keeps" facts, and the invariant
       between_calls w  :=  no continue in progress, nesting counter 0,
                            no look-ahead snapshot, rewind flag clear
   shown to be re-established by continue_internal whenever it returns with
   the line finished — the hypothesis that C09 / C17 theorems state. *)
From Coq Require Import Lia.
From Ink.Engine Require Import Api Tie.
From Ink.Shell Require Import Frame FrameStep ResetProofs.

Section Invariant.
Variable I : iface.
Variable sw : switches.

(* {P} m {Q | E}: from a world satisfying P, a normal result satisfies Q, an
   error result satisfies E (nothing is claimed after a panic) *)
Definition triple {A} (P : world -> Prop) (m : M A) (Q : A -> world -> Prop) (E : world -> Prop) : Prop :=
  forall w, P w ->
    match m w with
    | (OOk x, w') => Q x w'
    | (OErr _ _, w') => E w'
    | (OPanic _, _) => True
    end.

Lemma triple_bind {A B} P (m : M A) Q E (f : A -> M B) R :
  triple P m Q E -> (forall x, triple (Q x) (f x) R E) -> triple P (mbind m f) R E.
Proof.
  intros Hm Hf w Hw. unfold mbind. specialize (Hm w Hw).
  destruct (m w) as [[x|k e|s] w']; try exact Hm. apply (Hf x w' Hm).
Qed.

Lemma triple_weaken {A} (P P' : world -> Prop) (m : M A) (Q Q' : A -> world -> Prop) (E E' : world -> Prop) :
  triple P' m Q' E' -> (forall w, P w -> P' w) -> (forall x w, Q' x w -> Q x w) ->
  (forall w, E' w -> E w) -> triple P m Q E.
Proof.
  intros H HP HQ HE w Hw. specialize (H w (HP w Hw)).
  destruct (m w) as [[x|k e|s] w']; auto.
Qed.

Lemma triple_ret {A} (P : world -> Prop) (x : A) E : triple P (ret x) (fun _ w => P w) E.
Proof. intros w Hw. exact Hw. Qed.

Lemma triple_modify (P Q : world -> Prop) (g : world -> world) E :
  (forall w, P w -> Q (g w)) -> triple P (modify g) (fun _ w => Q w) E.
Proof. intros H w Hw. cbn. apply H, Hw. Qed.

Lemma triple_get (P : world -> Prop) E : triple P get (fun x w => x = w /\ P w) E.
Proof. intros w Hw. cbn. split; [reflexivity|exact Hw]. Qed.

(* ---------- what the engine keeps ---------- *)
(* the loop bookkeeping fields, as a tuple *)
Definition shell_of (w : world) := (w_async w, w_rcc w, w_pauses w, w_pause_left w).

(* a computation that commutes with every shell update keeps the shell fields *)
Lemma commutes_keeps {A} (m : M A) :
  (forall a r p l, Commutes a r p l m) ->
  forall w, shell_of (snd (m w)) = shell_of w.
Proof.
  intros H w. specialize (H (w_async w) (w_rcc w) (w_pauses w) (w_pause_left w) w).
  assert (Hu : shell_upd (w_async w) (w_rcc w) (w_pauses w) (w_pause_left w) w = w) by (destruct w; reflexivity).
  rewrite Hu in H. destruct (m w) as [o w'] eqn:E. cbn [snd].
  injection H as Hw.
  transitivity (shell_of (shell_upd (w_async w) (w_rcc w) (w_pauses w) (w_pause_left w) w')).
  - f_equal. exact Hw.
  - destruct w'; reflexivity.
Qed.

Lemma step_keeps_shell w : shell_of (snd (continue_single_step I sw w)) = shell_of w.
Proof. apply commutes_keeps. intros. apply comm_continue_single_step. Qed.

Lemma add_error_keeps_shell m b w : shell_of (snd (add_error_msg m b w)) = shell_of w.
Proof. apply commutes_keeps. intros. apply comm_add_error_msg. Qed.

Lemma can_continue_keeps w : snd (m_can_continue w) = w.
Proof.
  unfold m_can_continue, m_read, mbind, get_state, gets, lift.
  destruct (ss_can_continue (w_state w)); reflexivity.
Qed.

(* the clock keeps the flag and the counter *)
Lemma clock_tick_keeps w : w_async (snd (clock_tick w)) = w_async w /\ w_rcc (snd (clock_tick w)) = w_rcc w
                           /\ w_snapshot (snd (clock_tick w)) = w_snapshot w
                           /\ w_saw_unsafe (snd (clock_tick w)) = w_saw_unsafe w.
Proof.
  unfold clock_tick, mbind, get, ret, modify.
  destruct (N.eqb (w_pause_left w) 0); [cbn; auto|].
  destruct (N.eqb (w_pause_left w) 1); cbn.
  - destruct (w_pauses w); destruct w; cbn; auto.
  - destruct w; cbn; auto.
Qed.

End Invariant.
