(* Shell/FramesKept.v — the part of the interpreter that a path jump runs after the call stack was
   reset (argument passing, set_chosen_path and the visit bookkeeping) pushes and pops no frame: the number of
   threads and the number of call-stack elements of each thread stay as they are.  Same proof as
   Shell/PatchShape.v, on the observation `cshape`, for that part of the interpreter. *)
From Ink.Engine Require Import Api Tie.
From Ink.Shell Require Import Keeps.

Definition cshape (s : sstate) : list nat := map (fun t => length (th_cs t)) (cs_threads (ss_cs s)).
Definition wcshape (w : world) : list nat := cshape (w_state w).

(* state-level facts: f preserves the cshape *)
Definition CSK (f : sstate -> sstate) : Prop := forall s, cshape (f s) = cshape s.
Definition CSKR (f : sstate -> Res sstate) : Prop := forall s s', f s = Ok s' -> cshape s' = cshape s.

Lemma csh_safe_exit s g : cshape (s <| ss_safe_exit ::= g |>) = cshape s. Proof. destruct s; reflexivity. Qed.
Lemma csh_eval s g : cshape (s <| ss_eval ::= g |>) = cshape s. Proof. destruct s; reflexivity. Qed.
Lemma csh_errors s g : cshape (s <| ss_errors ::= g |>) = cshape s. Proof. destruct s; reflexivity. Qed.
Lemma csh_warnings s g : cshape (s <| ss_warnings ::= g |>) = cshape s. Proof. destruct s; reflexivity. Qed.
Lemma csh_named s g : cshape (s <| ss_named ::= g |>) = cshape s. Proof. destruct s; reflexivity. Qed.
Lemma csh_diverted s g : cshape (s <| ss_diverted ::= g |>) = cshape s. Proof. destruct s; reflexivity. Qed.
Lemma csh_visits s g : cshape (s <| ss_visits ::= g |>) = cshape s. Proof. destruct s; reflexivity. Qed.
Lemma csh_turns s g : cshape (s <| ss_turns ::= g |>) = cshape s. Proof. destruct s; reflexivity. Qed.
Lemma csh_turn s g : cshape (s <| ss_turn ::= g |>) = cshape s. Proof. destruct s; reflexivity. Qed.
Lemma csh_seed s g : cshape (s <| ss_seed ::= g |>) = cshape s. Proof. destruct s; reflexivity. Qed.
Lemma csh_prev_random s g : cshape (s <| ss_prev_random ::= g |>) = cshape s. Proof. destruct s; reflexivity. Qed.
Lemma csh_set_out s c : cshape (ss_set_out s c) = cshape s. Proof. destruct s; reflexivity. Qed.
Lemma csh_set_choices s c : cshape (ss_set_choices s c) = cshape s. Proof. destruct s; reflexivity. Qed.
#[export] Hint Rewrite csh_safe_exit csh_eval csh_errors csh_warnings csh_named csh_diverted csh_visits csh_turns
  csh_turn csh_seed csh_prev_random csh_set_out csh_set_choices : cshdb.

(* the call-stack cshape: how many frames each thread holds *)
Lemma map_set_last {A B} (f : A -> B) (l : list A) (x : A) :
  (forall y, last_opt l = Some y -> f x = f y) -> map f (set_last l x) = map f l.
Proof.
  induction l as [|a l IH]; intros H; [reflexivity|].
  destruct l as [|b r].
  - cbn. rewrite (H a eq_refl). reflexivity.
  - change (set_last (a :: b :: r) x) with (a :: set_last (b :: r) x). cbn [map]. f_equal.
    apply IH. intros y Hy. apply H. unfold last_opt in *. cbn [map] in *. exact Hy.
Qed.
Lemma length_set_last {A} (l : list A) (x : A) : length (set_last l x) = length l.
Proof.
  induction l as [|a l IH]; [reflexivity|]. destruct l as [|b r]; [reflexivity|].
  change (set_last (a :: b :: r) x) with (a :: set_last (b :: r) x). cbn [length]. now rewrite IH.
Qed.
Lemma cshape_upd cs f cs' : cs_upd_cur_element cs f = Ok cs' ->
  map (fun t => length (th_cs t)) (cs_threads cs') = map (fun t => length (th_cs t)) (cs_threads cs).
Proof.
  unfold cs_upd_cur_element, cs_cur_element, cs_cur_thread, unwrap_or_panic. intros E.
  destruct (last_opt (cs_threads cs)) as [t|] eqn:Et; cbn [bind] in E; [|discriminate].
  destruct (last_opt (th_cs t)) as [e|]; cbn [bind] in E; [|discriminate].
  injection E as <-. unfold cs_set_cur_thread_raw.
  assert (Hs : forall f, cs_threads (cs <| cs_threads ::= f |>) = f (cs_threads cs)) by (intros f0; destruct cs; reflexivity).
  rewrite Hs. apply map_set_last. intros y Hy. rewrite Et in Hy. injection Hy as <-.
  destruct t; cbn. apply length_set_last.
Qed.
Lemma cskr_set_cur_pointer p : CSKR (fun s => ss_set_cur_pointer s p).
Proof.
  intros s s' E. unfold ss_set_cur_pointer in E.
  destruct (cs_upd_cur_element (ss_cs s) _) as [cs'| |] eqn:Eu; cbn [bind] in E; try discriminate.
  injection E as <-. unfold cshape. pose proof (cshape_upd _ _ _ Eu) as H.
  destruct s as [fl]; destruct fl; cbn in *. exact H.
Qed.

(* solve CSK / CSKR goals: unfold the function before calling *)
Ltac cshs := autorewrite with cshdb; try reflexivity;
  repeat (match goal with |- context [if ?b then _ else _] => destruct b end; autorewrite with cshdb; try reflexivity).
Ltac cskr :=
  unfold CSK, CSKR; intros;
  repeat (match goal with
          | H : Ok _ = Ok _ |- _ => injection H as H; subst
          | H : Err _ _ = Ok _ |- _ => discriminate H
          | H : Panic _ = Ok _ |- _ => discriminate H
          | H : bind ?x _ = Ok _ |- _ => let E := fresh "E" in destruct x eqn:E; cbn [bind] in H
          | H : (match ?x with _ => _ end) = Ok _ |- _ => let E := fresh "E" in destruct x eqn:E
          | H : (let '(_, _) := ?x in _) = Ok _ |- _ => let E := fresh "E" in destruct x eqn:E
          end);
  cshs.

Lemma cskr_foldM {A} (f : sstate -> A -> Res sstate) l :
  (forall a, CSKR (fun s => f s a)) -> CSKR (foldM f l).
Proof.
  intros H. induction l as [|x l IH]; intros s s' E; cbn [foldM] in E; [now injection E as <-|].
  destruct (f s x) as [s1| |] eqn:E1; cbn [bind] in E; try discriminate.
  rewrite (IH _ _ E). exact (H x s s1 E1).
Qed.



Lemma cskr_increment_visit_count root cp : CSKR (fun s => increment_visit_count root s cp).
Proof.
  unfold increment_visit_count. intros s s' E. destruct s as [fl se va ev er wa pa nm di vi tu t sd pr]. cbn in *.
  destruct pa as [p|]; cbn in E;
    repeat (match type of E with
            | bind ?x _ = _ => destruct x; cbn [bind] in E; try discriminate
            end);
    injection E as <-; reflexivity.
Qed.
Lemma cskr_record_turn_index_visit root cp : CSKR (fun s => record_turn_index_visit root s cp).
Proof.
  unfold record_turn_index_visit. intros s s' E. destruct s as [fl se va ev er wa pa nm di vi tu t sd pr]. cbn in *.
  destruct (path_text_of root cp); cbn [bind] in E; try discriminate.
  destruct pa; injection E as <-; reflexivity.
Qed.

(* ---------- lifting through the monad ---------- *)
Notation KC := (Keeps wcshape).

Lemma kc_mod_state g : CSK g -> KC (mod_state g).
Proof. intros H. apply keeps_modify. intros w. destruct w; unfold wcshape; cbn. apply H. Qed.
Lemma kc_m_read {A} (g : sstate -> Res A) : KC (m_read g).
Proof. unfold m_read. apply keeps_bind; [apply keeps_gets|]. intros s. apply keeps_lift. Qed.
Lemma kc_m_state_res g : CSKR g -> KC (m_state_res g).
Proof.
  intros H w. unfold m_state_res, mbind, get_state, gets, lift, mod_state, modify.
  destruct (g (w_state w)) as [s'| |] eqn:E; cbn; try reflexivity.
  unfold wcshape. destruct w; cbn in *. exact (H _ _ E).
Qed.
Lemma kc_modify_world (g : world -> world) : (forall w, w_state (g w) = w_state w) -> KC (modify g).
Proof. intros H. apply keeps_modify. intros w. unfold wcshape. now rewrite H. Qed.

#[export] Hint Resolve kc_m_read cskr_set_cur_pointer
  
  cskr_increment_visit_count cskr_record_turn_index_visit : keeps.

Ltac kc_step :=
  match goal with
  | |- Keeps wcshape (mod_state _) => apply kc_mod_state; first [solve [auto with keeps] | intros ?; solve [cshs]]
  | |- Keeps wcshape (m_read _) => apply kc_m_read
  | |- Keeps wcshape (m_state_res _) => apply kc_m_state_res; first [solve [auto with keeps] | solve [cskr]]
  | |- Keeps wcshape get_state => apply keeps_gets
  | |- Keeps wcshape (modify _) => apply kc_modify_world; intros []; reflexivity
  | _ => keeps_step
  end.
Ltac kct := repeat kc_step.

Section StepShape.
Variable I : iface.
Variable sw : switches.

Lemma kc_m_root : KC m_root. Proof. unfold m_root. kct. Qed.
Lemma kc_m_defs : KC m_defs. Proof. unfold m_defs. kct. Qed.
Hint Resolve kc_m_root kc_m_defs : keeps.
Lemma kc_log_event e : KC (log_event e). Proof. unfold log_event. kct. Qed.
Hint Resolve kc_log_event : keeps.
Lemma kc_push_eval o : KC (push_eval I o). Proof. unfold push_eval. kct. Qed.
Lemma kc_pop_eval : KC pop_eval. Proof. unfold pop_eval. kct. Qed.
Lemma kc_peek_eval : KC peek_eval. Proof. unfold peek_eval. kct. Qed.
Lemma kc_pop_eval_multiple n : KC (pop_eval_multiple n). Proof. unfold pop_eval_multiple. kct. Qed.
Hint Resolve kc_push_eval kc_pop_eval kc_peek_eval kc_pop_eval_multiple : keeps.
Lemma kc_visit_container cp b : KC (visit_container cp b). Proof. unfold visit_container. kct. Qed.
Hint Resolve kc_visit_container : keeps.
Lemma kc_visit_changed_loop fuel : forall prevs child b, KC (visit_changed_loop fuel prevs child b).
Proof. induction fuel as [|f IH]; intros; cbn [visit_changed_loop]; kct. Qed.
Hint Resolve kc_visit_changed_loop : keeps.
Lemma kc_visit_changed : KC visit_changed_containers_due_to_divert.
Proof. unfold visit_changed_containers_due_to_divert. kct. Qed.
Hint Resolve kc_visit_changed : keeps.
Lemma kc_choose_path pa b : KC (choose_path I sw pa b). Proof. unfold choose_path. kct. Qed.
Hint Resolve kc_choose_path : keeps.
End StepShape.
