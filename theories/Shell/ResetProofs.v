(* Shell/ResetProofs.v — C17: reset_state does not depend on the state it
   replaces, and between host calls it coincides with running the constructor's
   initialisation on a blank state with the host's bindings in place. *)
From Ink.Engine Require Import Api Tie.

Section Reset.
Variable I : iface.
Notation sw := sw_now.

Ltac munfold :=
  repeat (progress (unfold m_can_continue, if_async_we_cant, m_read, get_state, mod_state, when,
                           mbind, ret, fail, get, gets, put, modify, lift in *)).

Local Arguments reset_globals : simpl never.

(* the old StoryState is irrelevant *)
Lemma reset_ignores_state (seed : Z) (w : world) (s' : sstate) :
  w_async w = false ->
  reset_state I sw seed (w <| w_state := s' |>) = reset_state I sw seed w.
Proof.
  intros Ha. unfold reset_state. munfold. destruct w; cbn in *. subst. reflexivity.
Qed.

(* what the host has registered on a story: kept by reset *)
Definition rebind (from onto : world) : world :=
  onto <| w_observers := w_observers from |> <| w_externals := w_externals from |>
       <| w_handler := w_handler from |> <| w_fallbacks := w_fallbacks from |>
       <| w_validated := w_validated from |> <| w_events := w_events from |>
       <| w_lines := w_lines from |> <| w_pauses := w_pauses from |> <| w_pause_left := w_pause_left from |>.

(* between host calls: no continue in progress, no look-ahead snapshot *)
Definition between_calls (w : world) : Prop :=
  w_async w = false /\ w_rcc w = 0 /\ w_snapshot w = None /\ w_saw_unsafe w = false.

Lemma reset_is_fresh_init (seed : Z) (w : world) :
  between_calls w ->
  reset_state I sw seed w = reset_globals I sw (rebind w (world_init (w_story w) seed (w_fuel w))).
Proof.
  intros (Ha & Hr & Hs & Hu). unfold reset_state. munfold. rewrite Ha. cbn.
  f_equal. destruct w. cbn in *. subst. reflexivity.
Qed.

(* the constructor is the same initialisation on the blank world (plus the version warning) *)
Lemma story_new_is_init (st : story) (seed : Z) (fuel : N) :
  st_version st = INK_VERSION_CURRENT ->
  story_new I sw st seed fuel =
  (let (o, w') := reset_globals I sw (world_init st seed fuel) in
   match o with OOk _ => (OOk tt, w') | OErr k e => (OErr k e, w') | OPanic s => (OPanic s, w') end).
Proof.
  intros Hv. unfold story_new. munfold. rewrite Hv. cbn.
  destruct (reset_globals I sw (world_init st seed fuel)) as [[[]| |] w']; reflexivity.
Qed.

End Reset.
