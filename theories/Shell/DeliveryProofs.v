(* Shell/DeliveryProofs.v — C13: the delivery block at the end of
   continue_internal (Engine/Continue.v::deliver_errors). *)
From Ink.Engine Require Import Api Tie.

Section Delivery.
Variable I : iface.
Notation sw := sw_now.

Ltac munfold :=
  repeat (progress (unfold m_can_continue, if_async_we_cant, m_read, get_state, mod_state, when,
                           mbind, ret, fail, get, gets, put, modify, lift in *)).

Lemma mfor_log (f : text -> event) (l : list text) (w : world) :
  mfor l (fun m => log_event (f m)) w = (OOk tt, w <| w_events ::= fun evs => evs ++ map f l |>).
Proof.
  revert w. induction l as [|m l IH]; intros w; cbn [mfor map].
  - unfold ret. destruct w; cbn. unfold set; cbn. rewrite app_nil_r. reflexivity.
  - unfold mbind, log_event, modify. rewrite IH. destruct w; cbn. unfold set; cbn.
    rewrite <- app_assoc. reflexivity.
Qed.

(* with a handler: every pending error and warning becomes exactly one handler
   event (errors first, in order), and nothing is left pending *)
Lemma delivered_once_with_handler (w : world) :
  w_handler w = true ->
  exists w',
    deliver_errors sw w = (OOk tt, w')
    /\ w_events w' = w_events w ++ map (EvHandler true) (ss_errors (w_state w))
                                ++ map (EvHandler false) (ss_warnings (w_state w))
    /\ ss_errors (w_state w') = [] /\ ss_warnings (w_state w') = [].
Proof.
  intros Hh. unfold deliver_errors. unfold mbind at 1. unfold get at 1.
  destruct (ss_has_error (w_state w) || ss_has_warning (w_state w)) eqn:E.
  - rewrite Hh. unfold mbind at 1. rewrite mfor_log. unfold mbind at 1. rewrite mfor_log.
    unfold reset_errors, reset_warnings. munfold. cbn.
    eexists. split; [reflexivity|]. destruct w as [st s]; destruct s; cbn. unfold set; cbn.
    rewrite app_assoc. repeat split; reflexivity.
  - apply Bool.orb_false_iff in E as [E1 E2]. unfold ss_has_error in E1. unfold ss_has_warning in E2.
    destruct (ss_errors (w_state w)) eqn:Ee; [|discriminate].
    destruct (ss_warnings (w_state w)) eqn:Ew; [|discriminate].
    exists w. unfold ret. cbn. rewrite app_nil_r. repeat split; assumption.
Qed.

(* without a handler an error makes the continue fail and the messages stay readable *)
Lemma no_handler_error_is_err (w : world) :
  w_handler w = false -> ss_errors (w_state w) <> [] ->
  exists msg, deliver_errors sw w = (OErr InvalidState msg, w).
Proof.
  intros Hh He. unfold deliver_errors. unfold mbind at 1. unfold get at 1.
  unfold ss_has_error at 1. destruct (ss_errors (w_state w)) eqn:E; [congruence|]. cbn.
  rewrite Hh. unfold ss_has_error. rewrite E. unfold fail. eexists. reflexivity.
Qed.

(* without a handler warnings alone never cause Err, and stay readable *)
Lemma no_handler_warning_not_err (w : world) :
  w_handler w = false -> ss_errors (w_state w) = [] ->
  exists w', deliver_errors sw w = (OOk tt, w')
             /\ ss_warnings (w_state w') = ss_warnings (w_state w) /\ w_events w' = w_events w.
Proof.
  intros Hh He. unfold deliver_errors. unfold mbind at 1. unfold get at 1.
  unfold ss_has_error. rewrite He. cbn [orb].
  destruct (ss_has_warning (w_state w)) eqn:Ew.
  - rewrite Hh. unfold reset_errors. munfold. eexists. split; [reflexivity|].
    destruct w as [st s]; destruct s; cbn. split; reflexivity.
  - exists w. unfold ret. repeat split; reflexivity.
Qed.

End Delivery.

(* ---------- an error stops the story ---------- *)
Section ErrorStops.
Variable I : iface.

(* with an error on record the story cannot continue ... *)
Lemma error_cannot_continue (w : world) :
  ss_errors (w_state w) <> [] ->
  forall o w', m_can_continue w = (o, w') -> (forall s, o <> OPanic s) -> o = OOk false /\ w' = w.
Proof.
  intros He o w' H Hp.
  unfold m_can_continue, m_read, mbind, get_state, gets, lift, ss_can_continue in H.
  assert (Hne : forall k e, ss_cur_pointer (w_state w) <> Err k e).
  { intros k e. unfold ss_cur_pointer, cs_cur_element, cs_cur_thread, unwrap_or_panic.
    destruct (last_opt (cs_threads (ss_cs (w_state w)))) as [t|]; cbn; try discriminate.
    destruct (last_opt (th_cs t)); cbn; discriminate. }
  destruct (ss_cur_pointer (w_state w)) as [p|k e|s]; cbn in H.
  - injection H as <- <-. split; [|reflexivity].
    unfold ss_has_error. destruct (ss_errors (w_state w)); [contradiction|].
    now rewrite Bool.andb_false_r.
  - exfalso. exact (Hne k e eq_refl).
  - injection H as <- <-. exfalso. eapply Hp. reflexivity.
Qed.
End ErrorStops.
