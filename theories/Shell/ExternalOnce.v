(* Shell/ExternalOnce.v — C12: a bound external function that is actually called is called
   exactly once, with the arguments in the order they were pushed, at the current line count.
   "Actually called": the function is bound, and neither guard applies (it is look-ahead safe, or
   the story is neither evaluating a string nor holding a look-ahead snapshot).  Whatever happens to
   the returned value afterwards (pushing a list value can still fail on an unknown origin), the
   event log has grown by this one call and nothing else. *)
From Ink.Engine Require Import Api Tie.
From Ink.Shell Require Import Keeps KeepsStep ExternalProofs.

Section ExternalOnce.
Variable I : iface.

Theorem bound_external_called_exactly_once :
  forall (name : text) (nargs : Z) (w : world) def vs rest,
    assoc name (w_externals w) = Some def ->
    (ex_safe def = true \/ (in_string_evaluation (w_state w) = false /\ w_snapshot w = None)) ->
    ss_eval (w_state w) = rest ++ map OVal vs -> length vs = Z.to_nat nargs ->
    exists o w', call_external_function I sw_now name nargs w = (o, w')
                 /\ w_events w' = w_events w ++ [EvExt name vs (w_lines w)].
Proof.
  intros name nargs w def vs rest Hb Hg He Hl.
  unfold call_external_function. unfold mbind at 1. unfold get at 1. rewrite Hb.
  rewrite now_ext_guard_fixed.
  assert (G1 : negb (ex_safe def) && in_string_evaluation (w_state w) = false).
  { destruct Hg as [Hs|[Hi _]]; [rewrite Hs; reflexivity|rewrite Hi; apply andb_false_r]. }
  assert (G2 : negb (ex_safe def) && (match w_snapshot w with Some _ => true | None => false end) = false).
  { destruct Hg as [Hs|[_ Hn]]; [rewrite Hs; reflexivity|rewrite Hn; apply andb_false_r]. }
  rewrite G1, G2.
  destruct (pop_args_order (Z.to_nat nargs) w [] vs rest He Hl) as (w1 & Hp & _ & Hev).
  pose proof (kp_pop_args w_lines ltac:(intros w0 ?; destruct w0; reflexivity) (Z.to_nat nargs) [] w) as Hlines.
  rewrite Hp in Hlines. cbn [snd] in Hlines.
  unfold mbind at 1. rewrite Hp. rewrite app_nil_r.
  unfold mbind at 1. unfold get at 1.
  unfold mbind at 1. unfold log_event at 1. unfold modify at 1.
  match goal with |- context [push_eval I ?o ?W] =>
    pose proof (kp_push_eval I w_events ltac:(intros w0 ?; destruct w0; reflexivity) o W) as Hk;
    destruct (push_eval I o W) as [out w'] eqn:Epush end.
  exists out, w'. split; [reflexivity|].
  cbn [snd] in Hk. rewrite Hk, Hlines. destruct w1; cbn in *. rewrite Hev. reflexivity.
Qed.
End ExternalOnce.
