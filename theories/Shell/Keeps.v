(* Shell/Keeps.v — "m keeps f": a computation leaves an observation f of the world unchanged,
   whatever its outcome.  Closed under the monad's combinators, so that facts such as
   "no interpreter step touches the look-ahead snapshot" are proved per primitive and lifted
   through the whole interpreter. *)
From Ink.Engine Require Import Api Tie.

Section Keeps.
Context {X : Type}.
Variable f : world -> X.

Definition Keeps {A} (m : M A) : Prop := forall w, f (snd (m w)) = f w.

Lemma keeps_ret {A} (x : A) : Keeps (ret x).
Proof. intros w. reflexivity. Qed.
Lemma keeps_fail {A} k msg : Keeps (@fail A k msg).
Proof. intros w. reflexivity. Qed.
Lemma keeps_panic {A} s : Keeps (@panic A s).
Proof. intros w. reflexivity. Qed.
Lemma keeps_lift {A} (x : Res A) : Keeps (lift x).
Proof. intros w. destruct x; reflexivity. Qed.
Lemma keeps_get : Keeps get.
Proof. intros w. reflexivity. Qed.
Lemma keeps_gets {A} (g : world -> A) : Keeps (gets g).
Proof. intros w. reflexivity. Qed.
Lemma keeps_bind {A B} (m : M A) (k : A -> M B) :
  Keeps m -> (forall x, Keeps (k x)) -> Keeps (mbind m k).
Proof.
  intros Hm Hk w. unfold mbind. specialize (Hm w).
  destruct (m w) as [[x|e s|s] w']; cbn [snd] in *; try exact Hm.
  rewrite (Hk x w'). exact Hm.
Qed.
Lemma keeps_modify (g : world -> world) : (forall w, f (g w) = f w) -> Keeps (modify g).
Proof. intros H w. apply H. Qed.
Lemma keeps_when (b : bool) (m : M unit) : Keeps m -> Keeps (when b m).
Proof. intros H. destruct b; [exact H|apply keeps_ret]. Qed.
Lemma keeps_mfor {A} (xs : list A) (k : A -> M unit) : (forall x, Keeps (k x)) -> Keeps (mfor xs k).
Proof.
  intros H. induction xs as [|x xs IH]; cbn [mfor]; [apply keeps_ret|].
  apply keeps_bind; [apply H|]. intros _. exact IH.
Qed.
(* f does not look at the story state *)
Hypothesis f_state : forall w g, f (w <| w_state ::= g |>) = f w.
Lemma keeps_mod_state (g : sstate -> sstate) : Keeps (mod_state g).
Proof. apply keeps_modify. intros w. apply f_state. Qed.
Lemma keeps_get_state : Keeps get_state.
Proof. apply keeps_gets. Qed.
Lemma keeps_m_read {A} (g : sstate -> Res A) : Keeps (m_read g).
Proof. unfold m_read. apply keeps_bind; [apply keeps_get_state|]. intros s. apply keeps_lift. Qed.
Lemma keeps_m_state_res (g : sstate -> Res sstate) : Keeps (m_state_res g).
Proof.
  unfold m_state_res. apply keeps_bind; [apply keeps_get_state|]. intros s.
  apply keeps_bind; [apply keeps_lift|]. intros s'. apply keeps_mod_state.
Qed.
Lemma keeps_m_cs_res g : Keeps (m_cs_res g).
Proof. unfold m_cs_res. apply keeps_m_state_res. Qed.
End Keeps.

#[export] Hint Resolve keeps_ret keeps_fail keeps_panic keeps_lift keeps_get keeps_gets : keeps.

Ltac keeps_step :=
  match goal with
  | |- Keeps _ (mbind _ _) => apply keeps_bind; [|intros ?]
  | |- Keeps _ (when _ _) => apply keeps_when
  | |- Keeps _ (mfor _ _) => apply keeps_mfor; intros ?
  | |- Keeps _ (modify _) => apply keeps_modify; intros []; reflexivity
  | |- Keeps _ (mod_state _) => apply keeps_mod_state; intros [] ?; reflexivity
  | |- Keeps _ (m_read _) => apply keeps_m_read; intros [] ?; reflexivity
  | |- Keeps _ (m_state_res _) => apply keeps_m_state_res; intros [] ?; reflexivity
  | |- Keeps _ (m_cs_res _) => apply keeps_m_cs_res; intros [] ?; reflexivity
  | |- Keeps _ get_state => apply keeps_get_state
  | |- Keeps _ (match ?x with _ => _ end) => destruct x
  | |- Keeps _ (if ?b then _ else _) => destruct b
  | |- Keeps _ (let '(_, _) := ?x in _) => destruct x
  | |- Keeps _ _ => solve [auto with keeps]
  end.
Ltac keeps := repeat keeps_step.
