(* Shell/EvalSummary.v — C16 in one statement: what a successful evaluate_function leaves alone. *)
From Ink.Engine Require Import Api Tie.
From Ink.Shell Require Import Keeps KeepsStep HostFrame EvalFrame Events.

Theorem successful_evaluation_frame :
  forall (I : iface) (sw : switches) (name : text) (args : option (list value)) (w w' : world) r txt,
    evaluate_function I sw name args w = (OOk (r, txt), w') ->
       ss_out (w_state w') = ss_out (w_state w)                 (* pending text and tags of the story *)
    /\ host_regs w' = host_regs w                                (* observers, bindings, handler, program *)
    /\ (exists l, w_events w' = w_events w ++ l).                (* calls into the host: only added *)
Proof.
  intros I sw name args w w' r txt E. split; [|split].
  - exact (evaluate_function_restores_output I sw name args w r txt w' E).
  - pose proof (evaluate_function_keeps_host_regs I sw name args w) as H. rewrite E in H. exact H.
  - pose proof (g_evaluate_function I sw name args w) as H. rewrite E in H. exact H.
Qed.
