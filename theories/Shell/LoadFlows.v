(* Shell/LoadFlows.v — C10 / C02: a successful load REPLACES the parked flows.  Whatever parked
   flows the live story has when load_state is called (flows created after the save was taken,
   flows the save does not know), for a save in the current format ("flows" present) a successful
   load gives exactly the world it gives without them: loading into a live story = loading into a
   story that never had those flows. *)
From Ink.Gen Require Import SaveGen.
From Ink.Engine Require Import Api Tie Save.

Section LoadFlows.
Variable sp : ssite -> bool.
Variable ssw : save_switches.

Definition with_named (v : option (list (text * flow))) (w : world) : world :=
  w <| w_state ::= fun s => s <| ss_named := v |> |>.

Lemma set_named_overwrites n v w : set_named n (with_named v w) = set_named n w.
Proof. destruct w as [? st]. destruct st. reflexivity. Qed.

Lemma lift_bind_ok {A B} (r : Res A) (k : A -> M B) w x w' :
  mbind (lift r) k w = (OOk x, w') -> exists a, r = Ok a /\ k a w = (OOk x, w').
Proof. unfold mbind, lift. destruct r; intros H; try discriminate. eexists; split; [reflexivity|exact H]. Qed.
Lemma lift_bind_run {A B} (a : A) (k : A -> M B) w : mbind (lift (Ok a)) k w = k a w.
Proof. reflexivity. Qed.

Lemma load_flows_ignores_named v j w x w' :
  jget "flows" j <> None ->
  mbind (load_flows sp ssw j) x w = (OOk tt, w') ->
  mbind (load_flows sp ssw j) x (with_named v w) = (OOk tt, w').
Proof.
  intros Hf H. unfold load_flows in *. destruct (jget "flows" j) as [fj|]; [|contradiction].
  unfold mbind at 1 in H. unfold mbind at 1.
  unfold mbind at 1 in H. unfold mbind at 1. unfold lift in *.
  destruct (or_bad "Invalid flows object" (j_as_obj fj)) as [fd| |]; try discriminate.
  unfold mbind at 1 in H. unfold mbind at 1.
  rewrite set_named_overwrites. exact H.
Qed.

Theorem successful_load_replaces_parked_flows v w j w' :
  jget "flows" j <> None ->
  load_state sp ssw w j = (OOk tt, w') ->
  load_state sp ssw (with_named v w) j = (OOk tt, w').
Proof.
  intros Hf H. unfold load_state, load_json_obj in *.
  apply lift_bind_ok in H. destruct H as [ver [Ev H]]. rewrite Ev, lift_bind_run.
  apply lift_bind_ok in H. destruct H as [u [Eu H]]. rewrite Eu, lift_bind_run.
  exact (load_flows_ignores_named v j w _ w' Hf H).
Qed.
End LoadFlows.
