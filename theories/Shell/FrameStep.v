(* Shell/FrameStep.v — every function of the interpreter (Engine/Step.v) and the
   single step of the continue loop commute with updates of the shell fields. *)
From Ink.Engine Require Import Api Tie.
From Ink.Shell Require Import Frame.

Section FrameStep.
Variables (a : bool) (r : N) (p : list N) (l : N).
Variable I : iface.
Variable sw : switches.
Notation C := (Commutes a r p l).

Lemma comm_push_eval o : C (push_eval I o).
Proof. unfold push_eval. comm. Qed.
Hint Resolve comm_push_eval : comm.

Lemma comm_pop_eval : C pop_eval.
Proof. unfold pop_eval. comm. Qed.
Hint Resolve comm_pop_eval : comm.

Lemma comm_peek_eval : C peek_eval.
Proof. unfold peek_eval. comm. Qed.
Hint Resolve comm_peek_eval : comm.

Lemma comm_pop_eval_multiple n : C (pop_eval_multiple n).
Proof. unfold pop_eval_multiple. comm. Qed.
Hint Resolve comm_pop_eval_multiple : comm.

Lemma comm_m_push_output o : C (m_push_output o).
Proof. unfold m_push_output. comm. Qed.
Hint Resolve comm_m_push_output : comm.

Lemma comm_add_error_msg m b : C (add_error_msg m b).
Proof. unfold add_error_msg. comm. Qed.
Hint Resolve comm_add_error_msg : comm.

Lemma comm_add_error m b : C (add_error m b).
Proof. unfold add_error. comm. Qed.
Hint Resolve comm_add_error : comm.

Lemma comm_visit_container cp b : C (visit_container cp b).
Proof. unfold visit_container. comm. Qed.
Hint Resolve comm_visit_container : comm.

Lemma comm_visit_changed_loop fuel : forall prevs child b, C (visit_changed_loop fuel prevs child b).
Proof. induction fuel as [|f IH]; intros; cbn [visit_changed_loop]; comm. Qed.
Hint Resolve comm_visit_changed_loop : comm.

Lemma comm_visit_changed : C visit_changed_containers_due_to_divert.
Proof. unfold visit_changed_containers_due_to_divert. comm. Qed.
Hint Resolve comm_visit_changed : comm.

Lemma comm_increment_content_pointer : C increment_content_pointer.
Proof. unfold increment_content_pointer. comm. Qed.
Hint Resolve comm_increment_content_pointer : comm.

Lemma comm_pop_callstack t : C (pop_callstack t).
Proof. unfold pop_callstack. comm. Qed.
Hint Resolve comm_pop_callstack : comm.

Lemma comm_try_exit : C try_exit_function_evaluation_from_game.
Proof. unfold try_exit_function_evaluation_from_game. comm. Qed.
Hint Resolve comm_try_exit : comm.

Lemma comm_next_content_fuel fuel : C (next_content_fuel I fuel).
Proof. induction fuel as [|f IH]; cbn [next_content_fuel]; comm. Qed.
Hint Resolve comm_next_content_fuel : comm.

Lemma comm_next_content : C (next_content I).
Proof. unfold next_content. comm. Qed.
Hint Resolve comm_next_content : comm.

Lemma comm_choose_path pa b : C (choose_path I sw pa b).
Proof. unfold choose_path. comm. Qed.
Hint Resolve comm_choose_path : comm.

Lemma comm_pop_args n : forall acc, C (pop_args n acc).
Proof. induction n as [|n IH]; intros; cbn [pop_args]; comm. Qed.
Hint Resolve comm_pop_args : comm.

Lemma comm_call_external name n : C (call_external_function I sw name n).
Proof. unfold call_external_function. comm. Qed.
Hint Resolve comm_call_external : comm.

Lemma comm_shuffle : C (next_sequence_shuffle_index I).
Proof. unfold next_sequence_shuffle_index. comm. Qed.
Hint Resolve comm_shuffle : comm.

Lemma comm_pop_tags fuel : forall tags, C (pop_tags fuel tags).
Proof. induction fuel as [|f IH]; intros; cbn [pop_tags]; comm. Qed.
Hint Resolve comm_pop_tags : comm.

Lemma comm_pop_choice_string tags : C (pop_choice_string_and_tags tags).
Proof. unfold pop_choice_string_and_tags. comm. Qed.
Hint Resolve comm_pop_choice_string : comm.

Lemma comm_process_choice cp f pa : C (process_choice I cp f pa).
Proof. unfold process_choice. comm. Qed.
Hint Resolve comm_process_choice : comm.

Lemma comm_try_follow : C (try_follow_default_invisible_choice I sw).
Proof. unfold try_follow_default_invisible_choice. comm. Qed.
Hint Resolve comm_try_follow : comm.

Lemma comm_set_in_expr b : C (set_in_expr b).
Proof. unfold set_in_expr. comm. Qed.
Hint Resolve comm_set_in_expr : comm.

Lemma comm_do_command c o : C (do_command I c o).
Proof. unfold do_command. destruct c; comm. Qed.
Hint Resolve comm_do_command : comm.

Lemma comm_perform_logic op : C (perform_logic_and_flow_control I sw op).
Proof. unfold perform_logic_and_flow_control. comm. Qed.
Hint Resolve comm_perform_logic : comm.

Lemma comm_enter_containers fuel : forall pt, C (enter_containers fuel pt).
Proof. induction fuel as [|f IH]; intros; cbn [enter_containers]; comm. Qed.
Hint Resolve comm_enter_containers : comm.

Lemma comm_take_fuel : C take_fuel.
Proof. unfold take_fuel. comm. Qed.
Hint Resolve comm_take_fuel : comm.

Lemma comm_step : C (step I sw).
Proof. unfold step. comm. Qed.
Hint Resolve comm_step : comm.

(* ---------- look-ahead machinery ---------- *)
Lemma comm_state_snapshot : C (state_snapshot sw).
Proof. unfold state_snapshot. comm. Qed.
Hint Resolve comm_state_snapshot : comm.

Lemma comm_restore : C restore_state_snapshot.
Proof. unfold restore_state_snapshot. comm. Qed.
Hint Resolve comm_restore : comm.

Lemma comm_discard : C discard_snapshot.
Proof. unfold discard_snapshot. comm. Qed.
Hint Resolve comm_discard : comm.

Lemma comm_can_continue : C m_can_continue.
Proof. unfold m_can_continue. comm. Qed.
Hint Resolve comm_can_continue : comm.

Theorem comm_continue_single_step : C (continue_single_step I sw).
Proof. unfold continue_single_step. comm. Qed.

End FrameStep.
