(* Shell/SlicingPlain.v — C08, the other half of the loop theorem: a time-limited run of the
   continue loop that does NOT pause (its budget never expired where it mattered: it reached the end
   of a line, ran out of content, hit an error or a panic) ends exactly as the unsliced loop from the
   same core state ends — same outcome, same world up to the loop's own bookkeeping (async flag,
   nesting counter, virtual clock).  Together with loop_passes_through_pause (a run that pauses is a
   prefix of the unsliced run) this covers every way a slice can end. *)
From Coq Require Import Lia.
From Ink.Engine Require Import Api Tie.
From Ink.Shell Require Import Frame FrameStep ExternalProofs Slicing.

Local Arguments force_end : simpl never.

Section SlicingPlain.
Variable I : iface.
Variable sw : switches.

Theorem loop_without_pause_is_the_plain_loop :
  forall n w r p l r' p' l' o w1,
    continue_loop I sw n (shell_upd true r p l w) = (o, w1) ->
    (o = OOk false -> m_can_continue w1 = (OOk false, w1)) ->          (* it did not pause *)
    continue_loop I sw n (shell_upd false r' p' l' w) = (o, shell_upd false r' p' l' w1).
Proof.
  induction n as [|f IH]; intros w r p l r' p' l' o w1 Hrun Hnp.
  - cbn in Hrun. cbn. unfold panic in *. inversion Hrun; subst. rewrite shell_upd_upd. reflexivity.
  - rewrite (continue_loop_S I sw) in Hrun. rewrite (continue_loop_S I sw).
    pose proof (comm_continue_single_step true r p l I sw w) as Hs.
    pose proof (comm_continue_single_step false r' p' l' I sw w) as Hu.
    destruct (continue_single_step I sw w) as [[ends|k e|site] w0] eqn:Ecss.
    + rewrite Hs in Hrun. rewrite Hu. destruct ends.
      * inversion Hrun; subst. rewrite shell_upd_upd. reflexivity.
      * unfold mbind at 1 in Hrun. unfold mbind at 1 in Hrun. unfold gets at 1 in Hrun.
        rewrite shell_upd_async in Hrun.
        destruct (clock_tick_shell r p l w0) as (t & p2 & l2 & Ht). rewrite Ht in Hrun.
        unfold mbind at 1. unfold mbind at 1. unfold gets at 1. rewrite shell_upd_async.
        unfold ret at 1. unfold mbind at 1. rewrite can_continue_shell.
        destruct (can_continue_pure w0) as [oc Epure]. rewrite Epure.
        destruct t.
        -- (* the clock ticked: by hypothesis the story could not continue there *)
           unfold ret in Hrun. inversion Hrun; subst o w1; clear Hrun.
           specialize (Hnp eq_refl). rewrite can_continue_shell in Hnp. rewrite Epure in Hnp.
           assert (Hoc : oc = OOk false) by congruence. rewrite Hoc. cbn [negb]. unfold ret.
           rewrite shell_upd_upd. reflexivity.
        -- unfold mbind at 1 in Hrun. rewrite can_continue_shell in Hrun. rewrite Epure in Hrun.
           destruct oc as [can|k e|site].
           ++ destruct can; cbn [negb] in *.
              ** exact (IH w0 r p2 l2 r' p' l' o w1 Hrun Hnp).
              ** unfold ret in *. inversion Hrun; subst. rewrite shell_upd_upd. reflexivity.
           ++ inversion Hrun; subst. rewrite shell_upd_upd. reflexivity.
           ++ inversion Hrun; subst. rewrite shell_upd_upd. reflexivity.
    + rewrite Hs in Hrun. rewrite Hu.
      pose proof (comm_add_error_msg true r p l e false w0) as Ha.
      pose proof (comm_add_error_msg false r' p' l' e false w0) as Hb.
      rewrite Ha in Hrun. rewrite Hb.
      destruct (add_error_msg e false w0) as [[[]|k2 e2|s2] w2]; inversion Hrun; subst;
        rewrite shell_upd_upd; reflexivity.
    + rewrite Hs in Hrun. rewrite Hu. inversion Hrun; subst. rewrite shell_upd_upd. reflexivity.
Qed.
End SlicingPlain.
