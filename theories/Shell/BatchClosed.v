(* Shell/BatchClosed.v — C11: between host calls the observation batch is closed.
   continue_internal opens the variable-observation batch at the start of an outermost continue and
   closes it (reporting every changed variable once, with its final value: complete_reports_final_values)
   when the line is finished; no interpreter function opens or closes it (Shell/BatchShape.v).  Hence

       Inv5 w :=  no time-limited continue pending  ->  batch closed (not observing, no changed-names set)

   is preserved, together with "nesting counter = 0", by every story operation that does not panic: in
   every reachable world between host calls nothing is left unreported, and a variable the host then sets
   is notified immediately (the hypothesis `vs_batch = false` of host_set_notifies_once holds). *)
From Ink.Engine Require Import Api Tie.
From Ink.Shell Require Import Keeps KeepsStep HostFrame NoErr Invariant Balance Slicing ExternalProofs ResetProofs
  BetweenCalls BatchShape PatchInv.

Definition closed (w : world) : Prop := wbshape w = (false, false).
Definition I5 (x : bool * (bool * bool)) : Prop := fst x = false -> snd x = (false, false).
Definition ab (w : world) := (w_async w, wbshape w).
Definition Inv5 (w : world) : Prop := I5 (ab w).
Definition rab (w : world) := (w_rcc w, ab w).
Definition P05 (w : world) : Prop := w_rcc w = 0%N /\ Inv5 w.

Lemma k5 {A} (m : M A) : Keeps ab m -> triple Inv5 m (fun _ => Inv5) Inv5.
Proof.
  intros Hk w Hw. specialize (Hk w). unfold Inv5 in *.
  destruct (m w) as [[a|k e|s] w']; cbn [snd] in Hk; try (rewrite Hk; exact Hw). exact Logic.I.
Qed.
Lemma k05 {A} (m : M A) : Keeps rab m -> triple P05 m (fun _ => P05) Inv5.
Proof.
  intros Hk w [H0 H5]. specialize (Hk w). unfold P05, Inv5 in *.
  destruct (m w) as [[a|k e|s] w']; cbn [snd] in Hk; try exact Logic.I;
    pose proof (f_equal fst Hk) as Hr; pose proof (f_equal snd Hk) as Ha; cbn [fst snd rab] in Hr, Ha.
  - split; [congruence|]. rewrite Ha. exact H5.
  - rewrite Ha. exact H5.
Qed.

Ltac fld := let w0 := fresh "w0" in intros w0 ?; destruct w0; reflexivity.

Section BatchClosed.
Variable I : iface.
Variable sw : switches.
Hypothesis Hfirst : sw_cont_check_first sw = true.

Hint Resolve ne_can_continue ne_restore ne_end_of_content ne_clock_tick ne_add_error_msg ne_add_error
  ne_continue_loop ner_vs_complete_observation : noerr.

(* ---------- Keeps facts ---------- *)
Lemma kab_can : Keeps ab m_can_continue.
Proof. apply keeps_pair; [apply hk_can_continue; fld|apply kb_can_continue]. Qed.
Lemma krab_can : Keeps rab m_can_continue.
Proof. apply keeps_pair; [apply hk_can_continue; fld|apply kab_can]. Qed.
Lemma kb_deliver : Keeps wbshape (deliver_errors sw).
Proof. unfold deliver_errors, reset_errors, reset_warnings, log_event. kbt. Qed.
Lemma kab_deliver : Keeps ab (deliver_errors sw).
Proof. apply keeps_pair; [apply hk_deliver; fld|apply kb_deliver]. Qed.
Lemma kab_notify n x : Keeps ab (notify_variable_changed n x).
Proof.
  apply keeps_pair; [apply hk_notify; fld|].
  unfold notify_variable_changed, log_event. kbt.
Qed.
Lemma kab_dec b : Keeps ab (when b (modify (fun w => w <| w_rcc ::= N.pred |>))).
Proof. apply keeps_when, keeps_modify. intros []; reflexivity. Qed.

(* ---------- the finishing block closes the batch of an outermost continue ---------- *)
Definition R1 (w : world) : Prop := w_rcc w = 1%N.
Lemma r1_keeps {A} (m : M A) : Keeps w_rcc m -> triple R1 m (fun _ => R1) (fun _ => True).
Proof. intros H. exact (keeps_triple_genT w_rcc m (fun x => x = 1%N) H). Qed.

Lemma complete_closes v m v' : vs_complete_observation v = Ok (m, v') ->
  vs_batch v' = false /\ vs_changed v' = None.
Proof.
  unfold vs_complete_observation. intros E.
  destruct (foldM _ _ _); cbn [bind] in E; try discriminate. injection E as _ <-. split; reflexivity.
Qed.

Lemma finish_block_closes (E : world -> Prop) :
  triple R1 finish_block (fun _ w => w_async w = false /\ closed w) E.
Proof.
  apply (ne_triple _ _ _ E (fun _ => True)).
  { unfold finish_block. ne; try apply ne_restore; try apply ne_can_continue; try apply ne_end_of_content.
    all: try apply ner_vs_complete_observation. }
  unfold finish_block.
  eapply triple_bind; [apply r1_keeps, keeps_get|]. intros w3. cbn beta.
  eapply triple_bind.
  { apply r1_keeps. destruct (w_snapshot w3); [apply hk_restore; fld|apply keeps_ret]. }
  intros ?.
  eapply triple_bind; [apply r1_keeps, hk_can_continue; fld|]. intros can2.
  eapply triple_bind; [apply r1_keeps, keeps_when, hk_end_of_content; fld|]. intros ?.
  eapply triple_bind; [apply r1_keeps, keeps_mod_state; fld|]. intros ?.
  eapply triple_bind; [apply r1_keeps, keeps_modify; intros []; reflexivity|]. intros ?.
  eapply triple_bind; [apply triple_get|]. intros w4. cbn beta.
  intros w [Heq Hr]. subst w4. unfold R1 in Hr. rewrite Hr. cbn [N.eqb Pos.eqb].
  unfold mbind at 1. unfold mbind at 1. unfold get_state, gets. unfold mbind at 1. unfold lift.
  destruct (vs_complete_observation (ss_vars (w_state w))) as [[m v']| |] eqn:Ec; try exact Logic.I.
  destruct (complete_closes _ _ _ Ec) as [Hb Hc].
  cbn. destruct w as [st s]. destruct s. cbn in *. unfold closed, wbshape, bshape. cbn.
  rewrite Hb, Hc. split; reflexivity.
Qed.

(* ---------- continue_internal ---------- *)
Theorem continue_internal_inv5 limited :
  triple P05 (continue_internal I sw limited) (fun _ => Inv5) Inv5.
Proof.
  unfold continue_internal. rewrite Hfirst. cbn [negb andb].
  eapply triple_bind; [apply k05, keeps_get|]. intros w00. cbn beta.
  eapply triple_bind; [apply k05, krab_can|]. intros can0.
  destruct (negb (w_async w00) && negb can0).
  { intros w Hw. exact (proj2 Hw). }
  (* the counter goes to 1; from here to the finishing block nothing can leave with an Err *)
  eapply (triple_bind _ _ (fun _ => R1)).
  { apply triple_modify. intros w [H0 _]. unfold R1. destruct w; cbn in *. rewrite H0. reflexivity. }
  intros ?.
  eapply triple_bind; [apply (ne_triple _ _ _ _ (fun _ => True)); [solve [ne]|apply r1_keeps, keeps_get]|]. intros w. cbn beta.
  eapply triple_bind.
  { apply (ne_triple _ _ _ _ (fun _ => True)); [solve [ne]|]. apply r1_keeps.
    destruct (negb (w_async w)).
    - apply keeps_bind; [apply keeps_modify; intros []; reflexivity|]. intros ?.
      apply keeps_bind; [apply hk_can_continue; fld|]. intros can.
      apply keeps_bind; [apply keeps_mod_state; fld|]. intros ?.
      apply keeps_bind; [apply keeps_get|]. intros w1.
      apply keeps_when, keeps_mod_state; fld.
    - destruct (negb limited); [apply keeps_modify; intros []; reflexivity|apply keeps_ret]. }
  intros ?.
  eapply triple_bind; [apply (ne_triple _ _ _ _ (fun _ => True)); [solve [ne]|apply r1_keeps, keeps_modify; intros []; reflexivity]|]. intros ?.
  eapply triple_bind; [apply (ne_triple _ _ _ _ (fun _ => True)); [solve [ne]|apply r1_keeps, keeps_get]|]. intros w2. cbn beta.
  eapply (triple_bind _ _ (fun ends w => R1 w /\ LoopOut I sw ends w)).
  { apply (ne_triple _ _ _ _ (fun _ => True)); [apply ne_continue_loop|].
    intros w0 H0.
    pose proof (hk_continue_loop I sw w_rcc ltac:(fld) ltac:(fld) ltac:(fld) ltac:(fld) ltac:(fld) ltac:(fld) ltac:(fld)
                  (step_budget w2) w0) as Hk.
    destruct (continue_loop I sw (step_budget w2) w0) as [[ends|k e|s] w'] eqn:El; try exact Logic.I.
    cbn [snd] in Hk. split; [unfold R1 in *; congruence|]. exists (step_budget w2), w0. exact El. }
  intros ends.
  eapply (triple_bind _ _ (fun can w => (R1 w /\ LoopOut I sw ends w) /\ m_can_continue w = (OOk can, w))).
  { apply (ne_triple _ _ _ _ (fun w => R1 w /\ LoopOut I sw ends w)); [apply ne_can_continue|].
    apply triple_pure. apply can_continue_pure. }
  intros can.
  eapply (triple_bind _ _ (fun _ => Inv5)).
  { destruct ends; cbn [orb].
    - eapply triple_weaken; [apply (finish_block_closes Inv5)|intros w0 H; exact (proj1 (proj1 H))
                            |intros xx w0 [Ha Hc] _; exact Hc|intros w0 H; exact H].
    - destruct can; cbn [negb].
      + intros w0 [[_ [n [wl Hl]]] Hc]. cbn. intros Ha. cbn in Ha.
        rewrite (loop_unfinished_async I sw n wl w0 Hl Hc) in Ha. discriminate.
      + eapply triple_weaken; [apply (finish_block_closes Inv5)|intros w0 H; exact (proj1 (proj1 H))
                              |intros xx w0 [Ha Hc] _; exact Hc|intros w0 H; exact H]. }
  intros changed.
  eapply triple_bind; [apply k5, kab_dec|]. intros ?.
  eapply triple_bind; [apply k5, kab_deliver|]. intros ?.
  eapply triple_bind; [apply k5, kab_dec|]. intros ?.
  destruct changed as [m|]; [|apply k5, keeps_ret].
  apply k5. apply keeps_mfor. intros kv. apply kab_notify.
Qed.
End BatchClosed.

(* ---------- every story operation ---------- *)
Lemma triple_conj {A} (P1 P2 : world -> Prop) (m : M A) (Q1 Q2 : A -> world -> Prop) (E1 E2 : world -> Prop) :
  triple P1 m Q1 E1 -> triple P2 m Q2 E2 ->
  triple (fun w => P1 w /\ P2 w) m (fun x w => Q1 x w /\ Q2 x w) (fun w => E1 w /\ E2 w).
Proof.
  intros H1 H2 w [Hp1 Hp2]. specialize (H1 w Hp1). specialize (H2 w Hp2).
  destruct (m w) as [[a|k e|s] w']; try exact Logic.I; split; assumption.
Qed.

Section AllOps5.
Variable I : iface.
Variable sw : switches.
Hypothesis Hfirst : sw_cont_check_first sw = true.
Hypothesis Hdec : sw_counter_dec_first sw = true.

Definition Pres5 {A} (m : M A) : Prop := triple P05 m (fun _ => P05) Inv5.
Lemma p5_keeps {A} (m : M A) : Keeps rab m -> Pres5 m.
Proof. apply k05. Qed.
Lemma p5_bind {A B} (m : M A) (f : A -> M B) : Pres5 m -> (forall x, Pres5 (f x)) -> Pres5 (mbind m f).
Proof. intros Hm Hf. eapply triple_bind; [apply Hm|]. intros x. apply Hf. Qed.

Lemma p5_ci limited : Pres5 (continue_internal I sw limited).
Proof.
  eapply triple_weaken; [exact (triple_conj _ _ _ _ _ _ _ (continue_internal_balanced I sw Hfirst Hdec limited 0%N)
                                  (continue_internal_inv5 I sw Hfirst limited))| | |].
  - intros w [H0 H5]. split; [exact H0|split; assumption].
  - intros x w [H0 H5]. split; assumption.
  - intros w [_ H5]. exact H5.
Qed.

(* Keeps rab from its three components *)
Lemma krab3 {A} (m : M A) : Keeps w_rcc m -> Keeps w_async m -> Keeps wbshape m -> Keeps rab m.
Proof. intros H1 H2 H3. apply keeps_pair; [exact H1|apply keeps_pair; assumption]. Qed.

Lemma kb_if_async : Keeps wbshape if_async_we_cant.
Proof. unfold if_async_we_cant. kbt. Qed.
Lemma krab_if_async : Keeps rab if_async_we_cant.
Proof. apply krab3; [apply hk_if_async|apply hk_if_async|apply kb_if_async]. Qed.
Lemma kb_validate : Keeps wbshape validate_external_bindings.
Proof. unfold validate_external_bindings. kbt. Qed.
Lemma krab_validate : Keeps rab validate_external_bindings.
Proof. apply krab3; [apply hk_validate; fld|apply hk_validate; fld|apply kb_validate]. Qed.
Lemma krab_can' : Keeps rab m_can_continue.
Proof. apply krab3; [apply hk_can_continue; fld|apply hk_can_continue; fld|apply kb_can_continue]. Qed.

Lemma p5_continue_async l : Pres5 (continue_async I sw l).
Proof.
  unfold continue_async, cont_internal. apply p5_bind; [apply p5_keeps, keeps_gets|]. intros v.
  apply p5_bind; [apply p5_keeps, keeps_when, krab_validate|]. intros ?. apply p5_ci.
Qed.
Lemma p5_story_cont : Pres5 (story_cont I sw).
Proof.
  unfold story_cont. apply p5_bind; [apply p5_continue_async|]. intros ?.
  apply p5_keeps. unfold get_current_text.
  apply keeps_bind; [apply krab_if_async|]. intros ?. apply keeps_bind; [apply keeps_gets|]. intros s. apply keeps_ret.
Qed.
Lemma p5_api_cont : Pres5 (api_cont I sw).
Proof.
  unfold api_cont. apply p5_bind; [apply p5_story_cont|]. intros t.
  apply p5_keeps. apply keeps_bind; [apply keeps_modify; intros []; reflexivity|]. intros ?. apply keeps_ret.
Qed.
Lemma p5_cont_max_fuel fuel : forall acc, Pres5 (continue_maximally_fuel I sw fuel acc).
Proof.
  induction fuel as [|n IH]; intros acc; cbn [continue_maximally_fuel]; [apply p5_keeps, keeps_fail|].
  apply p5_bind; [apply p5_keeps, krab_can'|]. intros can. destruct can; [|apply p5_keeps, keeps_ret].
  apply p5_bind; [apply p5_story_cont|]. intros t. apply IH.
Qed.
Lemma p5_continue_maximally : Pres5 (continue_maximally I sw).
Proof.
  unfold continue_maximally. apply p5_bind; [apply p5_keeps, krab_if_async|]. intros ?.
  apply p5_bind; [apply p5_keeps, keeps_get|]. intros w. apply p5_cont_max_fuel.
Qed.

(* the operations that only use the interpreter's state functions: the three components separately *)
Lemma kb_choose i : Keeps wbshape (choose_choice_index I sw i).
Proof.
  unfold choose_choice_index, get_current_choices.
  apply keeps_bind.
  { apply keeps_bind; [apply keeps_gets|]. intros s. apply keeps_bind; [apply kb_can_continue|]. intros can.
    destruct can; [apply keeps_ret|]. apply keeps_bind; [|intros ?; apply keeps_ret].
    apply kb_mod_state. intros s0. apply bsh_set_choices. }
  intros cs. destruct (nth_error cs i) as [c|]; [|apply keeps_fail].
  destruct (ch_thread c); [|apply keeps_panic].
  apply keeps_bind; [apply kb_mod_state; intros s0; apply bsh_set_cs|]. intros ?. apply kb_choose_path.
Qed.
Lemma p5_choose i : Pres5 (choose_choice_index I sw i).
Proof. apply p5_keeps, krab3; [apply hk_choose_choice_index; fld|apply hk_choose_choice_index; fld|apply kb_choose]. Qed.

Lemma kb_validate_args a : Keeps wbshape (validate_arguments a).
Proof. unfold validate_arguments. apply keeps_mfor. intros x. destruct x; try apply keeps_ret; apply keeps_fail. Qed.
Lemma kb_pass_args a : Keeps wbshape (pass_arguments I a).
Proof. unfold pass_arguments. apply keeps_mfor. intros x. destruct x; try apply kb_push_eval; apply keeps_fail. Qed.
Lemma kb_path p r a : Keeps wbshape (choose_path_string I sw p r a).
Proof.
  unfold choose_path_string.
  apply keeps_bind; [apply kb_if_async|]. intros ?.
  apply keeps_bind.
  { apply keeps_when. apply keeps_bind; [apply keeps_gets|]. intros root.
    apply keeps_bind; [apply keeps_lift|]. intros ?. apply kb_validate_args. }
  intros ?.
  apply keeps_bind.
  { destruct r.
    - apply keeps_bind; [apply kb_if_async|]. intros ?. apply kb_m_state_res, bskr_force_end.
    - apply keeps_bind; [apply kb_m_read|]. intros e. destruct (pushpop_eqb _ _); [apply keeps_fail|apply keeps_ret]. }
  intros ?.
  apply keeps_bind; [apply kb_pass_args|]. intros ?. apply kb_choose_path.
Qed.
Lemma p5_path p r a : Pres5 (choose_path_string I sw p r a).
Proof. apply p5_keeps, krab3; [apply hk_choose_path_string; fld|apply hk_choose_path_string; fld|apply kb_path]. Qed.

Lemma p5_eval_loop fuel : forall acc, Pres5 (eval_loop I sw fuel acc).
Proof.
  induction fuel as [|n IH]; intros acc; cbn [eval_loop]; [apply p5_keeps, keeps_fail|].
  apply p5_bind; [apply p5_keeps, krab_can'|]. intros can. destruct can; [|apply p5_keeps, keeps_ret].
  apply p5_bind; [apply p5_story_cont|]. intros t. apply IH.
Qed.
Lemma kb_pop_down_to fuel : forall h r, Keeps wbshape (pop_down_to fuel h r).
Proof.
  induction fuel as [|n IH]; intros h r; cbn [pop_down_to]; [apply keeps_ret|].
  apply keeps_bind; [apply keeps_gets|]. intros s. destruct (h <? nlength (ss_eval s))%N; [|apply keeps_ret].
  apply keeps_bind; [apply kb_pop_eval|]. intros o. apply IH.
Qed.
Lemma kb_complete_fn : Keeps wbshape complete_function_evaluation_from_game.
Proof.
  unfold complete_function_evaluation_from_game.
  apply keeps_bind; [apply kb_m_read|]. intros e.
  destruct (negb (pushpop_eqb (el_type e) PFunctionEvalFromGame)); [apply keeps_fail|].
  apply keeps_bind; [apply keeps_gets|]. intros s.
  apply keeps_bind; [apply kb_pop_down_to|]. intros r.
  apply keeps_bind; [apply kb_m_cs_res|]. intros ?.
  destruct r as [[| [] | | | | | | | | | | |]|]; apply keeps_ret.
Qed.
Lemma krab_state_write {A} (m : M A) : (forall X (obs : world -> X), (forall w g, obs (w <| w_state ::= g |>) = obs w) -> Keeps obs m) ->
  Keeps wbshape m -> Keeps rab m.
Proof. intros H Hb. apply krab3; [apply H; fld|apply H; fld|exact Hb]. Qed.

Lemma p5_eval n a : Pres5 (evaluate_function I sw n a).
Proof.
  unfold evaluate_function.
  apply p5_bind; [apply p5_keeps, krab_if_async|]. intros ?.
  destruct (match trim n with [] => true | _ => false end); [apply p5_keeps, keeps_fail|].
  apply p5_bind; [apply p5_keeps, keeps_gets|]. intros root.
  destruct (knot_container_with_name root n) as [fp|]; [|apply p5_keeps, keeps_fail].
  apply p5_bind.
  { apply p5_keeps, keeps_when, krab3; [apply hk_validate_args|apply hk_validate_args|apply kb_validate_args]. }
  intros ?.
  apply p5_bind; [apply p5_keeps, keeps_gets|]. intros s.
  apply p5_bind.
  { apply p5_keeps, krab_state_write; [intros X obs H; apply keeps_mod_state, H|apply kb_mod_state, bsk_reset_output]. }
  intros ?.
  apply p5_bind.
  { apply p5_keeps, krab_state_write; [intros X obs H; apply keeps_m_cs_res, H|apply kb_m_cs_res]. }
  intros ?.
  apply p5_bind.
  { apply p5_keeps, krab_state_write; [intros X obs H; apply keeps_m_state_res, H|apply kb_m_state_res, bskr_set_cur_pointer]. }
  intros ?.
  apply p5_bind.
  { apply p5_keeps, krab3; [apply hk_pass_args; fld|apply hk_pass_args; fld|apply kb_pass_args]. }
  intros ?.
  apply p5_bind; [apply p5_keeps, keeps_get|]. intros w.
  apply p5_bind; [apply p5_eval_loop|]. intros txt.
  apply p5_bind.
  { apply p5_keeps, krab_state_write; [intros X obs H; apply keeps_mod_state, H|apply kb_mod_state, bsk_reset_output]. }
  intros ?.
  apply p5_bind.
  { apply p5_keeps, krab3; [apply hk_complete_fn; fld|apply hk_complete_fn; fld|apply kb_complete_fn]. }
  intros r0. apply p5_keeps, keeps_ret.
Qed.

Lemma bsk_switch_flow_internal name : BSK (switch_flow_internal name).
Proof. intros s. unfold switch_flow_internal. destruct (text_eqb _ _); [reflexivity|]. now rewrite bsh_named, bsh_flow. Qed.
Lemma bsk_switch_default_internal : BSK switch_to_default_flow_internal.
Proof. intros s. unfold switch_to_default_flow_internal. destruct (ss_named s); [apply bsk_switch_flow_internal|reflexivity]. Qed.

Lemma kb_switch n : Keeps wbshape (switch_flow n).
Proof.
  unfold switch_flow. apply keeps_bind; [apply kb_if_async|]. intros ?.
  apply kb_mod_state, bsk_switch_flow_internal.
Qed.
Lemma p5_switch n : Pres5 (switch_flow n).
Proof. apply p5_keeps, krab3; [apply hk_switch_flow; fld|apply hk_switch_flow; fld|apply kb_switch]. Qed.
Lemma kb_switch_default : Keeps wbshape (switch_to_default_flow sw).
Proof.
  unfold switch_to_default_flow. apply keeps_bind; [apply keeps_gets|]. intros a.
  destruct (sw_guard_switch_default sw && a); [apply keeps_ret|apply kb_mod_state, bsk_switch_default_internal].
Qed.
Lemma p5_switch_default : Pres5 (switch_to_default_flow sw).
Proof. apply p5_keeps, krab3; [apply hk_switch_default; fld|apply hk_switch_default; fld|apply kb_switch_default]. Qed.
Lemma kb_remove n : Keeps wbshape (remove_flow sw n).
Proof.
  unfold remove_flow.
  apply keeps_bind; [apply keeps_when, kb_if_async|]. intros ?.
  destruct (text_eqb n DEFAULT_FLOW); [apply keeps_fail|].
  apply keeps_bind.
  { apply kb_mod_state. intros s. destruct (text_eqb _ _); [apply bsk_switch_default_internal|reflexivity]. }
  intros ?. apply keeps_bind; [apply keeps_gets|]. intros s.
  destruct (ss_named s).
  - apply kb_mod_state. intros s0. apply bsh_named.
  - destruct (sw_remove_flow_checked sw); [apply keeps_ret|apply keeps_panic].
Qed.
Lemma p5_remove n : Pres5 (remove_flow sw n).
Proof. apply p5_keeps, krab3; [apply hk_remove_flow; fld|apply hk_remove_flow; fld|apply kb_remove]. Qed.

Lemma bsh_vs_host_set s name x b s' : vs_host_set I s name x = Ok (b, s') -> bshape s' = bshape s.
Proof. unfold vs_host_set. destruct (negb _); [discriminate|]. apply bsh_set_global. Qed.
Lemma kb_set_variable n x : Keeps wbshape (set_variable I sw n x).
Proof.
  unfold set_variable. apply keeps_bind; [apply keeps_when, kb_if_async|]. intros ?.
  intros w. unfold mbind at 1. unfold get_state, gets. unfold mbind at 1. unfold m_defs, gets.
  unfold mbind at 1. unfold lift.
  destruct (vs_host_set I (w_state w) n x) as [[b s']| |] eqn:E; try reflexivity.
  pose proof (bsh_vs_host_set _ _ _ _ _ E) as Hs.
  assert (T : Keeps wbshape (when b (notify_variable_changed n x))).
  { apply keeps_when. unfold notify_variable_changed, log_event. kbt. }
  unfold mbind, mod_state, modify. rewrite T. unfold wbshape. destruct w; cbn in *. exact Hs.
Qed.
Lemma p5_set_variable n x : Pres5 (set_variable I sw n x).
Proof. apply p5_keeps, krab3; [apply hk_set_variable; fld|apply hk_set_variable; fld|apply kb_set_variable]. Qed.

Lemma bsk_snapshot_defaults : BSK (fun s => s <| ss_vars ::= vs_snapshot_defaults |>).
Proof. intros s. destruct s as [fl se va]. destruct va. reflexivity. Qed.
Lemma p5_reset_globals : Pres5 (reset_globals I sw).
Proof.
  unfold reset_globals, cont_internal.
  apply p5_bind; [apply p5_keeps, keeps_gets|]. intros root.
  apply p5_bind.
  2:{ intros ?. apply p5_keeps, krab_state_write; [intros X obs H; apply keeps_mod_state, H|apply kb_mod_state, bsk_snapshot_defaults]. }
  destruct (lookup_named root (T "global decl")); [|apply p5_keeps, keeps_ret].
  apply p5_bind.
  { apply p5_keeps, krab_state_write; [intros X obs H; apply keeps_m_read|apply kb_m_read]. }
  intros orig.
  apply p5_bind.
  { apply p5_keeps, krab3; [apply kp_choose_path; fld|apply kp_choose_path; fld|apply kb_choose_path]. }
  intros ?.
  apply p5_bind; [apply p5_ci|]. intros ?.
  apply p5_keeps, krab_state_write; [intros X obs H; apply keeps_m_state_res, H|apply kb_m_state_res, bskr_set_cur_pointer].
Qed.
Lemma p5_reset seed : Pres5 (reset_state I sw seed).
Proof.
  unfold reset_state. intros w [H0 H5].
  unfold mbind at 1. unfold if_async_we_cant, mbind, gets.
  destruct (w_async w) eqn:Ea; [exact H5|]. cbn [ret].
  assert (Hi : P05 (w <| w_state := sstate_new seed |>)).
  { split; [destruct w; exact H0|]. intros _. destruct w; reflexivity. }
  unfold mod_state, modify.
  exact (p5_reset_globals _ Hi).
Qed.

Theorem story_ops_preserve_inv5 op : Pres5 (run_story_op I sw op).
Proof.
  destruct op; cbn [run_story_op].
  - apply p5_bind; [apply p5_api_cont|intros; apply p5_keeps, keeps_ret].
  - apply p5_bind; [apply p5_continue_maximally|intros; apply p5_keeps, keeps_ret].
  - apply p5_continue_async.
  - apply p5_choose.
  - apply p5_path.
  - apply p5_bind; [apply p5_eval|intros; apply p5_keeps, keeps_ret].
  - apply p5_set_variable.
  - apply p5_switch.
  - apply p5_switch_default.
  - apply p5_remove.
  - apply p5_reset.
Qed.

(* THE INVARIANT, for every history of story operations none of which panicked *)
Theorem batch_closed_between_calls : forall ops w,
  P05 w -> no_panic I sw ops w -> P05 (run_story_ops I sw ops w).
Proof.
  induction ops as [|op r IH]; intros w Hw Hnp; cbn [run_story_ops]; [exact Hw|].
  destruct Hnp as [Hp Hr]. apply IH; [|exact Hr].
  pose proof (story_ops_preserve_inv5 op w Hw) as Hi.
  pose proof (story_ops_balanced I sw Hfirst Hdec op 0%N w (proj1 Hw)) as Hb.
  destruct (run_story_op I sw op w) as [[x|k e|s] w'] eqn:E; cbn [snd fst] in *.
  - exact Hi.
  - split; assumption.
  - exfalso. exact (Hp s eq_refl).
Qed.

Lemma p05_world_init st seed fuel : P05 (world_init st seed fuel).
Proof. split; [reflexivity|]. intros _. reflexivity. Qed.

(* what it says, unfolded: from construction on, whenever the story is between host calls with no
   time-limited continue pending, the batch is closed and no changed-variable set is pending *)
Corollary reachable_worlds_have_no_pending_observation : forall st seed fuel ops,
  no_panic I sw ops (world_init st seed fuel) ->
  let w := run_story_ops I sw ops (world_init st seed fuel) in
  w_async w = false ->
  vs_batch (ss_vars (w_state w)) = false /\ vs_changed (ss_vars (w_state w)) = None.
Proof.
  intros st seed fuel ops Hnp w Ha.
  destruct (batch_closed_between_calls ops _ (p05_world_init st seed fuel) Hnp) as [_ H5].
  specialize (H5 Ha). fold w in H5. unfold ab, wbshape, bshape in H5. cbn [snd] in H5.
  injection H5 as Hb Hc. split; [exact Hb|]. destruct (vs_changed _); [discriminate|reflexivity].
Qed.
End AllOps5.

(* ---------- consequence for the host: a variable set between calls is notified immediately ---------- *)
From Ink.Shell Require Import ObserverProofs.
Theorem host_set_notifies_in_every_reachable_world :
  forall (I : iface) st seed fuel ops (name : text) (v : value) s' obs,
    no_panic I sw_now ops (world_init st seed fuel) ->
    let w := run_story_ops I sw_now ops (world_init st seed fuel) in
    w_async w = false ->
    assoc_mem name (vs_defaults (ss_vars (w_state w))) = true ->
    set_global I (w_state w) name v = Ok (true, s') ->
    assoc name (w_observers w) = Some obs ->
    set_variable I sw_now name v w
    = (OOk tt, (w <| w_state := s' |>) <| w_events ::= fun evs => evs ++ map (fun o => EvObs o name v) obs |>).
Proof.
  intros I st seed fuel ops name v s' obs Hnp w Ha Hd Hs Ho.
  destruct (reachable_worlds_have_no_pending_observation I sw_now now_cont_check_first now_counter_dec_first
              st seed fuel ops Hnp Ha) as [Hb _].
  exact (host_set_notifies_once I name v w s' obs Ha Hd Hb Hs Ho).
Qed.
