(* Shell/ExternalProofs.v — C12: Engine/Step.v::call_external_function. *)
From Ink.Engine Require Import Api Tie.

Section Externals.
Variable I : iface.
Notation sw := sw_now.

Ltac munfold :=
  repeat (progress (unfold m_can_continue, if_async_we_cant, m_read, get_state, mod_state, when,
                           mbind, ret, fail, get, gets, put, modify, lift in *)).

Local Arguments in_string_evaluation : simpl never.

(* a function bound as not look-ahead-safe never runs while a look-ahead snapshot
   exists: the step only raises the rewind flag and leaves everything else alone *)
Lemma unsafe_never_speculative (name : text) (nargs : Z) (w : world) def snap :
  assoc name (w_externals w) = Some def -> ex_safe def = false ->
  in_string_evaluation (w_state w) = false ->
  w_snapshot w = Some snap ->
  call_external_function I sw name nargs w = (OOk tt, w <| w_saw_unsafe := true |>).
Proof.
  intros Hd Hs Hn Hsn. unfold call_external_function. munfold. rewrite Hd, Hs. cbn.
  rewrite Hn. cbn. rewrite Hsn. reflexivity.
Qed.

(* recording an error keeps the event log and leaves the error readable *)
Local Arguments force_end : simpl never.

Lemma force_end_errors s s' : force_end s = Ok s' -> ss_errors s' = ss_errors s.
Proof.
  unfold force_end. intros H.
  destruct (ss_set_cur_pointer _ ptr_null) as [s2| |] eqn:E2; cbn in H; try discriminate.
  destruct (ss_set_prev_pointer s2 ptr_null) as [s3| |] eqn:E3; cbn in H; try discriminate.
  inversion H; subst; clear H.
  unfold ss_set_prev_pointer in E3. destruct (cs_cur_thread (ss_cs s2)); cbn in E3; try discriminate.
  inversion E3; subst; clear E3.
  unfold ss_set_cur_pointer in E2.
  destruct (cs_upd_cur_element _ _) as [cs'| |]; cbn in E2; try discriminate.
  inversion E2; subst; clear E2. destruct s. reflexivity.
Qed.

Lemma add_error_keeps_events (m : text) (w : world) o w' :
  add_error_msg m false w = (o, w') ->
  w_events w' = w_events w /\ (o = OOk tt -> ss_errors (w_state w') <> []).
Proof.
  unfold add_error_msg, m_state_res. munfold.
  destruct (ss_cur_pointer (w_state w)) as [ptr| |]; cbn;
    try (intros H; inversion H; subst; split; [reflexivity|discriminate]).
  destruct (ptr_path (root_of w) ptr) as [op| |]; cbn;
    try (intros H; inversion H; subst; split; [reflexivity|discriminate]).
  match goal with |- context [force_end ?s] => destruct (force_end s) as [s2| |] eqn:F end;
    intros H; inversion H; subst; clear H; (split; [destruct w; reflexivity|]); try discriminate.
  intros _. cbn. apply force_end_errors in F. destruct w as [st s]; destruct s; cbn in *. rewrite F.
  unfold set; cbn. intros Hc. apply app_eq_nil in Hc. destruct Hc; discriminate.
Qed.

(* ... and is refused with an error (the story ends) inside string evaluation, without being called *)
Lemma unsafe_refused_in_string (name : text) (nargs : Z) (w : world) def o w' :
  assoc name (w_externals w) = Some def -> ex_safe def = false ->
  in_string_evaluation (w_state w) = true ->
  call_external_function I sw name nargs w = (o, w') ->
  w_events w' = w_events w /\ (o = OOk tt -> ss_errors (w_state w') <> []).
Proof.
  intros Hd Hs Hn. unfold call_external_function. unfold mbind at 1. unfold get at 1.
  rewrite Hd, Hs. cbn [negb andb]. rewrite ?now_ext_guard_fixed.
  replace (if sw_ext_guard_fixed sw then true else false) with true by reflexivity.
  rewrite Hn. cbn [andb]. unfold add_error. apply add_error_keeps_events.
Qed.

(* an unbound external: an error, or a divert into the ink fallback; never a panic *)
Lemma unbound_no_panic (name : text) (nargs : Z) (w : world) o w' :
  assoc name (w_externals w) = None ->
  call_external_function I sw name nargs w = (o, w') ->
  (forall site, o <> OPanic site) \/
  (exists site, o = OPanic site /\ w_fallbacks w = true /\
                knot_container_with_name (root_of w) name <> None).
Proof.
  intros Hd. unfold call_external_function. munfold. rewrite Hd.
  destruct (w_fallbacks w) eqn:Ef.
  - destruct (knot_container_with_name (root_of w) name) as [fp|] eqn:Ek.
    + intros H. destruct o; try (left; intros site Hs; discriminate).
      right. eexists. split; [reflexivity|]. split; [reflexivity|]. discriminate.
    + unfold fail. intros H; inversion H; subst. left. intros site Hs. discriminate.
  - unfold fail. intros H; inversion H; subst. left. intros site Hs. discriminate.
Qed.

(* arguments: popped from the evaluation stack and passed in push order *)
Lemma pop_args_order (n : nat) : forall (w : world) acc vs rest,
  ss_eval (w_state w) = rest ++ map OVal vs -> length vs = n ->
  exists w', pop_args n acc w = (OOk (vs ++ acc), w')
             /\ ss_eval (w_state w') = rest /\ w_events w' = w_events w.
Proof.
  induction n as [|n IH]; intros w acc vs rest He Hl.
  - destruct vs; [|discriminate]. cbn in He. rewrite app_nil_r in He. exists w. cbn. unfold ret.
    repeat split; assumption.
  - destruct (rev vs) as [|v rv] eqn:Er.
    + apply (f_equal (@rev _)) in Er. rewrite rev_involutive in Er. subst. discriminate.
    + assert (Hv : vs = rev rv ++ [v]).
      { apply (f_equal (@rev _)) in Er. rewrite rev_involutive in Er. exact Er. }
      subst vs. rewrite map_app in He. cbn in He. rewrite app_assoc in He.
      cbn [pop_args]. unfold mbind at 1. unfold pop_eval. munfold. rewrite He.
      unfold last_opt. rewrite map_app. cbn [map]. rewrite last_last. cbn.
      rewrite app_length in Hl. cbn in Hl.
      assert (Hl' : length (rev rv) = n) by (rewrite Nat.add_1_r in Hl; now inversion Hl).
      set (w1 := w <| w_state ::= fun s => s <| ss_eval ::= @removelast _ |> |>).
      assert (He1 : ss_eval (w_state w1) = rest ++ map OVal (rev rv)).
      { subst w1. destruct w as [st s]; destruct s; cbn in *. unfold set; cbn. rewrite He.
        now rewrite removelast_last. }
      destruct (IH w1 (v :: acc) (rev rv) rest He1 Hl') as (w' & Hp & Hr & Hev).
      exists w'. rewrite Hp. rewrite <- app_assoc. cbn.
      repeat split; try assumption;
        try (rewrite Hev; subst w1; destruct w as [st s]; destruct s; reflexivity).
Qed.

End Externals.
