(* Shell/LoadTotal.v — C15, save half: Story::load_state is total.
   Whatever JSON document it is handed — keys missing, values of the wrong type, numbers out of
   range, unknown tokens — the model of StoryState::load_json_obj (Engine/Save.v) answers Ok or Err,
   never Panic, PROVIDED every unwrap site the loading code can reach is repaired.  The two site
   tables are regenerated from the sources on every run (Gen/SaveGen.v, Gen/LoadGen.v), so an unwrap
   that comes back turns a table entry on and the instance for the current code no longer checks. *)
From Ink.Json Require Import StdLoad StdLoadProofs.
From Ink.Gen Require Import LoadGen SaveGen.
From Ink.Engine Require Import Api Tie Save.

(* the sites of the save table that LOADING can reach (the two others sit in write_json) *)
Definition load_ssite (s : ssite) : bool :=
  match s with S_w_choice_thread | S_w_prev_resolve => false | _ => true end.

(* ---------- "does not panic" in the engine's state monad ---------- *)
Definition onp {A} (o : out A) : Prop := match o with OPanic _ => False | _ => True end.
Definition NP {A} (m : M A) : Prop := forall w, onp (fst (m w)).

Lemma NP_ret {A} (x : A) : NP (ret x).
Proof. intros w. exact I. Qed.
Lemma NP_lift {A} (r : Res A) : np r -> NP (lift r).
Proof. intros H w. destruct r; cbn; try exact I. discriminate H. Qed.
Lemma NP_gets {A} (g : world -> A) : NP (gets g).
Proof. intros w. exact I. Qed.
Lemma NP_modify g : NP (modify g).
Proof. intros w. exact I. Qed.
Lemma NP_mod_state g : NP (mod_state g).
Proof. apply NP_modify. Qed.
Lemma NP_get_state : NP get_state.
Proof. apply NP_gets. Qed.
Lemma NP_bind {A B} (m : M A) (f : A -> M B) : NP m -> (forall x, NP (f x)) -> NP (mbind m f).
Proof.
  intros Hm Hf w. unfold mbind. specialize (Hm w).
  destruct (m w) as [[x|k e|s] w1]; cbn [fst] in *; [apply Hf|exact I|exact Hm].
Qed.
Lemma NP_set_flow f : NP (set_flow f).
Proof. apply NP_mod_state. Qed.
Lemma NP_set_named n : NP (set_named n).
Proof. apply NP_mod_state. Qed.

Lemma np_or_bad {A} msg (o : option A) : np (or_bad msg o).
Proof. destruct o; reflexivity. Qed.
Lemma np_bad_json {A} msg : np (@bad_json A msg).
Proof. reflexivity. Qed.
Lemma np_pushpop z : np (pushpop_from_value z).
Proof. unfold pushpop_from_value. repeat match goal with |- np (if ?b then _ else _) => destruct b end; reflexivity. Qed.
Lemma np_pointer_at_path root p : np (pointer_at_path root p).
Proof.
  unfold pointer_at_path. destruct (p_comps p) as [|c cs]; [reflexivity|].
  destruct (last _ _) as [[i|n]|];
    match goal with |- np (if ?b then _ else _) => destruct b end; reflexivity.
Qed.

Section LoadTotal.
Variable sp : ssite -> bool.
Variable ssw : save_switches.
Hypothesis Hs : forall s, load_ssite s = true -> sp s = false.
(* the helpers of json_read.rs that the save loader calls are those of the story loader *)
Hypothesis Hl : forall s, lsite_panics s = false.

Lemma np_ssite {A} s (o : option A) : load_ssite s = true -> np (ssite_res sp s o).
Proof. intros H. destruct o; cbn; [reflexivity|]. rewrite (Hs s H). reflexivity. Qed.
Lemma np_lsite {A} s (o : option A) : np (site lsite_panics s o).
Proof. destruct o; cbn; [reflexivity|]. rewrite (Hl s). reflexivity. Qed.

Lemma np_tok j name : np (jtoken_to_obj j name).
Proof. apply (np_jtoken lsite_panics (fun s _ => Hl s)). Qed.
Lemma np_obj_list l b : np (jarray_to_obj_list l b).
Proof.
  unfold jarray_to_obj_list, jarray_to_obj_list_gen. destruct b.
  - destruct l; [apply np_lsite|]. apply np_mapM. intros; apply np_tok.
  - apply np_mapM. intros; apply np_tok.
Qed.
Lemma np_hashmap_values o : np (jobject_to_hashmap_values o).
Proof.
  unfold jobject_to_hashmap_values, jobject_to_hashmap_values_gen. apply np_foldM. intros acc kv.
  apply np_bind'; [apply np_tok|]. intros ob. apply np_bind'; [apply np_lsite|]. intros; reflexivity.
Qed.
Lemma np_int_hashmap o : np (jobject_to_int_hashmap o).
Proof.
  unfold jobject_to_int_hashmap, jobject_to_int_hashmap_gen. apply np_foldM. intros acc kv.
  apply np_bind'; [apply np_lsite|]. intros; reflexivity.
Qed.

Section WithRoot.
Variable root : container.

Lemma np_read_element j : np (read_element ssw root j).
Proof.
  unfold read_element. destruct j; try reflexivity.
  apply np_bind'; [apply np_or_bad|]. intros ty.
  apply np_bind'; [apply np_pushpop|]. intros pp.
  apply np_bind'.
  { destruct (obind _ _); [|reflexivity]. apply np_bind'; [apply np_or_bad|]. intros; reflexivity. }
  intros ptr. apply np_bind'.
  { destruct (obind _ _); [apply np_hashmap_values|reflexivity]. }
  intros; reflexivity.
Qed.
Lemma np_read_elements l : np (read_elements ssw root l).
Proof.
  induction l as [|j r IH]; cbn [read_elements]; [reflexivity|].
  apply np_bind'; [apply np_read_element|]. intros e. apply np_bind'; [exact IH|]. intros; reflexivity.
Qed.
Lemma np_read_thread o : np (read_thread ssw root o).
Proof.
  unfold read_thread.
  apply np_bind'; [apply np_or_bad|]. intros ti.
  apply np_bind'. { destruct (obind _ _); [apply np_read_elements|reflexivity]. }
  intros els. apply np_bind'. { destruct (_ && _); reflexivity. }
  intros ?. apply np_bind'. { destruct (obind _ _); [apply np_pointer_at_path|reflexivity]. }
  intros; reflexivity.
Qed.
Lemma np_read_threads_into l : forall acc, np (fst (read_threads_into sp ssw root l acc)).
Proof.
  induction l as [|j r IH]; intros acc; cbn [read_threads_into]; [reflexivity|].
  pose proof (np_ssite S_cs_thread_obj (j_as_obj j) eq_refl) as H1.
  destruct (ssite_res sp S_cs_thread_obj (j_as_obj j)) as [o|k m|s]; [|reflexivity|discriminate H1].
  pose proof (np_read_thread o) as H2.
  destruct (read_thread ssw root o) as [t|k m|s]; [apply IH|reflexivity|discriminate H2].
Qed.
Lemma np_load_callstack cs o : np (fst (load_callstack sp ssw root cs o)).
Proof.
  unfold load_callstack.
  pose proof (np_ssite S_cs_threads_get (oget o "threads") eq_refl) as H1.
  destruct (ssite_res sp S_cs_threads_get _) as [jt|k m|s]; [|reflexivity|discriminate H1].
  pose proof (np_ssite S_cs_threads_arr (j_as_arr jt) eq_refl) as H2.
  destruct (ssite_res sp S_cs_threads_arr _) as [l|k m|s]; [|reflexivity|discriminate H2].
  pose proof (np_read_threads_into l []) as H3.
  destruct (read_threads_into sp ssw root l []) as [r ts]. cbn [fst] in H3.
  destruct r as [u|k m|s]; [|reflexivity|discriminate H3].
  destruct (_ && _); [reflexivity|].
  assert (H4 : np (do jc <- ssite_res sp S_cs_counter_get (oget o "threadCounter");
                   ssite_res sp S_cs_counter_i64 (j_as_i64 jc))).
  { apply np_bind'; [apply np_ssite; reflexivity|]. intros jc. apply np_ssite; reflexivity. }
  destruct (do jc <- ssite_res sp S_cs_counter_get (oget o "threadCounter");
            ssite_res sp S_cs_counter_i64 (j_as_i64 jc)) as [n|k m|s]; [reflexivity|reflexivity|discriminate H4].
Qed.
Lemma np_load_callstack_res o : np (load_callstack_res sp ssw root o).
Proof.
  unfold load_callstack_res. pose proof (np_load_callstack cs_new o) as H.
  destruct (load_callstack sp ssw root cs_new o) as [r cs]. cbn [fst] in H.
  apply np_bind'; [exact H|]. intros; reflexivity.
Qed.
Lemma np_choices_of_objs dc : load_ssite dc = true -> forall js os, np (choices_of_objs sp ssw dc js os).
Proof.
  intros Hdc. induction js as [|j jr IH]; intros os; cbn [choices_of_objs]; [reflexivity|].
  destruct os as [|o or_]; [reflexivity|].
  apply np_bind'; [apply np_ssite; exact Hdc|]. intros c. apply np_bind'; [apply IH|]. intros; reflexivity.
Qed.
Lemma np_read_choices dc arr : load_ssite dc = true -> np (read_choices sp ssw dc arr).
Proof.
  intros Hdc. unfold read_choices. apply np_bind'; [apply np_obj_list|]. intros os. now apply np_choices_of_objs.
Qed.
Lemma np_load_choice_thread cs jct c : np (load_choice_thread sp ssw root cs jct c).
Proof.
  unfold load_choice_thread. destruct (cs_thread_with_index _ _); [reflexivity|].
  apply np_bind'; [apply np_ssite; reflexivity|]. intros j.
  apply np_bind'; [apply np_ssite; reflexivity|]. intros o.
  pose proof (np_read_thread o) as H.
  destruct (read_thread ssw root o) as [t|k m|s]; [reflexivity| |discriminate H].
  rewrite (Hs S_ct_thread_err eq_refl). reflexivity.
Qed.
Lemma np_load_flow_choice_threads cs jct l : np (load_flow_choice_threads sp ssw root cs jct l).
Proof. unfold load_flow_choice_threads. apply np_mapM. intros; apply np_load_choice_thread. Qed.
Lemma np_flow_from_json name o : np (flow_from_json sp ssw root name o).
Proof.
  unfold flow_from_json.
  apply np_bind'; [apply np_or_bad|]. intros jo.
  apply np_bind'; [apply np_ssite; reflexivity|]. intros oa.
  apply np_bind'; [apply np_obj_list|]. intros out.
  apply np_bind'; [apply np_or_bad|]. intros jc.
  apply np_bind'; [apply np_ssite; reflexivity|]. intros ca.
  apply np_bind'; [apply np_read_choices; reflexivity|]. intros choices.
  apply np_bind'; [apply np_or_bad|]. intros jcs.
  apply np_bind'; [apply np_ssite; reflexivity|]. intros cso.
  apply np_bind'; [apply np_load_callstack_res|]. intros cs.
  apply np_bind'; [apply np_load_flow_choice_threads|]. intros; reflexivity.
Qed.
End WithRoot.

Lemma np_load_vars_loop defs o : forall acc, np (fst (load_vars_loop sp defs o acc)).
Proof.
  induction defs as [|[k d] r IH]; intros acc; cbn [load_vars_loop]; [reflexivity|].
  destruct (assoc k o) as [tok|]; [|apply IH].
  assert (H : np (do ob <- jtoken_to_obj tok None;
                  ssite_res sp S_vars_downcast (match ob with OVal v => Some v | _ => None end))).
  { apply np_bind'; [apply np_tok|]. intros ob. apply np_ssite; reflexivity. }
  destruct (do ob <- jtoken_to_obj tok None;
            ssite_res sp S_vars_downcast (match ob with OVal v => Some v | _ => None end)) as [v|e m|s];
    [apply IH|reflexivity|discriminate H].
Qed.

Lemma NP_load_flows_loop single l : NP (load_flows_loop sp ssw single l).
Proof.
  induction l as [|[name fj] r IH]; cbn [load_flows_loop]; [apply NP_ret|].
  apply NP_bind; [apply NP_lift, np_or_bad|]. intros fo.
  apply NP_bind; [apply NP_gets|]. intros root.
  apply NP_bind; [apply NP_lift, np_flow_from_json|]. intros f.
  apply NP_bind; [|intros _; exact IH].
  destruct single; [apply NP_set_flow|].
  apply NP_bind; [apply NP_get_state|]. intros s.
  destruct (ss_named s); [apply NP_set_named|apply NP_lift, np_bad_json].
Qed.

Lemma NP_load_flows j : NP (load_flows sp ssw j).
Proof.
  unfold load_flows. destruct (jget "flows" j) as [fj|].
  - apply NP_bind; [apply NP_lift, np_or_bad|]. intros fd.
    apply NP_bind; [apply NP_set_named|]. intros _.
    apply NP_bind; [apply NP_load_flows_loop|]. intros _.
    apply NP_bind; [apply NP_get_state|]. intros s.
    destruct (ss_named s) as [nf|]; [|apply NP_ret].
    destruct (Nat.ltb 1 (length nf)); [|apply NP_ret].
    destruct (obind _ _) as [cn|]; [|apply NP_ret].
    destruct (assoc cn nf); [|apply NP_ret].
    apply NP_bind; [apply NP_set_flow|]. intros _. apply NP_set_named.
  - apply NP_bind; [apply NP_set_named|]. intros _.
    apply NP_bind; [apply NP_mod_state|]. intros _.
    apply NP_bind; [apply NP_lift, np_or_bad|]. intros cso.
    apply NP_bind; [apply NP_gets|]. intros root.
    apply NP_bind; [apply NP_get_state|]. intros s.
    pose proof (np_load_callstack root (fl_cs (ss_flow s)) cso) as H.
    destruct (load_callstack sp ssw root (fl_cs (ss_flow s)) cso) as [r cs]. cbn [fst] in H.
    apply NP_bind; [apply NP_mod_state|]. intros _.
    apply NP_bind; [apply NP_lift, H|]. intros _.
    apply NP_bind.
    { destruct (jget "outputStream" j); [|apply NP_ret].
      apply NP_bind; [apply NP_lift, np_ssite; reflexivity|]. intros oa.
      apply NP_bind; [apply NP_lift, np_obj_list|]. intros out. apply NP_mod_state. }
    intros _. apply NP_bind.
    { destruct (jget "currentChoices" j); [|apply NP_ret].
      apply NP_bind; [apply NP_lift, np_ssite; reflexivity|]. intros ca.
      apply NP_bind; [apply NP_lift, np_read_choices; reflexivity|]. intros chs. apply NP_mod_state. }
    intros _. apply NP_bind; [apply NP_get_state|]. intros s2.
    apply NP_bind; [apply NP_lift, np_load_flow_choice_threads|]. intros chs. apply NP_mod_state.
Qed.

Lemma NP_load_i32_field j k msg set : NP (load_i32_field j k msg set).
Proof.
  unfold load_i32_field. destruct (jget k j); [|apply NP_ret].
  apply NP_bind; [apply NP_lift, np_or_bad|]. intros z. apply NP_mod_state.
Qed.

Lemma NP_load_json_obj j : NP (load_json_obj sp ssw j).
Proof.
  unfold load_json_obj.
  apply NP_bind; [apply NP_lift, np_or_bad|]. intros ver.
  apply NP_bind.
  { apply NP_lift. destruct (j_as_i64 ver); [|reflexivity]. destruct (_ <? _)%Z; reflexivity. }
  intros _. apply NP_bind; [apply NP_load_flows|]. intros _.
  apply NP_bind.
  { destruct (jget "variablesState" j); [|apply NP_ret].
    apply NP_bind; [apply NP_lift, np_or_bad|]. intros vo.
    apply NP_bind; [apply NP_get_state|]. intros s.
    pose proof (np_load_vars_loop (vs_defaults (ss_vars s)) vo []) as H.
    destruct (load_vars_loop sp (vs_defaults (ss_vars s)) vo []) as [r g]. cbn [fst] in H.
    apply NP_bind; [apply NP_mod_state|]. intros _. apply NP_lift, H. }
  intros _. apply NP_bind.
  { destruct (jget "evalStack" j); [|apply NP_ret].
    apply NP_bind; [apply NP_lift, np_ssite; reflexivity|]. intros ea.
    apply NP_bind; [apply NP_lift, np_obj_list|]. intros ev. apply NP_mod_state. }
  intros _. apply NP_bind.
  { destruct (jget "currentDivertTarget" j); [|apply NP_ret].
    apply NP_bind; [apply NP_gets|]. intros root.
    apply NP_bind; [apply NP_lift, np_pointer_at_path|]. intros p. apply NP_mod_state. }
  intros _. apply NP_bind.
  { destruct (jget "visitCounts" j); [|apply NP_ret].
    apply NP_bind; [apply NP_lift, np_or_bad|]. intros vo.
    apply NP_bind; [apply NP_lift, np_int_hashmap|]. intros m. apply NP_mod_state. }
  intros _. apply NP_bind.
  { destruct (jget "turnIndices" j); [|apply NP_ret].
    apply NP_bind; [apply NP_lift, np_or_bad|]. intros vo.
    apply NP_bind; [apply NP_lift, np_int_hashmap|]. intros m. apply NP_mod_state. }
  intros _. apply NP_bind; [apply NP_load_i32_field|]. intros _.
  apply NP_bind; [apply NP_load_i32_field|]. intros _.
  destruct (jget "previousRandom" j); [|apply NP_mod_state].
  apply NP_bind; [apply NP_lift, np_or_bad|]. intros z. apply NP_mod_state.
Qed.

(* THE THEOREM: for every world (any story, any state reached, any bookkeeping) and every document *)
Theorem load_state_total_gen : forall w j site, fst (load_state sp ssw w j) <> OPanic site.
Proof.
  intros w j site E. pose proof (NP_load_json_obj j w) as H. unfold load_state in E.
  rewrite E in H. exact H.
Qed.
End LoadTotal.

(* ---------- the instance for the code as it is NOW (regenerated tables) ---------- *)
Lemma load_ssites_off_now : forall s, load_ssite s = true -> ssite_panics s = false.
Proof. intros s. destruct s; intros H; try reflexivity; discriminate H. Qed.
Lemma lsites_off_now : forall s, lsite_panics s = false.
Proof. intros s. destruct s; reflexivity. Qed.

Theorem load_state_total_now : forall w j site, fst (load_state_now w j) <> OPanic site.
Proof. exact (load_state_total_gen ssite_panics save_switches_now load_ssites_off_now lsites_off_now). Qed.


(* and the hypothesis is not idle: with the unwrap on the evalStack array back in place,
   {"inkSaveVersion":10,"flows":{},"evalStack":0} panics — in every story and from every state *)
Definition doc_eval_not_array : json :=
  JObj [(T "inkSaveVersion", JInt 10); (T "flows", JObj []); (T "evalStack", JInt 0)].
Definition eval_site_only (s : ssite) : bool := match s with S_eval_arr => true | _ => false end.
Lemma load_state_panics_with_eval_site_on : forall ssw w,
  exists site, fst (load_state eval_site_only ssw w doc_eval_not_array) = OPanic site.
Proof. intros ssw w. eexists. vm_compute. reflexivity. Qed.
